#!/bin/sh
# Builds the fact extractor (libTooling) from files on disk. Offline.
set -e
cd "$(dirname "$0")"
mkdir -p build
if [ ! -x build/extract ] || [ engine/extract.cc -nt build/extract ]; then
  clang++ $(llvm-config-14 --cxxflags) -std=c++17 -fno-rtti -O1 engine/extract.cc -o build/extract.tmp \
    /usr/lib/llvm-14/lib/libclang-cpp.so.14 /usr/lib/llvm-14/lib/libLLVM-14.so
  mv build/extract.tmp build/extract
fi
echo "setup ok"
