// coclint extractor: per instantiated function body under --root, clang CFG -> JSON mini-IR
// (blocks, edges, branch condition summaries, ordered events with resolved callees and access
// paths).  See DESIGN.md section 2.1.  No library code is executed; this is a libTooling pass.
#include "clang/AST/ASTConsumer.h"
#include "clang/AST/DeclTemplate.h"
#include "clang/AST/ExprCXX.h"
#include "clang/AST/ParentMap.h"
#include "clang/AST/RecursiveASTVisitor.h"
#include "clang/AST/StmtCXX.h"
#include "clang/Analysis/CFG.h"
#include "clang/Frontend/CompilerInstance.h"
#include "clang/Frontend/FrontendAction.h"
#include "clang/Tooling/CommonOptionsParser.h"
#include "clang/Tooling/Tooling.h"
#include "llvm/Support/CommandLine.h"
#include "llvm/Support/JSON.h"
#include <set>
using namespace clang;
using namespace clang::tooling;
namespace json = llvm::json;
static llvm::cl::OptionCategory Cat("extract");
static llvm::cl::opt<std::string> Out("o", llvm::cl::cat(Cat), llvm::cl::init("-"));
static llvm::cl::opt<std::string> Root("root", llvm::cl::cat(Cat), llvm::cl::init("/cocls/"));

static const FunctionDecl *patternOf(const FunctionDecl *FD) {
  if (!FD) return nullptr;
  if (auto *T = FD->getTemplateInstantiationPattern()) FD = T;
  if (auto *D = FD->getDefinition()) FD = D;
  return FD;
}
static std::string qname(const NamedDecl *D) {
  if (!D) return "";
  std::string s; llvm::raw_string_ostream os(s);
  D->printQualifiedName(os, PrintingPolicy(LangOptions()));
  return os.str();
}
static std::string instName(const FunctionDecl *FD) {
  std::string s; llvm::raw_string_ostream os(s);
  FD->getNameForDiagnostic(os, PrintingPolicy(LangOptions()), true);
  return os.str();
}

// collects, for one function body: statements synthesised by the coroutine machinery and the
// innermost enclosing try statement of every statement
struct PrePass : RecursiveASTVisitor<PrePass> {
  llvm::DenseSet<const Stmt *> implicitAwait;           // await_ready/suspend/resume calls of co_await / co_yield
  llvm::DenseMap<const Stmt *, const CXXTryStmt *> tryOf;
  llvm::DenseSet<const Stmt *> inHandler;                // statements lexically inside a catch handler (an exception is being handled)
  int handlerDepth = 0;
  std::vector<const CXXTryStmt *> stack;
  bool shouldVisitImplicitCode() const { return true; }
  bool TraverseLambdaExpr(LambdaExpr *) { return true; }   // lambda bodies are functions of their own
  void markAll(const Stmt *S) { if (!S) return; implicitAwait.insert(S); for (const Stmt *C : S->children()) markAll(C); }
  bool VisitCoroutineSuspendExpr(CoroutineSuspendExpr *E) {
    // the three synthesised calls; the operand / common expression stays explicit
    for (const Expr *X : {E->getReadyExpr(), E->getSuspendExpr(), E->getResumeExpr()}) {
      const Expr *I = X ? X->IgnoreImplicit() : nullptr;
      if (I) implicitAwait.insert(I);
      if (X) implicitAwait.insert(X);
      // nested wrappers (e.g. await_suspend result converted) : mark call nodes on the spine only
      while (I) {
        implicitAwait.insert(I);
        if (auto *CE = dyn_cast<CallExpr>(I)) { if (isa<CXXMemberCallExpr>(CE) || isa<CXXOperatorCallExpr>(CE)) break; if (CE->getNumArgs()) { I = CE->getArg(0)->IgnoreImplicit(); continue; } }
        break;
      }
    }
    return true;
  }
  bool dataTraverseStmtPre(Stmt *S) {
    if (!stack.empty()) tryOf[S] = stack.back();
    if (handlerDepth > 0) inHandler.insert(S);
    return true;
  }
  bool TraverseCXXTryStmt(CXXTryStmt *T) {
    if (!stack.empty()) tryOf[T] = stack.back();
    stack.push_back(T);
    TraverseStmt(T->getTryBlock());
    stack.pop_back();
    for (unsigned i = 0; i < T->getNumHandlers(); ++i) { ++handlerDepth; TraverseStmt(T->getHandler(i)); --handlerDepth; }
    return true;
  }
};

struct Ex {
  ASTContext &C; SourceManager &SM;
  Ex(ASTContext &C):C(C),SM(C.getSourceManager()){}
  std::string loc(SourceLocation L) {
    L = SM.getExpansionLoc(L);
    auto P = SM.getPresumedLoc(L); if (!P.isValid()) return "?";
    return (llvm::Twine(P.getFilename())+":"+llvm::Twine(P.getLine())+":"+llvm::Twine(P.getColumn())).str();
  }
  unsigned line(SourceLocation L) { auto P = SM.getPresumedLoc(SM.getExpansionLoc(L)); return P.isValid() ? P.getLine() : 0; }
  bool inRoot(SourceLocation L) { auto P = SM.getPresumedLoc(SM.getExpansionLoc(L)); return P.isValid() && StringRef(P.getFilename()).contains(Root); }
  std::string fkey(const FunctionDecl *FD) { auto *P = patternOf(FD); return P ? loc(P->getLocation()) : ""; }
  std::string fq(const FunctionDecl *FD) { auto *P = patternOf(FD); return P ? qname(P) : ""; }
  std::map<std::string, std::string> Consts;
  std::string intConst(const VarDecl *VD) {   // value of a namespace-scope / static member constant of a plain integer type (not bool, not an enumeration, not memory orders)
    QualType T = VD->getType().getNonReferenceType();
    if (VD->hasLocalStorage() || !T.isConstQualified() || !T->isIntegerType() || T->isBooleanType() || T->isEnumeralType() || VD->isTemplated() && VD->getType()->isDependentType()) return "";
    if (!VD->getAnyInitializer() || VD->getAnyInitializer()->isValueDependent()) return "";
    if (const APValue *V = VD->evaluateValue()) if (V->isInt()) return std::to_string(V->getInt().getExtValue());
    return "";
  }
  std::string vname(const ValueDecl *VD) {   // the unnamed variable behind a structured binding gets a name derived from its position
    if (isa<DecompositionDecl>(VD)) { auto &SM = C.getSourceManager(); auto L = SM.getSpellingLoc(VD->getLocation()); return "__sb" + std::to_string(SM.getSpellingLineNumber(L)) + "_" + std::to_string(SM.getSpellingColumnNumber(L)); }
    return VD->getNameAsString();
  }
  // a class local to a function that has nothing but data members and one call operator: a closure written out by hand.  It is
  // reported like a lambda (its operator() is a closure body of the enclosing function, its members are captures)
  const CXXMethodDecl *functorOp(const CXXRecordDecl *RD) {
    if (!RD) return nullptr; RD = RD->getDefinition();
    if (!RD || RD->isLambda() || !RD->isLocalClass() || RD->getNumBases() != 0 || RD->isDependentContext()) return nullptr;
    const CXXMethodDecl *Op = nullptr;
    for (auto *D : RD->decls()) {
      if (isa<FunctionTemplateDecl>(D)) return nullptr;
      if (auto *M = dyn_cast<CXXMethodDecl>(D)) { if (M->isImplicit()) continue; if (M->getOverloadedOperator()==OO_Call && !Op && !M->isStatic()) Op = M; else return nullptr; }
    }
    return (Op && Op->hasBody()) ? Op : nullptr;
  }
  // the expression that creates such an object: T{a, b} / T() (not a copy or move)
  const CXXMethodDecl *functorCreated(const Stmt *S) {
    auto *E = dyn_cast_or_null<Expr>(S); if (!E) return nullptr;
    if (auto *IL = dyn_cast<InitListExpr>(E)) { if (IL->isSemanticForm() || !IL->getSemanticForm()) return functorOp(IL->getType()->getAsCXXRecordDecl()); return nullptr; }
    if (auto *CC = dyn_cast<CXXConstructExpr>(E)) { if (CC->getConstructor()->isCopyOrMoveConstructor()) return nullptr; return functorOp(CC->getType()->getAsCXXRecordDecl()); }
    return nullptr;
  }
  const CXXRecordDecl *CurFunctor = nullptr;     // set while the body of such a call operator is being reported
  std::string path(const Expr *E) {
    if (!E) return "<null>";
    E = E->IgnoreParenImpCasts();
    if (auto *EWC = dyn_cast<ExprWithCleanups>(E)) return path(EWC->getSubExpr());
    if (isa<CXXThisExpr>(E)) return "this";
    if (auto *FOp = functorCreated(E)) return "lambda@" + loc(FOp->getLocation());
    if (auto *FC = dyn_cast<CXXFunctionalCastExpr>(E)) if (auto *FOp = functorCreated(FC->getSubExpr()->IgnoreParenImpCasts())) return "lambda@" + loc(FOp->getLocation());
    if (auto *D = dyn_cast<DeclRefExpr>(E)) {
      auto *VD = D->getDecl();
      if (auto *BD = dyn_cast<BindingDecl>(VD)) if (BD->getBinding()) return path(BD->getBinding());   // auto &[a, b] = x;  a is x.<field>
      if (auto *RF = dyn_cast<FunctionDecl>(VD)) {   // a reference to a specialisation of a function template names that specialisation: fn:<pattern>@<instantiation>
        if (RF->isFunctionTemplateSpecialization()) return "fn:" + fq(RF) + "@" + instName(RF);
        return "fn:" + fq(RF);
      }
      std::string k = isa<ParmVarDecl>(VD) ? "param:" : (isa<VarDecl>(VD) ? (cast<VarDecl>(VD)->hasLocalStorage() ? "local:" : "global:") : "decl:");
      if (D->refersToEnclosingVariableOrCapture()) k = "capture:";
      else if (auto *V = dyn_cast<VarDecl>(VD)) if (V->isInitCapture()) k = "capture:";
      if (k == "global:") if (auto *GV = dyn_cast<VarDecl>(VD)) { std::string n = intConst(GV); if (!n.empty()) Consts["global:" + qname(VD)] = n; }   // static constexpr std::size_t trailer_size = sizeof(void *): the value goes to a side table
      if (k == "global:" || k == "decl:") return k + qname(VD);
      return k + vname(VD);
    }
    if (auto *M = dyn_cast<MemberExpr>(E)) {
      if (isa<CXXMethodDecl>(M->getMemberDecl())) return path(M->getBase());
      if (auto *VD = dyn_cast<VarDecl>(M->getMemberDecl())) { std::string n = intConst(VD); if (!n.empty()) Consts["global:" + qname(VD)] = n; return "global:" + qname(VD); }   // static data member through an object
      if (CurFunctor && isa<CXXThisExpr>(M->getBase()->IgnoreParenImpCasts()) && isa<FieldDecl>(M->getMemberDecl()) && cast<FieldDecl>(M->getMemberDecl())->getParent()->getCanonicalDecl() == CurFunctor->getCanonicalDecl())
        return "capture:" + M->getMemberDecl()->getNameAsString();
      return path(M->getBase()) + (M->isArrow()?"->":".") + M->getMemberDecl()->getNameAsString();
    }
    if (auto *U = dyn_cast<UnaryOperator>(E)) {
      if (U->getOpcode()==UO_Deref) return "*(" + path(U->getSubExpr()) + ")";
      if (U->getOpcode()==UO_AddrOf) return "&(" + path(U->getSubExpr()) + ")";
      if (U->getOpcode()==UO_LNot) return "!(" + path(U->getSubExpr()) + ")";
    }
    if (auto *A = dyn_cast<ArraySubscriptExpr>(E)) return path(A->getBase()) + "[]";
    if (auto *O = dyn_cast<CXXOperatorCallExpr>(E)) {
      if (O->getOperator()==OO_Arrow) return "*(" + path(O->getArg(0)) + ")";
      if (O->getOperator()==OO_Star && O->getNumArgs()==1) return "*(" + path(O->getArg(0)) + ")";
      if (O->getOperator()==OO_Subscript) return path(O->getArg(0)) + "[]";
      return "call(" + fq(O->getDirectCallee()) + ")";
    }
    if (auto *Cst = dyn_cast<ExplicitCastExpr>(E)) return path(Cst->getSubExpr());
    if (auto *MC = dyn_cast<CXXMemberCallExpr>(E)) return "call(" + fq(MC->getMethodDecl()) + ")";
    if (auto *CE = dyn_cast<CallExpr>(E)) {
      if (auto *FD = CE->getDirectCallee()) { std::string n = fq(FD); if (n=="std::as_const" && CE->getNumArgs()==1) return path(CE->getArg(0)); if ((n=="std::move"||n=="std::forward"||n=="std::addressof") && CE->getNumArgs()==1) return (n=="std::addressof"?"&(":n.substr(5)+"(") + path(CE->getArg(0)) + ")"; return "call(" + n + ")"; }
      return "call(?)";
    }
    if (isa<CXXNullPtrLiteralExpr>(E) || isa<GNUNullExpr>(E)) return "nullptr";
    if (auto *MT = dyn_cast<MaterializeTemporaryExpr>(E)) return path(MT->getSubExpr());
    if (auto *BT = dyn_cast<CXXBindTemporaryExpr>(E)) return path(BT->getSubExpr());
    if (auto *CC = dyn_cast<CXXConstructExpr>(E)) { if (CC->getNumArgs()==1) return "ctor(" + path(CC->getArg(0)) + ")"; if (CC->getNumArgs()==0) return "ctor()"; return "ctor(...)"; }
    if (auto *IL = dyn_cast<InitListExpr>(E)) { if (IL->getNumInits()==0) return "{}"; if (IL->getNumInits()==1) return "{" + path(IL->getInit(0)) + "}"; if (IL->getNumInits() > 8) return "{...}"; std::string r = "{"; for (unsigned i = 0; i < IL->getNumInits(); ++i) { if (i) r += ", "; r += path(IL->getInit(i)); } return r + "}"; }
    if (auto *BO = dyn_cast<BinaryOperator>(E)) return "(" + path(BO->getLHS()) + " " + BO->getOpcodeStr().str() + " " + path(BO->getRHS()) + ")";
    if (auto *RB = dyn_cast<CXXRewrittenBinaryOperator>(E)) { auto D = RB->getDecomposedForm(); return "(" + path(D.LHS) + " " + BinaryOperator::getOpcodeStr(D.Opcode).str() + " " + path(D.RHS) + ")"; }
    if (auto *CO = dyn_cast<ConditionalOperator>(E)) return "(" + path(CO->getCond()) + " ? " + path(CO->getTrueExpr()) + " : " + path(CO->getFalseExpr()) + ")";
    if (auto *IL = dyn_cast<IntegerLiteral>(E)) return std::to_string(IL->getValue().getLimitedValue());
    if (auto *BL = dyn_cast<CXXBoolLiteralExpr>(E)) return BL->getValue()?"true":"false";
    if (isa<LambdaExpr>(E)) return "lambda@" + loc(cast<LambdaExpr>(E)->getCallOperator()->getLocation());
    if (auto *SO = dyn_cast<UnaryExprOrTypeTraitExpr>(E)) { if (SO->getKind()==UETT_SizeOf) return "sizeof(" + SO->getTypeOfArgument().getAsString() + ")"; }
    if (isa<CXXScalarValueInitExpr>(E)) return "{}";
    if (auto *DA = dyn_cast<CXXDefaultArgExpr>(E)) return path(DA->getExpr());
    if (auto *CA = dyn_cast<CoawaitExpr>(E)) return "co_await(" + path(CA->getOperand()) + ")";
    if (auto *CY = dyn_cast<CoyieldExpr>(E)) return "co_yield(" + path(CY->getOperand()) + ")";
    if (auto *OV = dyn_cast<OpaqueValueExpr>(E)) return path(OV->getSourceExpr());
    return std::string("<") + E->getStmtClassName() + ">";
  }
  const Expr *asConstArg(const Expr *E) {   // std::as_const(x) is x
    if (auto *CE = dyn_cast_or_null<CallExpr>(E)) if (!isa<CXXMemberCallExpr>(CE) && !isa<CXXOperatorCallExpr>(CE)) if (auto *FD = CE->getDirectCallee()) if (CE->getNumArgs()==1 && fq(FD)=="std::as_const") return CE->getArg(0);
    return nullptr;
  }
  std::string firstField(const Expr *E) {   // declaration of the outermost data member in an access path
    E = E ? E->IgnoreParenImpCasts() : nullptr; std::string last;
    while (E) {
      if (auto *M = dyn_cast<MemberExpr>(E)) { if (auto *FD = dyn_cast<FieldDecl>(M->getMemberDecl())) last = qname(FD->getParent()) + "::" + FD->getNameAsString(); else if (auto *VD = dyn_cast<VarDecl>(M->getMemberDecl())) last = qname(VD); E = M->getBase()->IgnoreParenImpCasts(); continue; }
      if (auto *A = dyn_cast<ArraySubscriptExpr>(E)) { E = A->getBase()->IgnoreParenImpCasts(); continue; }
      if (auto *O = dyn_cast<CXXOperatorCallExpr>(E)) { if ((O->getOperator()==OO_Subscript||O->getOperator()==OO_Arrow||O->getOperator()==OO_Star) && O->getNumArgs()) { E = O->getArg(0)->IgnoreParenImpCasts(); continue; } }
      if (auto *U = dyn_cast<UnaryOperator>(E)) { if (U->getOpcode()==UO_Deref || U->getOpcode()==UO_AddrOf) { E = U->getSubExpr()->IgnoreParenImpCasts(); continue; } }
      if (auto *Cst = dyn_cast<ExplicitCastExpr>(E)) { E = Cst->getSubExpr()->IgnoreParenImpCasts(); continue; }
      if (auto *AC = asConstArg(E)) { E = AC->IgnoreParenImpCasts(); continue; }
      if (auto *D = dyn_cast<DeclRefExpr>(E)) { if (auto *BD = dyn_cast<BindingDecl>(D->getDecl())) if (BD->getBinding()) { E = BD->getBinding()->IgnoreParenImpCasts(); continue; } if (auto *VD = dyn_cast<VarDecl>(D->getDecl())) if (!VD->hasLocalStorage() && last.empty()) last = qname(VD); }
      break;
    }
    return last;
  }
  // the immediate member of the access (a.b.c -> decl of c)
  std::string lastField(const Expr *E) {
    E = E ? E->IgnoreParenImpCasts() : nullptr;
    if (auto *AC = asConstArg(E)) E = AC->IgnoreParenImpCasts();
    if (auto *D = dyn_cast_or_null<DeclRefExpr>(E)) if (auto *BD = dyn_cast<BindingDecl>(D->getDecl())) if (BD->getBinding()) E = BD->getBinding()->IgnoreParenImpCasts();
    if (auto *M = dyn_cast_or_null<MemberExpr>(E)) if (auto *FD = dyn_cast<FieldDecl>(M->getMemberDecl())) return qname(FD->getParent()) + "::" + FD->getNameAsString();
    return "";
  }
  json::Value constVal(const Expr *E) {
    Expr::EvalResult R;
    if (E && !E->isValueDependent() && !E->getType()->isVoidType()) {
      if (E->getType()->isIntegralOrEnumerationType() && E->EvaluateAsInt(R, C)) return (int64_t)R.Val.getInt().getExtValue();
      const Expr *I = E->IgnoreParenImpCasts();
      if (isa<CXXNullPtrLiteralExpr>(I) || isa<GNUNullExpr>(I)) return (int64_t)0;
      if (E->getType()->isPointerType() && E->isNullPointerConstant(C, Expr::NPC_NeverValueDependent)) return (int64_t)0;
    }
    return nullptr;
  }
  const Stmt *peelCond(const Stmt *S, bool &neg) {
    neg = false; bool wrapped = false;
    while (S) {
      auto *E = dyn_cast<Expr>(S); if (!E) return S;
      const Expr *I = E->IgnoreParenImpCasts();
      if (auto *EWC = dyn_cast<ExprWithCleanups>(I)) { S = EWC->getSubExpr(); continue; }
      // static_cast<bool>(x) / bool(x) / (bool)x: the condition is x (its contextual conversion)
      if (auto *XC = dyn_cast<ExplicitCastExpr>(I)) if (XC->getType()->isBooleanType()) { S = XC->getSubExpr(); continue; }
      if (auto *U = dyn_cast<UnaryOperator>(I)) if (U->getOpcode()==UO_LNot) { neg = !neg; wrapped = true; S = U->getSubExpr(); continue; }
      // if (!(a || b)): the negation makes clang evaluate a || b as a value (both arms meet in the block that branches): that block tests the whole expression
      if (auto *LB = dyn_cast<BinaryOperator>(I)) if (LB->isLogicalOp() && wrapped) return I;
      if (auto *LB = dyn_cast<BinaryOperator>(I)) if (LB->isLogicalOp()) { S = LB->getRHS(); continue; }   // in the block that evaluates the RHS the whole expression has the RHS's truth value
      return I;
    }
    return S;
  }
  // peel value-preserving wrappers to find the event that computes an expression
  const Expr *peelVal(const Expr *E) {
    while (E) {
      const Expr *I = E->IgnoreParenImpCasts();
      if (auto *EWC = dyn_cast<ExprWithCleanups>(I)) { E = EWC->getSubExpr(); continue; }
      if (auto *MT = dyn_cast<MaterializeTemporaryExpr>(I)) { E = MT->getSubExpr(); continue; }
      if (auto *BT = dyn_cast<CXXBindTemporaryExpr>(I)) { E = BT->getSubExpr(); continue; }
      if (auto *Cst = dyn_cast<ExplicitCastExpr>(I)) { E = Cst->getSubExpr(); continue; }
      if (auto *DA = dyn_cast<CXXDefaultArgExpr>(I)) { E = DA->getExpr(); continue; }
      return I;
    }
    return E;
  }
  llvm::DenseMap<const Stmt*, int> ids;
  llvm::DenseMap<const Stmt*, int> kept;     // statements that produced an event
  int evOf(const Expr *E) {
    while (E) {
      auto it = kept.find(E); if (it != kept.end()) return it->second;
      const Expr *N = nullptr;
      if (auto *P = dyn_cast<ParenExpr>(E)) N = P->getSubExpr();
      else if (auto *FE = dyn_cast<FullExpr>(E)) N = FE->getSubExpr();
      else if (auto *MT = dyn_cast<MaterializeTemporaryExpr>(E)) N = MT->getSubExpr();
      else if (auto *BT = dyn_cast<CXXBindTemporaryExpr>(E)) N = BT->getSubExpr();
      else if (auto *CE = dyn_cast<CastExpr>(E)) N = CE->getSubExpr();
      else if (auto *DA = dyn_cast<CXXDefaultArgExpr>(E)) N = DA->getExpr();
      else if (auto *UO = dyn_cast<UnaryOperator>(E)) { if (UO->getOpcode()==UO_LNot) N = UO->getSubExpr(); }
      E = N;
    }
    return -1;
  }
  json::Array argsOf(llvm::ArrayRef<const Expr*> Args) {
    json::Array args;
    for (const Expr *A : Args) {
      bool def = false; if (auto *D = dyn_cast_or_null<CXXDefaultArgExpr>(A)) { A = D->getExpr(); def = true; }
      json::Object JA; JA["path"]=path(A);
      if (A) { if (auto v = constVal(A); v.kind()!=json::Value::Null) JA["const"]=v; JA["type"]=A->getType().getAsString(); { std::string ff = firstField(A); if (!ff.empty()) JA["field"]=ff; } int e = evOf(A); if (e >= 0) JA["ev"]=e; if (def) JA["default"]=true; }
      args.push_back(std::move(JA));
    }
    return args;
  }
  void calleeInfo(json::Object &E, const FunctionDecl *Callee) {
    E["callee"] = fq(Callee);
    if (Callee) {
      E["callee_inst"] = instName(Callee); if (Callee->isNoReturn()) E["noreturn"] = true;
      auto *P = patternOf(Callee); if (P && P->hasBody() && inRoot(P->getLocation())) E["callee_key"] = loc(P->getLocation());
      E["ret"] = Callee->getReturnType().getAsString();
      if (auto *FPT = Callee->getType()->getAs<FunctionProtoType>()) if (FPT->isNothrow()) E["nothrow"] = true;
    }
  }
  // how the value of a call / construct expression is consumed by its context
  std::string useOf(const Stmt *S, ParentMap &PM) {
    const Stmt *Cur = S; const Stmt *P = PM.getParent(Cur);
    while (P) {
      if (isa<ParenExpr>(P) || isa<ExprWithCleanups>(P) || isa<MaterializeTemporaryExpr>(P) || isa<CXXBindTemporaryExpr>(P) || isa<ConstantExpr>(P)) { Cur = P; P = PM.getParent(P); continue; }
      if (auto *IC = dyn_cast<ImplicitCastExpr>(P)) { if (IC->getCastKind()==CK_ToVoid) return "discard"; Cur = P; P = PM.getParent(P); continue; }
      if (auto *CC = dyn_cast<CXXConstructExpr>(P)) { if (CC->getNumArgs()==1 && CC->getConstructor()->isCopyOrMoveConstructor()) { Cur = P; P = PM.getParent(P); continue; } return "arg:" + fq(CC->getConstructor()); }
      if (auto *EC = dyn_cast<ExplicitCastExpr>(P)) { if (EC->getType()->isVoidType()) return "discard"; Cur = P; P = PM.getParent(P); continue; }
      break;
    }
    if (!P) return "discard";   // a full expression at function-body level
    if (isa<CompoundStmt>(P) || isa<LabelStmt>(P) || isa<AttributedStmt>(P) || isa<CaseStmt>(P) || isa<DefaultStmt>(P)) return "discard";
    if (isa<ReturnStmt>(P) || isa<CoreturnStmt>(P)) return "return";
    if (auto *IS = dyn_cast<IfStmt>(P)) return IS->getCond()==Cur ? "cond" : "discard";
    if (auto *WS = dyn_cast<WhileStmt>(P)) return WS->getCond()==Cur ? "cond" : "discard";
    if (auto *FS = dyn_cast<ForStmt>(P)) return FS->getCond()==Cur ? "cond" : "discard";
    if (auto *DS = dyn_cast<DoStmt>(P)) return DS->getCond()==Cur ? "cond" : "discard";
    if (isa<CXXForRangeStmt>(P)) return "other";
    if (auto *DS = dyn_cast<DeclStmt>(P)) { for (auto *D : DS->decls()) if (auto *VD = dyn_cast<VarDecl>(D)) if (VD->getInit()==Cur) return "init:" + vname(VD); return "init"; }
    if (auto *U = dyn_cast<UnaryOperator>(P)) { if (U->getOpcode()==UO_LNot) { std::string u = useOf(P, PM); return u; } return "operand"; }
    if (auto *BO = dyn_cast<BinaryOperator>(P)) { if (BO->isAssignmentOp() && BO->getRHS()==Cur) return "assign:" + path(BO->getLHS()); if (BO->isLogicalOp()) return useOf(P, PM); if (BO->getOpcode()==BO_Comma) return BO->getRHS()==Cur ? useOf(P, PM) : "discard"; return "operand"; }
    if (auto *CO = dyn_cast<ConditionalOperator>(P)) { if (CO->getCond()==Cur) return "cond"; return useOf(P, PM); }
    if (auto *ME = dyn_cast<MemberExpr>(P)) { (void)ME; return "object"; }
    if (auto *OC = dyn_cast<CXXOperatorCallExpr>(P)) { if (OC->getNumArgs() && OC->getArg(0)==Cur && OC->getDirectCallee() && isa<CXXMethodDecl>(OC->getDirectCallee())) return "object"; if (OC->isAssignmentOp() && OC->getNumArgs()==2 && OC->getArg(1)==Cur) return "assign:" + path(OC->getArg(0)); return "arg:" + fq(OC->getDirectCallee()); }
    if (auto *MC = dyn_cast<CXXMemberCallExpr>(P)) { if (MC->getImplicitObjectArgument()==Cur) return "object"; return "arg:" + fq(MC->getDirectCallee()); }
    if (auto *CE = dyn_cast<CallExpr>(P)) return "arg:" + fq(CE->getDirectCallee());
    if (isa<CoroutineSuspendExpr>(P)) return "co_await";
    if (isa<CXXNewExpr>(P)) return "arg:new";
    if (isa<InitListExpr>(P)) return "arg:init-list";
    if (isa<CXXThrowExpr>(P)) return "throw";
    if (isa<LambdaExpr>(P)) return "capture";
    if (isa<SwitchStmt>(P)) return "cond";
    return std::string("other:") + P->getStmtClassName();
  }
  void function(const FunctionDecl *FD, json::Array &fns, const FunctionDecl *Parent) {
    const Stmt *Body = FD->getBody(); bool coro = false;
    if (auto *CB = dyn_cast<CoroutineBodyStmt>(Body)) { Body = CB->getBody(); coro = true; }
    CFG::BuildOptions BO; BO.setAllAlwaysAdd(); BO.AddImplicitDtors = true; BO.AddInitializers = true; BO.AddTemporaryDtors = false;
    auto cfg = CFG::buildCFG(FD, const_cast<Stmt*>(Body), &C, BO);
    if (!cfg) return;
    struct Restore { const CXXRecordDecl *&R; const CXXRecordDecl *Old; ~Restore() { R = Old; } } restore{CurFunctor, CurFunctor};
    CurFunctor = nullptr;
    if (auto *MD0 = dyn_cast<CXXMethodDecl>(FD)) if (auto *Op0 = functorOp(MD0->getParent())) if (Op0->getCanonicalDecl() == MD0->getCanonicalDecl()) CurFunctor = MD0->getParent();
    PrePass PP; PP.TraverseStmt(const_cast<Stmt*>(Body));
    ParentMap PM(const_cast<Stmt*>(Body));
    ids.clear(); kept.clear();
    json::Object F; F["key"] = fkey(FD); F["name"] = fq(FD); F["coroutine"] = coro;
    // closures inside different instantiations of one enclosing template print the same name: qualify with the parent instantiation
    F["plain_inst"] = instName(FD);
    if (Parent) { F["parent_inst"] = instName(Parent); F["inst"] = instName(Parent) + " :: " + instName(FD); } else F["inst"] = instName(FD);
    F["lines"] = json::Array{(int64_t)line(FD->getBeginLoc()), (int64_t)line(FD->getEndLoc())};
    if (Parent) F["parent_key"] = fkey(Parent);
    if (auto *MDl = dyn_cast<CXXMethodDecl>(FD)) if (MDl->getParent()->isLambda()) {   // the function whose body contains the lambda expression (an enclosing lambda for nested ones)
      const DeclContext *DC = MDl->getParent()->getDeclContext(); while (DC && !isa<FunctionDecl>(DC)) DC = DC->getParent();
      if (auto *EF = dyn_cast_or_null<FunctionDecl>(DC)) { std::string ek = fkey(EF); if (!Parent || ek != fkey(Parent)) F["encl_key"] = ek; }
    }
    if (auto *MD = dyn_cast<CXXMethodDecl>(FD)) { F["class"] = qname(MD->getParent()); if (MD->getParent()->isLambda()) F["lambda"] = true; if (CurFunctor) { F["lambda"] = true; F["functor"] = true; } F["access"] = (int)MD->getAccess(); F["static"] = MD->isStatic(); F["kind"] = isa<CXXConstructorDecl>(MD)?"ctor":isa<CXXDestructorDecl>(MD)?"dtor":isa<CXXConversionDecl>(MD)?"conv":"method"; F["virtual"] = MD->isVirtual();
      std::string s; llvm::raw_string_ostream os(s); MD->getParent()->getNameForDiagnostic(os, PrintingPolicy(LangOptions()), true); F["class_inst"] = os.str(); }
    if (auto *FPT = FD->getType()->getAs<FunctionProtoType>()) F["noexcept"] = FPT->isNothrow();
    F["ret"] = FD->getReturnType().getAsString();
    json::Array params; for (auto *P : FD->parameters()) params.push_back(json::Object{{"name",P->getNameAsString()},{"type",P->getType().getAsString()},{"ctype",P->getType().getCanonicalType().getAsString()},{"pack",P->isParameterPack()}}); F["params"] = std::move(params);
    if (auto *Pat = patternOf(FD)) { json::Array pp; for (auto *P : Pat->parameters()) pp.push_back(json::Object{{"name",P->getNameAsString()},{"type",P->getType().getAsString()},{"pack",P->isParameterPack()}}); F["pattern_params"] = std::move(pp); }
    F["entry"] = cfg->getEntry().getBlockID(); F["exit"] = cfg->getExit().getBlockID();
    int next = 0;
    // try dispatch blocks
    llvm::DenseMap<const CXXTryStmt *, int> tryBlock;
    for (const CFGBlock *B : *cfg) if (auto *T = dyn_cast_or_null<CXXTryStmt>(B->getTerminatorStmt())) tryBlock[T] = B->getBlockID();
    json::Array blocks;
    for (const CFGBlock *B : *cfg) {
      json::Object JB; JB["id"] = B->getBlockID(); json::Array evs;
      if (const Stmt *L = B->getLabel()) {
        if (auto *CS = dyn_cast<CaseStmt>(L)) { json::Object JL; JL["kind"]="case"; if (auto v = constVal(CS->getLHS()); v.kind()!=json::Value::Null) JL["const"]=v; JL["text"]=path(CS->getLHS()); JB["label"]=std::move(JL); }
        else if (isa<DefaultStmt>(L)) JB["label"]=json::Object{{"kind","default"}};
        else if (auto *CT = dyn_cast<CXXCatchStmt>(L)) JB["label"]=json::Object{{"kind","catch"},{"type", CT->getExceptionDecl() ? CT->getCaughtType().getAsString() : std::string("...")}};
      }
      for (const CFGElement &El : *B) {
        if (auto IE = El.getAs<CFGInitializer>()) {
          auto *I = IE->getInitializer(); json::Object E; E["id"]=next++; E["k"]="write"; E["init"]=true; E["loc"]=loc(I->getSourceLocation());
          if (I->isAnyMemberInitializer()) { E["path"] = std::string("this->") + I->getAnyMember()->getNameAsString(); if (auto *FDm = I->getAnyMember()) { E["field"] = qname(cast<RecordDecl>(FDm->getDeclContext())) + "::" + FDm->getNameAsString(); E["lfield"] = E["field"]; } } else E["path"]="this.<base>";
          E["rhs"]=path(I->getInit()); if (auto v = constVal(I->getInit()); v.kind()!=json::Value::Null) E["const"]=v; int re = evOf(I->getInit()); if (re>=0) E["rhs_ev"]=re;
          evs.push_back(std::move(E)); continue;
        }
        if (auto AD = El.getAs<CFGAutomaticObjDtor>()) { json::Object E; E["k"]="dtor"; E["var"]=AD->getVarDecl()->getNameAsString(); E["type"]=AD->getVarDecl()->getType().getAsString(); E["id"]=next++; E["loc"]=loc(AD->getTriggerStmt()?AD->getTriggerStmt()->getEndLoc():AD->getVarDecl()->getLocation());
          // a scope guard written in the library (its destructor has a body there): the destructor can be expanded like a call on the variable
          { QualType VT = AD->getVarDecl()->getType().getNonReferenceType(); if (!AD->getVarDecl()->getType()->isReferenceType()) if (auto *VRD = VT->getAsCXXRecordDecl()) if (auto *DD = VRD->getDestructor()) if (DD->isUserProvided()) { auto *P = patternOf(DD); if (P && P->hasBody() && inRoot(P->getLocation())) { calleeInfo(E, DD); E["recv"] = "local:" + AD->getVarDecl()->getNameAsString(); } } }
          evs.push_back(std::move(E)); continue; }
        auto SE = El.getAs<CFGStmt>(); if (!SE) continue;
        const Stmt *S = SE->getStmt(); int id = next++; ids[S] = id;
        json::Object E; E["id"] = id; E["loc"] = loc(S->getBeginLoc()); bool keep = false;
        if (auto it = PP.tryOf.find(S); it != PP.tryOf.end()) { auto tb = tryBlock.find(it->second); if (tb != tryBlock.end()) E["try"] = tb->second; }
        if (PP.inHandler.count(S)) E["in_catch"] = true;
        if (auto *ICE = dyn_cast<ImplicitCastExpr>(S)) {
          if (ICE->getCastKind()==CK_LValueToRValue) { auto *Sub = ICE->getSubExpr()->IgnoreParens(); if (isa<MemberExpr>(Sub) || isa<UnaryOperator>(Sub) || isa<ArraySubscriptExpr>(Sub) || isa<DeclRefExpr>(Sub)) { E["k"]="read"; E["path"]=path(Sub); E["field"]=firstField(Sub); E["lfield"]=lastField(Sub); keep = true; if (isa<DeclRefExpr>(Sub)) { E["k"]="use"; auto *VD = dyn_cast<VarDecl>(cast<DeclRefExpr>(Sub)->getDecl()); if (VD && !VD->hasLocalStorage()) E["k"]="read"; } } }
        } else if (auto *BOp = dyn_cast<BinaryOperator>(S)) {
          if (BOp->isAssignmentOp()) { E["k"]="write"; E["path"]=path(BOp->getLHS()); E["field"]=firstField(BOp->getLHS()); E["lfield"]=lastField(BOp->getLHS()); E["rhs"]=path(BOp->getRHS()); E["op"]=BOp->getOpcodeStr().str(); if (auto v = constVal(BOp->getRHS()); v.kind()!=json::Value::Null) E["const"]=v; int re = evOf(BOp->getRHS()); if (re>=0) E["rhs_ev"]=re; keep = true; }
          else if (BOp->isComparisonOp() || BOp->getOpcode()==BO_And) { E["k"]="cmp"; E["op"]=BOp->getOpcodeStr().str(); E["lhs"]=path(BOp->getLHS()); E["rhs"]=path(BOp->getRHS()); if (auto v = constVal(BOp->getRHS()); v.kind()!=json::Value::Null) E["rconst"]=v; if (auto v = constVal(BOp->getLHS()); v.kind()!=json::Value::Null) E["lconst"]=v; int le = evOf(BOp->getLHS()); if (le>=0) E["lhs_ev"]=le; int re = evOf(BOp->getRHS()); if (re>=0) E["rhs_ev"]=re; keep = true; }
        } else if (auto *RB = dyn_cast<CXXRewrittenBinaryOperator>(S)) {
          auto D = RB->getDecomposedForm(); E["k"]="cmp"; E["rewritten"]=true; E["op"]=BinaryOperator::getOpcodeStr(D.Opcode).str(); E["lhs"]=path(D.LHS); E["rhs"]=path(D.RHS); keep = true;
        } else if (auto *UO = dyn_cast<UnaryOperator>(S)) {
          if (UO->isIncrementDecrementOp()) { E["k"]="write"; E["path"]=path(UO->getSubExpr()); E["field"]=firstField(UO->getSubExpr()); E["lfield"]=lastField(UO->getSubExpr()); E["op"]=UnaryOperator::getOpcodeStr(UO->getOpcode()).str(); keep = true; }
        } else if (auto *CE = dyn_cast<CallExpr>(S)) {
          const FunctionDecl *Callee = CE->getDirectCallee();
          E["k"]="call"; calleeInfo(E, Callee); keep = true;
          if (PP.implicitAwait.count(S)) E["implicit"] = true;
          E["use"] = useOf(S, PM);
          std::vector<const Expr*> A; unsigned a0 = 0;
          if (auto *MC = dyn_cast<CXXMemberCallExpr>(CE)) { const Expr *O = MC->getImplicitObjectArgument(); E["recv"]=path(O); E["field"]=firstField(O); E["lfield"]=lastField(O); E["recv_type"]=O->getType().getAsString(); int re = evOf(O); if (re>=0) E["recv_ev"]=re; }
          else if (auto *OC = dyn_cast<CXXOperatorCallExpr>(CE)) { if (Callee && isa<CXXMethodDecl>(Callee) && OC->getNumArgs()) { E["recv"]=path(OC->getArg(0)); E["field"]=firstField(OC->getArg(0)); E["lfield"]=lastField(OC->getArg(0)); E["recv_type"]=OC->getArg(0)->getType().getAsString(); int re = evOf(OC->getArg(0)); if (re>=0) E["recv_ev"]=re; a0 = 1; } }
          if (!Callee) { E["callee_expr"]=path(CE->getCallee()); E["callee_type"]=CE->getCallee()->getType().getAsString(); }
          // std::invoke(f, args...) with f a closure / functor object is f(args...): report it as the call of f's call operator
          if (Callee && !isa<CXXMemberCallExpr>(CE) && !isa<CXXOperatorCallExpr>(CE) && CE->getNumArgs() >= 1 && fq(Callee) == "std::invoke") {
            const Expr *F0 = CE->getArg(0); QualType FT = F0->getType().getNonReferenceType();
            // std::invoke(&C::member, obj, args...) is obj->member(args...)
            const CXXMethodDecl *PM0 = nullptr;
            if (auto *U0 = dyn_cast<UnaryOperator>(F0->IgnoreParenImpCasts())) if (U0->getOpcode()==UO_AddrOf) if (auto *DR0 = dyn_cast<DeclRefExpr>(U0->getSubExpr()->IgnoreParenImpCasts())) PM0 = dyn_cast<CXXMethodDecl>(DR0->getDecl());
            if (PM0 && CE->getNumArgs() >= 2 && !PM0->isStatic()) {
              const Expr *O = CE->getArg(1); calleeInfo(E, PM0);
              std::string rp = path(O); if (O->getType()->isPointerType()) { E["recv"]=rp; } else { E["recv"]=rp; }
              E["field"]=firstField(O); E["lfield"]=lastField(O); E["recv_type"]=O->getType().getAsString(); E["via_invoke"]=true; a0 = 2;
            } else
            if (auto *RD = FT->getAsCXXRecordDecl()) {
              const CXXMethodDecl *Op = nullptr;
              if (RD->isLambda()) { Op = RD->getLambdaCallOperator(); if (Op && Op->isTemplated() && !Op->isTemplateInstantiation()) Op = nullptr; }
              else { for (auto *M : RD->methods()) if (M->getOverloadedOperator() == OO_Call && !M->isTemplated()) { if (Op) { Op = nullptr; break; } Op = M; } }
              E["recv"]=path(F0); E["field"]=firstField(F0); E["lfield"]=lastField(F0); E["recv_type"]=F0->getType().getAsString(); E["via_invoke"]=true; a0 = 1;
              if (Op) { calleeInfo(E, Op); }
            }
          }
          for (unsigned i=a0;i<CE->getNumArgs();++i) A.push_back(CE->getArg(i));
          E["args"]=argsOf(A);
        } else if (const CXXMethodDecl *FOp = functorCreated(S)) {
          // a hand-written closure object is created: reported as a lambda expression whose captures are the data members
          E["k"]="lambda"; E["fn_key"]=loc(FOp->getLocation()); E["use"]=useOf(S, PM); E["functor"]=true; keep = true; json::Array caps;
          const CXXRecordDecl *RD = FOp->getParent(); auto *IL = dyn_cast<InitListExpr>(S); unsigned i = 0;
          for (auto *Fd : RD->fields()) { json::Object JC; JC["name"]=Fd->getNameAsString(); JC["init_capture"]=true;
            if (IL && i < IL->getNumInits() && !isa<ImplicitValueInitExpr>(IL->getInit(i))) JC["init"]=path(IL->getInit(i)); else if (Fd->getInClassInitializer()) JC["init"]=path(Fd->getInClassInitializer());
            QualType T = Fd->getType(); JC["byref"]=T->isReferenceType(); JC["type"]=T.getAsString(); JC["canon_type"]=T.getCanonicalType().getAsString(); JC["trivial_dtor"]= T->isReferenceType() || T.isDestructedType()==QualType::DK_none; ++i; caps.push_back(std::move(JC)); }
          E["captures"]=std::move(caps);
        } else if (auto *CC = dyn_cast<CXXConstructExpr>(S)) {
          E["k"]="construct"; calleeInfo(E, CC->getConstructor()); E["type"]=CC->getType().getAsString(); keep = true; E["use"] = useOf(S, PM);
          if (CC->getConstructor()->isCopyOrMoveConstructor()) E["copy_or_move"]=true;
          std::vector<const Expr*> A; for (unsigned i=0;i<CC->getNumArgs();++i) A.push_back(CC->getArg(i)); E["args"]=argsOf(A);
        } else if (auto *NE = dyn_cast<CXXNewExpr>(S)) { E["k"]="new"; E["type"]=NE->getAllocatedType().getAsString(); E["array"]=NE->isArray(); std::vector<const Expr*> A; for (unsigned i=0;i<NE->getNumPlacementArgs();++i) A.push_back(NE->getPlacementArg(i)); E["placement"]=argsOf(A); if (NE->getOperatorNew()) E["opnew"]=qname(NE->getOperatorNew()); if (NE->isArray() && NE->getArraySize()) E["size"]=path(*NE->getArraySize()); E["use"]=useOf(S, PM); keep = true;
        } else if (auto *DE = dyn_cast<CXXDeleteExpr>(S)) { E["k"]="delete"; E["path"]=path(DE->getArgument()); E["field"]=firstField(DE->getArgument()); E["array"]=DE->isArrayForm(); E["static_type"]=DE->getDestroyedType().getAsString(); if (DE->getOperatorDelete()) E["opdelete"]=qname(DE->getOperatorDelete()); keep = true;
        } else if (auto *RS = dyn_cast<ReturnStmt>(S)) { E["k"]="return"; if (RS->getRetValue()) { E["path"]=path(RS->getRetValue()); if (auto v = constVal(RS->getRetValue()); v.kind()!=json::Value::Null) E["const"]=v; int re = evOf(RS->getRetValue()); if (re>=0) E["ret_ev"]=re; } keep = true;
        } else if (auto *CR = dyn_cast<CoreturnStmt>(S)) { E["k"]="return"; E["co"]=true; if (CR->getOperand()) E["path"]=path(CR->getOperand()); keep = true;
        } else if (auto *TE = dyn_cast<CXXThrowExpr>(S)) { E["k"]="throw"; if (TE->getSubExpr()) E["type"]=TE->getSubExpr()->getType().getAsString(); else E["rethrow"]=true; keep = true;
        } else if (auto *DS = dyn_cast<DeclStmt>(S)) { for (auto *D : DS->decls()) if (auto *VD = dyn_cast<VarDecl>(D)) { E["k"]="decl"; E["var"]=vname(VD); E["type"]=VD->getType().getAsString(); E["ref"]=VD->getType()->isReferenceType(); E["ptr"]=VD->getType()->isPointerType(); if (VD->getInit()) { E["init"]=path(VD->getInit()); { std::string ff = firstField(VD->getInit()); if (!ff.empty()) E["init_field"]=ff; } int ie = evOf(VD->getInit()); if (ie>=0) E["init_ev"]=ie; else if (auto *CC2 = dyn_cast<CXXConstructExpr>(peelVal(VD->getInit()))) { auto it2 = ids.find(CC2); if (it2!=ids.end()) E["init_ev"]=it2->second; } if (auto v = constVal(VD->getInit()); v.kind()!=json::Value::Null) E["const"]=v; } keep = true; } }
        else if (auto *LE = dyn_cast<LambdaExpr>(S)) {
          E["k"]="lambda"; E["fn_key"]=loc(LE->getCallOperator()->getLocation()); E["use"]=useOf(S, PM); keep = true; json::Array caps;
          auto *RD = LE->getLambdaClass(); auto FI = RD->field_begin(); auto CI = LE->capture_init_begin();
          for (auto &Cap : LE->captures()) { json::Object JC; if (Cap.capturesThis()) JC["name"]="this"; else if (Cap.capturesVariable()) { JC["name"]=Cap.getCapturedVar()->getNameAsString(); if (Cap.getCapturedVar()->isInitCapture()) { JC["init_capture"]=true; if (Cap.getCapturedVar()->getInit()) JC["init"]=path(Cap.getCapturedVar()->getInit()); } } JC["byref"]=Cap.getCaptureKind()==LCK_ByRef; if (FI != RD->field_end()) { QualType T = FI->getType(); JC["type"]=T.getAsString(); JC["canon_type"]=T.getCanonicalType().getAsString(); JC["trivial_dtor"]= T->isReferenceType() || T.isDestructedType()==QualType::DK_none; ++FI; } if (CI != LE->capture_init_end()) ++CI; caps.push_back(std::move(JC)); }
          E["captures"]=std::move(caps);
        } else if (auto *CA = dyn_cast<CoawaitExpr>(S)) { E["k"]="co_await"; E["operand"]=path(CA->getOperand()); E["implicit_await"]=CA->isImplicit(); int oe = evOf(CA->getOperand()); if (oe>=0) E["operand_ev"]=oe; E["use"]=useOf(S, PM); keep = true;
        } else if (auto *CY = dyn_cast<CoyieldExpr>(S)) { E["k"]="co_yield"; E["operand"]=path(CY->getOperand()); E["use"]=useOf(S, PM); keep = true;
        } else if (auto *CO = dyn_cast<ConditionalOperator>(S)) { E["k"]="select"; E["cond"]=path(CO->getCond()); int t = evOf(CO->getTrueExpr()), f = evOf(CO->getFalseExpr()); if (t>=0) E["true_ev"]=t; if (f>=0) E["false_ev"]=f; E["use"]=useOf(S, PM); keep = true; }
        if (keep) { kept[S] = id; evs.push_back(std::move(E)); }
      }
      JB["ev"] = std::move(evs);
      json::Array succ; for (auto S : B->succs()) succ.push_back(S.getReachableBlock() ? (int64_t)S.getReachableBlock()->getBlockID() : (int64_t)-1); JB["succ"] = std::move(succ);
      if (const Stmt *T = B->getTerminatorCondition()) { bool neg; const Stmt *P = peelCond(T, neg); json::Object Cn; Cn["neg"]=neg; auto it = ids.find(P); if (it!=ids.end()) Cn["ev"]=it->second; if (auto *E = dyn_cast<Expr>(P)) { Cn["path"]=path(E); Cn["type"]=E->getType().getAsString(); } Cn["term"]=B->getTerminatorStmt()?B->getTerminatorStmt()->getStmtClassName():""; if (B->getTerminatorStmt()) Cn["loc"]=loc(B->getTerminatorStmt()->getBeginLoc()); JB["cond"]=std::move(Cn); }
      else if (B->getTerminatorStmt()) JB["term"]=B->getTerminatorStmt()->getStmtClassName();
      blocks.push_back(std::move(JB));
    }
    F["blocks"] = std::move(blocks);
    fns.push_back(std::move(F));
  }
  void record(const CXXRecordDecl *RD, json::Array &cls) {
    json::Object R; R["name"]=qname(RD); R["loc"]=loc(RD->getLocation());
    // printQualifiedName drops the enclosing function of a local class; its methods carry it: take the class name from one of them
    if (RD->isLocalClass()) { for (auto *M : RD->methods()) { std::string n = qname(M); auto p = n.rfind("::"); if (p != std::string::npos) { R["name"] = n.substr(0, p); break; } } }
    std::string s; llvm::raw_string_ostream os(s); RD->getNameForDiagnostic(os, PrintingPolicy(LangOptions()), true); R["inst"]=os.str();
    json::Array fields; for (auto *F : RD->fields()) fields.push_back(json::Object{{"name",F->getNameAsString()},{"type",F->getType().getAsString()},{"canon_type",F->getType().getCanonicalType().getAsString()}}); R["fields"]=std::move(fields);
    json::Array bases; for (auto &B : RD->bases()) bases.push_back(B.getType().getAsString()); R["bases"]=std::move(bases);
    if (auto *D = RD->getDestructor()) R["virtual_dtor"]=D->isVirtual();
    bool opdel=false, opnew=false; for (auto *M : RD->methods()) { auto N = M->getDeclName(); if (N.getNameKind()==DeclarationName::CXXOperatorName) { if (N.getCXXOverloadedOperator()==OO_Delete) opdel=true; if (N.getCXXOverloadedOperator()==OO_New) opnew=true; } }
    R["op_delete"]=opdel; R["op_new"]=opnew;
    cls.push_back(std::move(R));
  }
};
class V : public RecursiveASTVisitor<V> {
public:
  Ex &X; json::Array &Fns; json::Array &Cls; std::set<std::string> seen, seenc; std::vector<const FunctionDecl*> stack;
  V(Ex &X, json::Array &F, json::Array &Cl):X(X),Fns(F),Cls(Cl){}
  bool shouldVisitTemplateInstantiations() const { return true; }
  bool shouldVisitImplicitCode() const { return false; }
  void one(FunctionDecl *FD, const FunctionDecl *Parent) {
    if (!FD || !FD->doesThisDeclarationHaveABody() || FD->isDependentContext() || !X.inRoot(FD->getLocation())) return;
    // the call operator of a hand-written closure class belongs to the function the class is local to, like a lambda body
    if (!Parent) if (auto *MD = dyn_cast<CXXMethodDecl>(FD)) if (auto *Op = X.functorOp(MD->getParent())) if (Op->getCanonicalDecl() == MD->getCanonicalDecl()) Parent = MD->getParent()->isLocalClass();
    std::string key = X.loc(FD->getLocation()) + "|" + (Parent ? instName(Parent) + " :: " : std::string()) + instName(FD);
    if (seen.insert(key).second) X.function(FD, Fns, Parent);
  }
  bool TraverseFunctionDecl(FunctionDecl *FD) { stack.push_back(FD); bool r = RecursiveASTVisitor::TraverseFunctionDecl(FD); stack.pop_back(); return r; }
  bool TraverseCXXMethodDecl(CXXMethodDecl *FD) { stack.push_back(FD); bool r = RecursiveASTVisitor::TraverseCXXMethodDecl(FD); stack.pop_back(); return r; }
  bool TraverseCXXConstructorDecl(CXXConstructorDecl *FD) { stack.push_back(FD); bool r = RecursiveASTVisitor::TraverseCXXConstructorDecl(FD); stack.pop_back(); return r; }
  bool TraverseCXXDestructorDecl(CXXDestructorDecl *FD) { stack.push_back(FD); bool r = RecursiveASTVisitor::TraverseCXXDestructorDecl(FD); stack.pop_back(); return r; }
  bool TraverseCXXConversionDecl(CXXConversionDecl *FD) { stack.push_back(FD); bool r = RecursiveASTVisitor::TraverseCXXConversionDecl(FD); stack.pop_back(); return r; }
  std::set<std::string> allk; json::Array All; std::set<const FunctionDecl*> visitedSpecs;
  bool VisitFunctionDecl(FunctionDecl *FD) { if (FD->doesThisDeclarationHaveABody() && X.inRoot(FD->getLocation())) { auto k = X.fkey(FD); if (allk.insert(k).second) All.push_back(json::Object{{"key",k},{"name",X.fq(FD)}}); } one(FD, nullptr); return true; }
  bool VisitLambdaExpr(LambdaExpr *LE) {
    const FunctionDecl *Parent = stack.empty()?nullptr:stack.back();
    if (auto *CO = LE->getCallOperator()) { if (auto *FTD = CO->getDescribedFunctionTemplate()) { for (auto *Spec : FTD->specializations()) { one(Spec, Parent); if (Spec->doesThisDeclarationHaveABody() && !Spec->isDependentContext() && visitedSpecs.insert(Spec).second) TraverseStmt(Spec->getBody()); } } else one(CO, Parent); }
    return true;
  }
  bool VisitCXXRecordDecl(CXXRecordDecl *RD) {
    if (!RD->isThisDeclarationADefinition() || RD->isDependentContext() || RD->isLambda() || !X.inRoot(RD->getLocation())) return true;
    std::string s; llvm::raw_string_ostream os(s); RD->getNameForDiagnostic(os, PrintingPolicy(LangOptions()), true);
    // local classes of different functions may share their printed name ("Awt"): key them by location and enclosing function instance
    os << "@" << X.loc(RD->getLocation());
    if (const FunctionDecl *LF = RD->isLocalClass()) LF->getNameForDiagnostic(os, PrintingPolicy(LangOptions()), true);
    if (seenc.insert(os.str()).second) X.record(RD, Cls);
    return true;
  }
};
class Cons : public ASTConsumer { public: void HandleTranslationUnit(ASTContext &C) override { if (C.getDiagnostics().hasErrorOccurred()) { llvm::errs() << "extract: translation unit has errors, no facts written\n"; return; } Ex X(C); json::Array Fns, Cls; V v(X,Fns,Cls); v.TraverseDecl(C.getTranslationUnitDecl()); std::error_code EC; llvm::raw_fd_ostream OS(Out, EC); json::Object Cs; for (auto &kv : X.Consts) Cs[kv.first] = kv.second; OS << json::Value(json::Object{{"functions",std::move(Fns)},{"classes",std::move(Cls)},{"all",std::move(v.All)},{"consts",std::move(Cs)}}) << "\n"; } };
class Act : public ASTFrontendAction { public: std::unique_ptr<ASTConsumer> CreateASTConsumer(CompilerInstance&, StringRef) override { return std::make_unique<Cons>(); } };
int main(int argc, const char **argv){ auto P = CommonOptionsParser::create(argc, argv, Cat); if(!P){llvm::errs()<<P.takeError();return 1;} ClangTool T(P->getCompilations(), P->getSourcePathList()); return T.run(newFrontendActionFactory<Act>().get()); }
