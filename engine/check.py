#!/usr/bin/env python3
# coclint check driver:  python3 engine/check.py Cxx [--tier quick|thorough]
#                        python3 engine/check.py --explain evidence/replay/Cxx-n.json
# exit 0 = property's rules hold on everything analysed; 1 = violation (VIOLATION line);
# 2 = analysis broken (anchor vanished / facts missing) - never a pass, never a violation.
import sys, os, json, importlib, time, traceback
HERE = os.path.dirname(os.path.abspath(__file__))
sys.path.insert(0, HERE)
from coclint.core import Broken
from coclint import facts
from coclint.report import Ctx


def coverage_info(dbs, info):
    out = {'tus_parsed': info.get('tus_parsed'), 'tu_sets': {k: {'tus': v['tus'], 'failed': v['failed']} for k, v in info['sets'].items()},
           'tree_hash': info.get('hash'), 'facts_from_cache': info.get('cached')}
    db = next(iter(dbs.values()))
    inst = set(db.inst.keys())
    allk = set(db.allfns.keys())
    out['function_definitions_in_library'] = len(allk)
    out['function_definitions_instantiated'] = len(allk & inst)
    out['function_bodies_analysed'] = sum(len(m) for m in db.inst.values())
    out['uninstantiated'] = sorted({db.allfns[k] for k in allk - inst})[:80]
    return out


def run(pid, tier):
    seed = int(os.environ.get('VERIF_SEED', '0') or 0)
    ctx = Ctx(pid, tier, seed)
    try:
        mod = importlib.import_module('coclint.props.' + pid)
    except ImportError as ex:
        sys.stderr.write('no check for %s: %s\n' % (pid, ex)); return 2
    ctx.explanation = getattr(mod, 'EXPLANATION', '')
    try:
        from coclint.props import shared as _sh
        if _sh.BUILT_ON.get(pid):
            ctx.explanation += (' In addition the invariants of the generic machinery this feature is built on (%s) are evaluated and claimed under ids '
                                '%s.built-on-<component>.<rule> (a necessary condition: the feature cannot hold on a tree where the machinery under it is broken; DESIGN 3.4).'
                                % (', '.join(_sh.BUILT_ON[pid]), pid))
    except Exception:
        pass
    ctx.assumptions = list(getattr(mod, 'ASSUMPTIONS', []))
    broken = None
    try:
        from coclint import rules as _rules
        _rules.THOROUGH[0] = (tier == 'thorough')
        dbs, info = facts.build(tier)
        ctx.cover.update(coverage_info(dbs, info))
        failed = [t for s in info['sets'].values() for t in s['failed']]
        if failed:
            ctx.notes.append('translation units that did not parse (coverage degraded): ' + ', '.join(os.path.basename(f) for f in failed))
            drv_failed = [f for f in failed if '/drivers/' in f]
            if drv_failed:
                ctx.notes.append('driver TU(s) failed to compile against this tree: ' + '; '.join(info['sets'].get('drivers', {}).get('errors', []))[:600])
        for cfg, db in dbs.items():
            ctx.cfg = cfg
            mod.run(ctx, db, tier)
            from coclint.props import shared as _shared
            _shared.built_on(ctx, db, pid)       # invariants of the generic machinery the feature is built on (skips what the property already claims)
        if not ctx.violations:
            ctx.check_floors()      # a concrete violation takes precedence over a missed instance-count floor
    except Broken as ex:
        broken = str(ex)
    except Exception as ex:
        broken = 'internal error: %s\n%s' % (ex, traceback.format_exc()[-1500:])
    if tier == 'thorough' and not broken and not os.environ.get('COCLS_NO_SELFTEST') and facts.REPO == '/repo':
        # checker self-test, reported in the evidence and never part of the verdict: the property's hand-written mutants
        # (scratch worktrees of /repo HEAD) must each make this check fire
        try:
            from coclint import mutate
            t0 = time.time()
            res = mutate.run([pid], limit=6, workers=6)
            ctx.cover['checker_selftest'] = {'what': 'hand-written one-line mutants of this property applied to scratch worktrees of /repo HEAD; each must make this check exit 1 naming the expected rule (not part of the verdict)',
                                             'mutants': len(res), 'caught': sum(1 for r in res if r[2].startswith('caught')),
                                             'not_caught': [{'mutant': r[0], 'what': r[3], 'result': r[2][:200]} for r in res if not r[2].startswith('caught')],
                                             'samples': [{'mutant': r[0], 'what': r[3]} for r in res[:6]], 'wall_s': round(time.time() - t0, 1)}
        except Exception as ex:
            ctx.cover['checker_selftest'] = {'error': str(ex)[:300]}
    return ctx.finish(broken)


def main():
    a = sys.argv[1:]
    if not a:
        print(__doc__); return 2
    if a[0] == '--explain':
        v = json.load(open(a[1]))
        print(json.dumps(v, indent=1))
        print('--- re-evaluating %s on the current tree' % v['property'])
        return run(v['property'], 'quick')
    tier = os.environ.get('VERIF_TIER') or 'quick'
    if '--tier' in a:
        tier = a[a.index('--tier') + 1]
    if a[0] == '--all':
        # every registered check in one process, sharing the fact base (used by tools/matrix.py; evidence is written unless COCLS_NO_EVIDENCE)
        ids = [c['property_id'] for c in json.load(open(os.path.join(os.path.dirname(HERE), 'MANIFEST.json')))['checks']]
        worst = 0
        for pid in ids:
            print('=== %s begin' % pid); sys.stdout.flush()
            rc = run(pid, tier)
            print('=== %s rc=%d' % (pid, rc)); sys.stdout.flush()
            worst = max(worst, 1 if rc == 1 else 0)
        return worst
    return run(a[0], tier)


if __name__ == '__main__':
    sys.exit(main())
