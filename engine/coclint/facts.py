# builds (and caches by content hash) the fact base for the current /repo working tree
import os, sys, glob, hashlib, subprocess, json, shutil, time, fcntl
from concurrent.futures import ThreadPoolExecutor
from .core import DB, Broken

VERIF = os.path.dirname(os.path.dirname(os.path.dirname(os.path.abspath(__file__))))
REPO = os.environ.get('COCLS_REPO', '/repo')
EXTRACT = os.path.join(VERIF, 'build', 'extract')
CACHE = os.path.join(VERIF, '.cache')
DRIVERS = sorted(glob.glob(os.path.join(VERIF, 'drivers', 'inst_*.cpp')))


def tu_sets(tier):
    tests = sorted(glob.glob(os.path.join(REPO, 'src', 'tests', '*.cpp')))
    examples = sorted(glob.glob(os.path.join(REPO, 'src', 'examples', '*.cpp')))
    """(config, set name, sources, flags); one fact database per config"""
    if tier == 'quick':
        return [('assert', 'drivers', DRIVERS, ['-UNDEBUG']), ('assert', 'tests', tests, ['-UNDEBUG'])]
    return [('assert', 'drivers', DRIVERS, ['-UNDEBUG']), ('assert', 'tests', tests, ['-UNDEBUG']), ('assert', 'examples', examples, ['-UNDEBUG']),
            ('ndebug', 'drivers-ndebug', DRIVERS, ['-DNDEBUG']), ('ndebug', 'tests-ndebug', tests, ['-DNDEBUG']), ('ndebug', 'examples-ndebug', examples, ['-DNDEBUG'])]


def base_flags():
    return ['-std=gnu++20', '-I' + os.path.join(REPO, 'src'), '-I' + os.path.join(VERIF, 'drivers'), '-Wno-everything']


def tree_hash(extra=()):
    h = hashlib.sha256()
    files = sorted(glob.glob(os.path.join(REPO, 'src', '**', '*'), recursive=True)) + sorted(glob.glob(os.path.join(VERIF, 'drivers', '*')))
    for p in files:
        if os.path.isfile(p):
            h.update(p.encode()); h.update(b'\0')
            with open(p, 'rb') as fh:
                h.update(fh.read())
            h.update(b'\0')
    try:
        st = os.stat(EXTRACT); h.update(('%d:%d' % (st.st_size, int(st.st_mtime))).encode())
        with open(os.path.join(VERIF, 'engine', 'extract.cc'), 'rb') as fh:
            h.update(fh.read())
    except OSError:
        pass
    for e in extra:
        h.update(str(e).encode())
    return h.hexdigest()[:20]


def _extract_one(args):
    src, out, flags = args
    cmd = [EXTRACT, '-o', out + '.tmp', src, '--'] + base_flags() + flags
    r = subprocess.run(cmd, capture_output=True, text=True)
    ok = r.returncode == 0 and os.path.exists(out + '.tmp') and os.path.getsize(out + '.tmp') > 0
    if ok:
        os.replace(out + '.tmp', out)
    else:
        try:
            os.unlink(out + '.tmp')
        except OSError:
            pass
    return (src, ok, (r.stderr or '')[-2000:])


def ensure_extractor():
    if not os.path.exists(EXTRACT):
        r = subprocess.run([os.path.join(VERIF, 'setup.sh')], capture_output=True, text=True)
        if r.returncode != 0 or not os.path.exists(EXTRACT):
            raise Broken('extractor is not built and setup.sh failed: ' + (r.stderr or '')[-500:])


_DBS = {}


def build(tier):
    """returns (db, info) ; info = {'sets': {name: {'tus': n, 'failed': [...]}}, 'hash':...}"""
    ensure_extractor()
    os.makedirs(CACHE, exist_ok=True)
    key = tree_hash()
    info = {'hash': key, 'sets': {}, 'cached': True}
    if (key, tier) in _DBS:
        dbs, files_n, sets = _DBS[(key, tier)]
        info['sets'] = sets; info['tus_parsed'] = files_n
        return dbs, info
    # one lock per tree: concurrent checks of the same tree wait for one extraction, checks of different trees do not wait for each other
    lock = open(os.path.join(CACHE, '.lock.' + key), 'w')
    fcntl.flock(lock, fcntl.LOCK_EX)
    try:
        files = {}
        for cfg, name, srcs, flags in tu_sets(tier):
            d = os.path.join(CACHE, key, name)
            done = os.path.join(d, '.done')
            if not os.path.exists(done):
                info['cached'] = False
                shutil.rmtree(d, ignore_errors=True)
                os.makedirs(d, exist_ok=True)
                jobs = [(s, os.path.join(d, os.path.basename(s)[:-4] + '.json'), flags) for s in srcs]
                with ThreadPoolExecutor(max_workers=min(16, os.cpu_count() or 4)) as ex:
                    res = list(ex.map(_extract_one, jobs))
                failed = [{'tu': s, 'err': err} for (s, ok, err) in res if not ok]
                json.dump({'failed': failed, 'tus': len(srcs)}, open(done, 'w'))
            meta = json.load(open(done))
            info['sets'][name] = {'tus': meta['tus'], 'failed': [x['tu'] for x in meta['failed']], 'errors': [x['err'][-300:] for x in meta['failed']][:3]}
            files.setdefault(cfg, []).extend(sorted(glob.glob(os.path.join(d, '*.json'))))
        # keep the cache small: drop all but the 3 most recent trees (under the cache-wide lock; a tree whose own lock is held is in use)
        glock = open(os.path.join(CACHE, '.lock'), 'w')
        fcntl.flock(glock, fcntl.LOCK_EX)
        try:
            trees = sorted((p for p in glob.glob(os.path.join(CACHE, '*')) if os.path.isdir(p)), key=os.path.getmtime)
            os.utime(os.path.join(CACHE, key))
            for old in trees[:-int(os.environ.get('COCLS_CACHE_KEEP', '3'))]:
                if os.path.basename(old) == key:
                    continue
                try:
                    ol = open(os.path.join(CACHE, '.lock.' + os.path.basename(old)), 'w')
                    fcntl.flock(ol, fcntl.LOCK_EX | fcntl.LOCK_NB)
                except OSError:
                    continue          # being extracted / read by another check right now
                try:
                    shutil.rmtree(old, ignore_errors=True)
                    try:
                        os.unlink(os.path.join(CACHE, '.lock.' + os.path.basename(old)))
                    except OSError:
                        pass
                finally:
                    fcntl.flock(ol, fcntl.LOCK_UN); ol.close()
        finally:
            fcntl.flock(glock, fcntl.LOCK_UN); glock.close()
        if not files or not all(files.values()):
            raise Broken('no translation unit could be analysed: ' + json.dumps(info['sets'])[:600])
        dbs = {cfg: DB(fl) for cfg, fl in files.items()}         # read while the tree's lock is held (it cannot be evicted under us)
    finally:
        fcntl.flock(lock, fcntl.LOCK_UN); lock.close()
    info['tus_parsed'] = sum(len(fl) for fl in files.values())
    _DBS[(key, tier)] = (dbs, info['tus_parsed'], info['sets'])        # several checks in one process (engine/check.py --all) share the fact base
    return dbs, info
