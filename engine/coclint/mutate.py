# applies the hand-written mutants of selftest/mutants.py to scratch worktrees of /repo HEAD and runs the property's quick
# check on them: each must exit 1 naming the expected rule ("fires on a broken instance").  Used by tools/selftest.py and,
# as a report that is never part of the verdict, by the thorough tier.
import sys, os, subprocess, json
from concurrent.futures import ThreadPoolExecutor
VERIF = os.path.dirname(os.path.dirname(os.path.dirname(os.path.abspath(__file__))))


def load():
    sys.path.insert(0, os.path.join(VERIF, 'selftest'))
    import importlib
    m = importlib.import_module('mutants')
    return m.M


def run_one(x):
    mid, prop, rule, file, old, new, note = x
    w = '/tmp/selftest.%d.%s' % (os.getpid(), mid)
    r = subprocess.run(['git', '-C', '/repo', 'worktree', 'add', '-q', '--detach', w, 'HEAD'], capture_output=True, text=True)
    if r.returncode != 0:
        return (mid, prop, 'NO-WORKTREE ' + r.stderr[-100:], note)
    try:
        p = os.path.join(w, 'src', 'cocls', file)
        s = open(p).read()
        if s.count(old) != 1 and not (note.endswith('[all]') and s.count(old) > 1):
            return (mid, prop, 'PATCH-FAILED (%d matches)' % s.count(old), note)
        open(p, 'w').write(s.replace(old, new))
        env = dict(os.environ, COCLS_REPO=w, COCLS_NO_EVIDENCE='1', COCLS_NO_SELFTEST='1')
        r = subprocess.run([sys.executable, os.path.join(VERIF, 'engine', 'check.py'), prop, '--tier', 'quick'], capture_output=True, text=True, env=env, cwd=VERIF)
        hit = [l for l in r.stdout.splitlines() if l.startswith('  violation') and rule in l]
        verdict = 'caught' if (r.returncode == 1 and hit) else ('WRONG-RULE rc=%d' % r.returncode if r.returncode == 1 else 'MISSED rc=%d' % r.returncode)
        extra = '' if verdict == 'caught' else ' | ' + ' / '.join(l.strip()[:160] for l in (r.stdout + r.stderr).splitlines() if 'violation' in l or 'BROKEN' in l)[:400]
        return (mid, prop, verdict + extra, note)
    finally:
        subprocess.run(['git', '-C', '/repo', 'worktree', 'remove', '--force', w], capture_output=True)


def run(select=(), limit=None, workers=6):
    M = load()
    sel = set(select)
    todo = [x for x in M if not sel or x[0] in sel or x[1] in sel]
    if limit:
        todo = todo[:limit]
    with ThreadPoolExecutor(max_workers=workers) as ex:
        return list(ex.map(run_one, todo))
