# helpers shared by the per-property rule modules
import re, collections
from .core import Item, norm, relloc, Tracer, live, evs, calls, fmt_trace, Broken, cond_event, local_env, subst_path, find_ev


def inline_only(*names):
    s = set(names)
    return lambda caller, ev, callee: callee['nname'] in s


def inline_lambdas_and(*names):
    s = set(names)
    return lambda caller, ev, callee: bool(callee.get('lambda')) or callee['nname'] in s


def nullness(br):
    """a branch item that tests a pointer-like path for non-null: returns (path, is_nonnull) or None"""
    if br.k != 'branch':
        return None
    p = br.path or ''
    flip = False
    while p.startswith('!(') and p.endswith(')'):
        p = p[2:-1]; flip = not flip
    if flip:
        r = nullness(Item(br, path=p))
        return (r[0], not r[1]) if r else None
    m = re.fullmatch(r'\((.+) (==|!=) (?:nullptr|0|false)\)', p) or None
    if m and not (m.group(1).startswith('(') and ' ' in m.group(1)):
        return (m.group(1), br.val if m.group(2) == '!=' else (not br.val))
    m = re.fullmatch(r'\((?:nullptr|0|false) (==|!=) (.+)\)', p)
    if m:
        return (m.group(2), br.val if m.group(1) == '!=' else (not br.val))
    if p.startswith('(') and ' ' in p:
        return None
    return (p, bool(br.val))


def strip_call(p):
    """call(x) through implicit bool conversion: 'call(cocls::promise::operator bool)' has no object in the path"""
    return p


def nonnull_on_trace(tr, upto, path):
    """was `path` established non-null by a branch before position upto (and not reassigned since)?"""
    res = None
    for it in tr[:upto]:
        if it.k == 'branch':
            n = nullness(it)
            if n and n[0] == path:
                res = n[1]
            else:
                ce = None
        elif it.k == 'write' and it.get('path') == path:
            res = None
    return res


def who(db, pred):
    """functions (normalised names) containing an event satisfying pred(f, e); returns {fname: [events]}"""
    out = collections.defaultdict(list)
    for f in db.all_instances():
        for e in f.events():
            if pred(f, e):
                out[f['nname']].append((f, e))
    return out


def who_ok(db, f, allowed):
    """may function f perform an operation reserved to the functions named in `allowed`?  Yes when it is one of them, a closure defined
    inside one of them, or a helper all of whose callers (transitively) are - i.e. code extracted from an allowed function"""
    allowed = set(allowed)
    if f['nname'] in allowed:
        return True
    if only_reached_from(db, f['nname'], allowed):
        return True
    g = f; n = 0
    while g is not None and g.get('lambda') and g.get('parent_key') and n < 4:
        g = db.get(g['parent_key']); n += 1
        if g is not None and (g['nname'] in allowed or only_reached_from(db, g['nname'], allowed)):
            return True
    return False


def check_who(ctx, rid, found, allowed, what, floor=None, db=None):
    """found: {fname: [(f, e)]}; every fname must be in allowed, or be a helper reached only from allowed functions"""
    for fname, lst in sorted(found.items()):
        f, e = lst[0]
        ok = fname in allowed or (db is not None and who_ok(db, f, allowed))
        if False:
            pf = None
        ctx.ob(rid, f, e.get('loc') or f['key'], ok, '%s only from the allowed set (here: %s)' % (what, fname),
               detail={'allowed': sorted(allowed)} if not ok else None, desc='%s from %s' % (what, fname))


def class_of(db, f):
    """normalised class a function (or the function enclosing a closure) belongs to"""
    g = f
    n = 0
    while g is not None and g.get('lambda') and g.get('parent_key') and n < 4:
        g = db.get(g['parent_key']); n += 1
    c = norm((g or {}).get('class') or '')
    if c and '::' not in c and g is not None and '::' in (g.get('nname') or ''):
        c = g['nname'].rsplit('::', 1)[0]        # a local class: its printed name lacks the enclosing function, the method's name has it
    return c


def is_helper(db, caller, callee):
    """is `callee` a helper of the code under analysis: a member of the same class (or of the enclosing / a nested class), or a local
    lambda of the calling function - i.e. code a maintainer may have extracted from the function the rule looks at"""
    if callee.get('lambda'):
        return callee.get('parent_key') == caller.get('key') or callee.get('parent_key') == caller.get('parent_key') or (callee.get('encl_key') is not None and callee.get('encl_key') == caller.get('key'))
    a, b = class_of(db, caller), class_of(db, callee)
    if not b and not callee.get('class') and re.match(r'cocls::(detail|details|_details|_detail)::', callee.get('nname') or '') and not callee.get('coroutine'):
        # a small free function of the library's internal namespace (constexpr predicate, one-line accessor): a helper of whoever calls it
        if sum(1 for _ in callee.events()) <= 14 and not has_back_edge_cached(callee):
            return True
    if not a or not b:
        return False
    return a == b or a.startswith(b + '::') or b.startswith(a + '::') or derives(db, a, b) or derives(db, b, a)


def has_back_edge_cached(f):
    from .core import has_back_edge
    v = f.get('_hbe')
    if v is None:
        v = f['_hbe'] = bool(has_back_edge(f))
    return v


def derives(db, cls, base, depth=4):
    """does class `cls` (normalised name) derive from `base`?"""
    cache = db.__dict__.setdefault('_derives', {})
    k = (cls, base)
    if k in cache:
        return cache[k]
    r = False
    if depth > 0:
        cands = db.class_insts(cls)[:1]
        if not cands and '(' in cls:
            # a local class: the record carries the concrete argument types of the enclosing function, methods carry the pattern's
            k_ = re.sub(r'\(.*\)', '()', cls)
            cands = [c for c in db.classes.values() if re.sub(r'\(.*\)', '()', norm(c['name'])) == k_][:1]
        for c in cands:
            for b in c.get('bases', []):
                bn = norm(b.replace('class ', '').replace('struct ', ''))
                if bn == base or base.endswith('::' + bn) or derives(db, bn if '::' in bn else 'cocls::' + bn, base, depth - 1):
                    r = True
    cache[k] = r
    return r


def callers_of(db, fname):
    out = set()
    idx = db.__dict__.setdefault('_callers_idx', None)
    if idx is None:
        idx = collections.defaultdict(set)
        for f in db.all_instances():
            for e in f.events():
                if e.k in ('call', 'construct') and e.get('callee_key'):
                    idx[norm(e.get('callee'))].add(f['nname'])
        db.__dict__['_callers_idx'] = idx
    return idx.get(fname, set())


def only_reached_from(db, fname, allowed, depth=3, _seen=None):
    """is fname an (extracted) helper all of whose callers, transitively, are in `allowed`?"""
    _seen = _seen or set()
    if fname in _seen or depth < 0:
        return False
    _seen.add(fname)
    cs = callers_of(db, fname)
    if not cs:
        return False
    # a caller that is a closure counts as the function it is defined in
    return all(c in allowed or ('::(anonymous class)::' in c and re.sub(r'\(.*$', '', c) in allowed) or only_reached_from(db, c, allowed, depth - 1, _seen) for c in cs)


THOROUGH = [False]      # set by check.py: the thorough tier evaluates path rules on every instantiation, not one per pattern


def traces_of(db, name, depth=0, inline=None, exc=None, lambdas=False, per_instance=True, limit=20000, need=1, maxvisit=2, helpers=True):
    """[(fn, [traces])] for all instances of function `name`"""
    per_instance = per_instance or THOROUGH[0]
    if helpers:
        user = inline
        depth = max(depth, 4)
        inline = lambda caller, ev, callee: bool(user and user(caller, ev, callee)) or is_helper(db, caller, callee)
    T = Tracer(db, depth=depth, inline_filter=inline, exc_edges=exc, limit=limit, maxvisit=maxvisit)
    T.closures_on_stack = bool(helpers)
    out = []
    fns = db.fns(name, lambdas=lambdas)
    if len(fns) < need:
        raise Broken('anchor vanished: no instantiated body of %s' % name)
    seen = set()
    for f in fns:
        if not per_instance:
            if f['key'] in seen:
                continue
            seen.add(f['key'])
        trs = T.traces(f)
        if T.truncated:
            raise Broken('path bound exceeded in %s' % name)
        out.append((f, trs))
    return out


def count_calls(tr, *names, recv=None, maxdepth=99):
    n = 0
    for c in calls(tr, maxdepth):
        if norm(c.get('callee')) in names and (recv is None or c.get('recv') == recv):
            n += 1
    return n


def index_of(tr, pred):
    for i, it in enumerate(tr):
        if it.k not in ('enter', 'leave') and pred(it):
            return i
    return -1


def all_indices(tr, pred):
    out = []
    for i, it in enumerate(tr):
        if it.k in ('enter', 'leave'):
            continue
        if pred(it):
            out.append(i)
    return out


def callee_is(*names):
    s = set(names)
    return lambda ev: ev.k in ('call', 'construct') and norm(ev.get('callee')) in s


def writes_field(*fields):
    s = set(fields)
    return lambda ev: ev.k == 'write' and (norm(ev.get('lfield')) in s or norm(ev.get('field')) in s)


def short_trace(tr, around=None, n=14):
    if around is None:
        return fmt_trace(tr, limit=40)
    return fmt_trace(tr[max(0, around - n):around + 3])


def lambdas_of(db, parent_name):
    """instantiated lambda bodies defined inside functions named parent_name"""
    out = []
    pk = set(db.find(parent_name))
    for k in db.keys():
        f = db.rep(k)
        if f.get('lambda') and f.get('parent_key') in pk:
            out.extend(db.instances(k))
    return out


def field_of(e):
    return norm(e.get('lfield') or e.get('field') or '')


def reach(db, roots, boundary=None, maxfn=5000):
    """AST-level call-graph closure from function instances `roots` (direct calls with a body under src/cocls/, lambdas handed to
    immediate std entry points). Returns (visited instances, {external callee name: (caller, loc)}, [(caller, event)] indirect calls)"""
    from .core import STD_IMMEDIATE
    seen = {}; work = list(roots); ext = {}; indirect = []
    while work:
        f = work.pop()
        k = (f['key'], f['inst'])
        if k in seen:
            continue
        seen[k] = f
        if len(seen) > maxfn:
            raise Broken('call-graph closure exceeds %d functions' % maxfn)
        for e in f.events():
            if e.k not in ('call', 'construct'):
                continue
            if e.get('callee_key'):
                c = db.resolve(f, e['callee_key'], e.get('callee_inst'))
                if c is not None and not (boundary and boundary(c)):
                    work.append(c)
                elif c is not None:
                    ext.setdefault('boundary:' + c['nname'], (f['nname'], e.get('loc')))
            elif e.get('callee'):
                n = norm(e['callee'])
                ext.setdefault(n, (f['nname'], e.get('loc')))
                idx = STD_IMMEDIATE.get(n)
                if idx is not None:
                    for a in e.get('args', []):
                        if (a.get('path') or '').startswith('lambda@'):
                            work.extend(db.closure_instances(f, a['path'][7:]))
            else:
                indirect.append((f, e))
    return list(seen.values()), ext, indirect


BLOCKING = re.compile(r'^(std::atomic(_flag)?::wait|std::__atomic_base::wait|std::mutex::lock|std::recursive_mutex::lock|std::unique_lock::lock|std::lock_guard::lock_guard|std::unique_lock::unique_lock|'
                      r'std::scoped_lock::scoped_lock|std::condition_variable::wait(_until|_for)?|std::thread::join|std::this_thread::sleep_(for|until)|std::future::(wait|get)|'
                      r'pthread_\w+|sem_wait|futex)$')


def interval_count(db, f, pred, cache=None, stack=(), tracer=None, follow=None):
    """[min, max] of the number of events satisfying pred over the live entry->exit paths of f, where a call into a library
    function (or an immediately invoked lambda) contributes that callee's own interval (bottom-up summaries, DESIGN 3.1)"""
    from .core import STD_IMMEDIATE
    cache = {} if cache is None else cache
    k = (f['key'], f['inst'])
    if k in cache:
        return cache[k]
    if k in stack:
        return (0, 0)
    T = tracer or Tracer(db, depth=0, limit=20000)
    lo = None; hi = 0
    trs = T.traces(f)
    if T.truncated:
        raise Broken('path bound exceeded in %s' % f['nname'])
    for tr in trs:
        if not live(tr):
            continue
        a = b = 0
        for it in tr:
            if it.k in ('branch', 'switch', 'abort', 'exception'):
                continue
            if pred(it):
                a += 1; b += 1
                continue
            if it.k in ('call', 'construct'):
                c = None
                if it.get('callee_key'):
                    c = db.resolve(f, it['callee_key'], it.get('callee_inst'))
                elif STD_IMMEDIATE.get(norm(it.get('callee'))) is not None:
                    for ar in it.get('args', []):
                        if (ar.get('opath') or ar.get('path') or '').startswith('lambda@'):
                            c = db.get((ar.get('opath') or ar['path'])[7:])
                if c is not None and (follow is None or follow(c)):
                    x, y = interval_count(db, c, pred, cache, stack + (k,), None, follow)
                    a += x; b += y
        lo = a if lo is None else min(lo, a)
        hi = max(hi, b)
    r = (lo or 0, hi)
    cache[k] = r
    return r


def linform(expr, atom_map=None):
    """parse an access-path arithmetic expression into a linear form {atom: coeff, '': const}; None when not linear in + - and integer literals.
    atom_map(atom) may canonicalise atoms"""
    s = expr.strip()
    pos = [0]

    def peek():
        while pos[0] < len(s) and s[pos[0]] == ' ':
            pos[0] += 1
        return s[pos[0]] if pos[0] < len(s) else ''

    def add(a, b, k=1):
        r = dict(a)
        for x, c in b.items():
            r[x] = r.get(x, 0) + k * c
        return r

    def atom():
        c = peek()
        if c == '(':
            pos[0] += 1
            v = expr_()
            if peek() != ')':
                raise ValueError(s)
            pos[0] += 1
            return v
        m = re.match(r'\d+', s[pos[0]:])
        if m:
            pos[0] += len(m.group(0))
            return {'': int(m.group(0))}
        # an access path atom: up to a space followed by an operator, or a closing paren at depth 0
        i = pos[0]; depth = 0
        while i < len(s):
            ch = s[i]
            if ch == '(':
                depth += 1
            elif ch == ')':
                if depth == 0:
                    break
                depth -= 1
            elif ch == ' ' and depth == 0:
                break
            i += 1
        a = s[pos[0]:i]
        if not a:
            raise ValueError(s)
        pos[0] = i
        if atom_map:
            a = atom_map(a)
        return {a: 1}

    def expr_():
        v = atom()
        while True:
            c = peek()
            if c in ('+', '-') and pos[0] + 1 < len(s) and s[pos[0] + 1] == ' ':
                pos[0] += 1
                w = atom()
                v = add(v, w, 1 if c == '+' else -1)
            else:
                break
        return v
    try:
        v = expr_()
        if peek() != '':
            return None
        return {k: c for k, c in v.items() if c != 0 or k == ''}
    except (ValueError, IndexError):
        return None


def flows_only_into(f, ev, callee, how=('arg',)):
    """does the value computed by event `ev` flow only into a call of `callee` (directly as an argument, or through one local that is
    used for nothing else)?"""
    use = ev.get('use') or ''
    if use == 'arg:' + callee:
        return True
    if use == 'return' and 'return' in how:
        return True
    if use.startswith('init:'):
        v = 'local:' + use[5:]
        uses = [e for e in f.events() if e.k in ('use', 'read') and e.get('path') == v]
        sinks = [e for e in f.events() if e.k in ('call', 'construct') and norm(e.get('callee')) == callee and any(a.get('path') in (v, 'move(%s)' % v) for a in e.get('args', []))]
        moved = [e for e in f.events() if e.k == 'call' and norm(e.get('callee')) in ('std::move', 'std::forward') and any(a.get('path') == v for a in e.get('args', []))]
        writes = [e for e in f.events() if e.k == 'write' and e.get('path') == v]
        return len(sinks) >= 1 and len(uses) <= len(sinks) and not writes and len(moved) <= len(sinks)
    return False



def deep_resolve_select(p, before):
    """resolve every conditional sub-expression of p whose condition was branched on before (outermost first)"""
    for _ in range(8):
        found = False
        i = 0
        while i < len(p or ''):
            if p[i] == '(':
                d = 0; j = i
                while j < len(p):
                    if p[j] == '(':
                        d += 1
                    elif p[j] == ')':
                        d -= 1
                        if d == 0:
                            break
                    j += 1
                sub = p[i:j + 1]
                if split_select(sub):
                    r = resolve_select(sub, before)
                    if r != sub:
                        p = p[:i] + ('(%s)' % r if ' ' in r and not r.startswith('(') else r) + p[j + 1:]; found = True
                        break
            i += 1
        if not found:
            break
    return p


def split_cmp(p):
    """'(A op B)' -> (A, op, B) for a relational operator at depth 0, else None"""
    if not (p.startswith('(') and p.endswith(')')):
        return None
    body = p[1:-1]; d = 0
    for i, ch in enumerate(body):
        if ch == '(':
            d += 1
        elif ch == ')':
            d -= 1
            if d < 0:
                return None
        elif ch == ' ' and d == 0:
            m = re.match(r' (<=|>=|==|!=|<|>) ', body[i:])
            if m:
                return body[:i], m.group(1), body[i + len(m.group(0)):]
    return None


def counter_step(tr, path, N=24):
    """one live trace read as a transformer of the unsigned counter at `path`: returns {v: new value} for every start value v in 0..N-1 that
    satisfies the branch conditions of the trace, or None when a condition or the stored expression is not interpretable (linear in the
    counter, integer literals and constant locals)"""
    consts = {it.get('var'): it.get('const') for it in tr if it.k == 'decl' and isinstance(it.get('const'), int) and not isinstance(it.get('const'), bool)}

    def ev_(expr, v):
        try:
            lf = linform(expr)
        except Exception:
            return None
        if lf is None:
            return None
        t = 0
        for a, c in lf.items():
            if a == '':
                t += c
            elif a == path:
                t += c * v
            elif a in consts:
                t += c * consts[a]
            else:
                return None
        return t
    out = {}
    for v0 in range(N):
        v = v0; ok = True
        for i, it in enumerate(tr):
            if it.k == 'branch':
                ps = [pp for pp in list((it.get('forms') or {}).items()) + [(it.get('path'), it.val)] if pp[0] and path in pp[0]]
                if not ps:
                    continue
                p_, val = ps[-1]
                while p_.startswith('!(') and p_.endswith(')'):
                    p_ = p_[2:-1]; val = not val
                if p_ == path:
                    holds = (v != 0)
                else:
                    sc = split_cmp(p_ if p_.startswith('(') else '(%s)' % p_)
                    if not sc:
                        return None
                    a, b = ev_(sc[0], v), ev_(sc[2], v)
                    if a is None or b is None:
                        return None
                    holds = {'<': a < b, '<=': a <= b, '>': a > b, '>=': a >= b, '==': a == b, '!=': a != b}[sc[1]]
                if holds != bool(val):
                    ok = False; break
            elif it.k == 'write' and it.get('path') == path:
                d = delta_of_write(it)
                if d is not None:
                    v = v + d
                else:
                    if (it.get('op') or '=') != '=':
                        return None
                    rhs = origin_in_trace(tr, i, it.get('rhs'))[0] or it.get('rhs') or ''
                    rhs = deep_resolve_select(rhs, tr[:i])
                    nv = ev_(rhs, v) if rhs else (it.get('const') if isinstance(it.get('const'), int) else None)
                    if nv is None:
                        return None
                    v = nv
        if ok:
            out[v0] = v
    return out



def says_nonnull(expr, path):
    """is the boolean expression `expr` exactly "path is not null", in any spelling: p != nullptr, !(p == nullptr), nullptr != p, p, !!p"""
    e = expr or ''; neg = False
    for _ in range(6):
        if e.startswith('!(') and e.endswith(')'):
            e = e[2:-1]; neg = not neg
        elif e.startswith('((') and e.endswith('))'):
            e = e[1:-1]
        else:
            break
    if e == path:
        return not neg
    sc = split_cmp(e if e.startswith('(') else '(%s)' % e)
    if not sc or sc[1] not in ('==', '!='):
        return False
    a, b = sc[0], sc[2]
    if b in NULLS and a == path or a in NULLS and b == path:
        return (sc[1] == '!=') != neg
    return False


def delta_of_write(ev):
    """numeric change a write applies to its target: += c, -= c, ++, --, x = x + c, x = x - c ; None when not of that shape"""
    op = ev.get('op') or '='
    c = ev.get('const')
    if op == '+=' and c is not None:
        return c
    if op == '-=' and c is not None:
        return -c
    if op == '++':
        return 1
    if op == '--':
        return -1
    if op == '=':
        p = re.escape(ev.get('path') or '')
        m = re.fullmatch(r'\(%s ([+-]) (\d+)\)' % p, ev.get('rhs') or '')
        if m:
            return int(m.group(2)) * (1 if m.group(1) == '+' else -1)
        m = re.fullmatch(r'\((\d+) \+ %s\)' % p, ev.get('rhs') or '')
        if m:
            return int(m.group(1))
    return None


def resume_functions(db, ctor_or_fn_name):
    """functions installed as an awaiter's resume function inside `ctor_or_fn_name` (a name, or a list of function instances): arguments of
    set_resume_fn / of the awaiter base constructor that are a lambda or a named (static member) function"""
    out = []
    for f in (db.fns(ctor_or_fn_name) if isinstance(ctor_or_fn_name, str) else ctor_or_fn_name):
        for e in f.events():
            if e.k in ('call', 'construct') and (norm(e.get('callee')) in ('cocls::awaiter::set_resume_fn', 'cocls::awaiter::awaiter') or norm(e.get('callee') or '').endswith('_promise_base::future_conv_promise_base') or 'awaiter::awaiter' in norm(e.get('callee') or '') or norm(e.get('callee') or '').endswith('::awaiter')):
                for a in e.get('args', []):
                    p = a.get('path') or ''
                    m = re.search(r'lambda@(\S+?)\)*$', p)
                    if m:
                        out.extend(db.closure_instances(f, m.group(1)))
                    m = re.search(r'fn:(.+?)\)*$', p) if 'fn:' in p else None
                    if m:
                        nm = m.group(1)
                        while nm.count(')') > nm.count('('):
                            nm = nm[:nm.rfind(')')]
                        got = db.fns(norm(nm))
                        if not got:
                            # local classes: the printed name of the target may differ in its template arguments; match on the normalised name
                            got = [g for g in db.all_instances() if g['nname'] == norm(nm)]
                        out.extend(got)
        # conversion of a capture-less lambda to a function pointer shows as a call of the closure's conversion operator
        for e in f.events():
            if e.k == 'call' and 'operator cocls::suspend_point' in (e.get('callee') or '') and (e.get('recv') or '').startswith('lambda@'):
                out.extend(db.closure_instances(f, e['recv'][7:]))
    seen = set(); res = []
    for g in out:
        k = (g['key'], g['inst'])
        if k not in seen:
            seen.add(k); res.append(g)
    return res


def htracer(db, extra=None, exc=None, maxvisit=2, limit=20000, depth=4):
    """a Tracer that expands calls to helpers of the code under analysis (same class / local lambdas), plus what `extra` accepts"""
    T = Tracer(db, depth=depth, inline_filter=lambda caller, ev, callee: bool(extra and extra(caller, ev, callee)) or is_helper(db, caller, callee),
               exc_edges=exc, maxvisit=maxvisit, limit=limit)
    T.closures_on_stack = True
    return T


LOCK_TYPES = re.compile(r'\b(lock_guard|unique_lock|scoped_lock)\b')


def trace_lockset(tr):
    """set of lock variables held before each item of one trace (RAII construction / destruction, explicit lock()/unlock() on a unique_lock,
    a unique_lock& parameter of the root counts as held)"""
    held = set(); out = []
    pending = False
    alias = lock_aliases(tr)
    for it in tr:
        out.append(frozenset(held))
        if it.k in ('enter', 'leave', 'branch', 'switch', 'abort', 'exception'):
            continue
        if it.k == 'call' and it.get('recv') and norm(it.get('field') or '') in alias and norm(it.get('callee') or '') in ('std::unique_lock::unlock', 'std::unique_lock::lock'):
            it = Item(it, recv=alias[norm(it['field'])])          # a scope guard that holds a reference to the caller's lock
        if it.k == 'construct' and LOCK_TYPES.search(it.get('callee') or '') and not it.get('copy_or_move'):
            a = it.get('args') or []
            pending = not (len(a) > 1 and re.search(r'defer_lock|try_to_lock', (a[1].get('type') or '') + (a[1].get('path') or '')))
        elif it.k == 'decl' and LOCK_TYPES.search(it.get('type') or '') and not it.get('ref'):
            if pending:
                held.add(it.get('var'))
            pending = False
        elif it.k == 'dtor' and LOCK_TYPES.search(it.get('type') or ''):
            v = it.get('var')
            for h in list(held):
                if h == 'local:' + v or h.startswith('local:' + v + '#'):
                    if it.get('depth', 0) == (int(h.split('#')[1]) if '#' in h else 0):
                        held.discard(h)
        elif it.k == 'call' and norm(it.get('callee')) == 'std::unique_lock::unlock':
            held.discard(it.get('recv'))
        elif it.k == 'call' and norm(it.get('callee')) == 'std::unique_lock::lock':
            held.add(it.get('recv'))
    return out


def lock_aliases(tr):
    """reference members bound to a lock object on this trace ({member declaration: path of the lock}): a scope guard (unlocked_region
    guard(lk);) keeps a unique_lock& and unlocks / re-locks it in its constructor and destructor"""
    alias = {}
    for it in tr:
        if it.k == 'write' and it.get('init') and re.fullmatch(r'(local|param):\w+(#\d+)?', it.get('rhs') or '') and 'unique_lock' in (it.get('type') or it.get('rhs_type') or 'unique_lock'):
            fld = norm(it.get('lfield') or it.get('field') or '')
            if fld:
                alias[fld] = it['rhs']
    return alias


def entry_locks(f):
    return {'param:' + p['name'] for p in f['params'] if 'unique_lock' in p['type'] and '&' in p['type']}


def ret_const(tr):
    """constant returned by the root function on this trace (None when not constant); a value returned by an expanded helper counts"""
    d0 = min((it.get('depth', 0) for it in tr if it.k not in ('enter', 'leave', 'abort')), default=0)
    for i in range(len(tr) - 1, -1, -1):
        it = tr[i]
        if it.k == 'return' and it.get('depth', 0) == d0:
            if it.get('const') is not None:
                return it.get('const')
            if it.get('ret_ev') is not None:
                for x in reversed(tr[:i]):
                    if x.k == 'leave' and x.get('depth') == d0 and x.ev.get('id') == it['ret_ev']:
                        return x.get('ret')
            return None
    return None


def resume_bodies(db, name):
    """the bodies that run when an awaiter set up inside `name` is resumed: local lambdas of `name` plus named functions it installs
    as resume function (a maintainer may turn the capture-less lambda into a static member function)"""
    if isinstance(name, str):
        out = list(lambdas_of(db, name))
    else:
        out = [lf for f in name for e in f.events() if e.k == 'lambda' for lf in db.closure_instances(f, e['fn_key'])]
    seen = {(g['key'], g['inst']) for g in out}
    try:
        extra = resume_functions(db, name)
    except Broken:
        extra = []
    for g in extra:
        if (g['key'], g['inst']) not in seen:
            seen.add((g['key'], g['inst'])); out.append(g)
    return out


def ret_expr(tr):
    """textual path of the expression the root function returns on this trace; a value returned by an expanded helper is followed into the helper"""
    d0 = min((it.get('depth', 0) for it in tr if it.k not in ('enter', 'leave', 'abort')), default=0)

    def at(depth, hi):
        for i in range(hi - 1, -1, -1):
            it = tr[i]
            if it.k == 'return' and it.get('depth', 0) == depth:
                if it.get('ret_ev') is not None:
                    for j in range(i - 1, -1, -1):
                        x = tr[j]
                        if x.k == 'leave' and x.get('depth') == depth and x.ev.get('id') == it['ret_ev']:
                            inner = at(depth + 1, j)
                            if inner is not None:
                                return inner
                            break
                        if x.k == 'enter' and x.get('depth') == depth - 1:
                            break
                return it.get('path')
            if it.k == 'enter' and it.get('depth') == depth - 1:
                return None
        return None
    return at(d0, len(tr))


def ret_bool(tr):
    """truth value the root function returns on this trace when it is decided by the path: a constant, or (a negation of) an expression
    whose outcome a branch on this path has fixed (bool ok = ...; if (ok) {...} return !ok;)"""
    c = ret_const(tr)
    if c is not None:
        return bool(c)
    p = ret_expr(tr)
    if not p:
        return None
    neg = False
    while p.startswith('!(') and p.endswith(')'):
        p = p[2:-1]; neg = not neg
    if p.startswith('!') and re.fullmatch(r'!(local|param):\w+', p):
        p = p[1:]; neg = not neg
    for it in reversed(tr):
        if it.k == 'branch' and it.get('depth', 0) == 0 and p in (it.get('opath'), it.get('path')):
            return bool(it.val if p == it.get('path') else it.get('oval', it.val)) != neg
    rv = ret_value(tr)
    if rv is not None and rv[0] == 'const':
        return bool(rv[1])
    return None


def ret_value(tr):
    """what the root function returns on this trace, with conditional and short-circuit expressions resolved by the branches the path took:
    ('const', bool) | ('expr', path, negated) | None"""
    from .core import eval_logic
    c = ret_const(tr)
    if c is not None:
        return ('const', bool(c))
    p = ret_expr(tr)
    if not p:
        return None
    p = deep_resolve_select(p, tr)
    if p in ('true', 'false'):
        return ('const', p == 'true')
    known = {}
    for it in tr:
        if it.k == 'branch' and it.get('depth', 0) == 0:
            for k_, v_ in (it.get('forms') or {}).items():
                known[k_] = bool(v_)
            if it.get('opath'):
                known[it['opath']] = bool(it.get('oval', it.val))
            if it.get('path'):
                known[it['path']] = bool(it.val)
    try:
        return eval_logic(p, known)
    except Exception:
        return None


def origin_in_trace(tr, idx, path, maxsteps=8):
    """follow a value backwards along one trace: through local declarations, values returned by expanded helpers and std::exchange
    (whose result is the old value of its first argument).  Returns (path of the origin, index in the trace where it was read)"""
    for _ in range(maxsteps):
        if path is None:
            return None, idx
        m = re.fullmatch(r'(?:move|forward|ctor)\((.*)\)', path)
        if m:
            path = m.group(1); continue
        if re.fullmatch(r'local:\w+(#\d+)?', path):
            def sets(it_):
                if it_.k == 'decl' and it_.get('var') == path:
                    return True
                if it_.k == 'write' and it_.get('path') == path and it_.get('op', '=') == '=':
                    return True
                return it_.k == 'call' and it_.get('recv') == path and norm(it_.get('callee') or '').endswith('::operator=') and len(it_.get('args') or []) == 1
            j = next((j for j in range(idx - 1, -1, -1) if sets(tr[j])), None)
            if j is None:
                return path, idx
            v_ = tr[j].get('init') if tr[j].k == 'decl' else (tr[j].get('rhs') or ('0' if tr[j].get('const') == 0 else None)) if tr[j].k == 'write' else tr[j]['args'][0].get('path')
            if v_ is None and tr[j].k == 'decl' and tr[j].get('const') == 0:
                v_ = 'nullptr'
            if v_ is None:
                return path, idx
            path, idx = v_, j
            continue
        m = re.fullmatch(r'call\(([^()]*)\)', path)
        if m:
            callee = m.group(1)
            if callee == 'std::exchange':
                j = next((j for j in range(idx - 1, -1, -1) if tr[j].k == 'call' and norm(tr[j].get('callee') or '') == 'std::exchange'), None)
                if j is None or not tr[j].get('args'):
                    return path, idx
                path, idx = tr[j]['args'][0].get('path'), j
                continue
            if re.search(r'::operator [A-Za-z_]', callee):
                # a conversion (coroutine_handle<P> -> coroutine_handle<>): the value is the converted object
                j = next((j for j in range(idx - 1, -1, -1) if tr[j].k == 'call' and tr[j].get('recv') and norm(tr[j].get('callee') or '') == norm(callee)), None)
                if j is None:
                    return path, idx
                path, idx = tr[j]['recv'], j
                continue
            # a helper that was expanded: the value is what its body returned on this path
            j = next((j for j in range(idx - 1, -1, -1) if tr[j].k == 'leave' and norm(tr[j].ev.get('callee') or '') == norm(callee)), None)
            if j is None:
                return path, idx
            d = tr[j].get('depth', 0) + 1
            r = next((k for k in range(j - 1, -1, -1) if tr[k].k == 'return' and tr[k].get('depth') == d), None)
            if r is None or not tr[r].get('path'):
                return path, idx
            path, idx = tr[r]['path'], r
            continue
        return path, idx
    return path, idx


NULLS = ('nullptr', 'ctor(nullptr)', '0', 'false', 'ctor()', '{}')


def null_test(tr, i):
    """(object path, is_nonnull) when branch item tr[i] tests a pointer-like object for null, in any of the source forms:
    if (p), if (!p), if (p != nullptr), if (nullptr == p), if (h) / if (h != nullptr) on a coroutine_handle, shared_ptr, unique_ptr, promise ..."""
    br = tr[i]
    if br.k != 'branch':
        return None
    ce = cond_event(tr, i)
    if ce is not None and ce.k == 'call' and ce.get('recv'):
        c = norm(ce.get('callee') or '')
        if c.endswith('::operator bool'):
            return (ce['recv'], bool(br.val))
        if c.endswith('::operator!'):
            return (ce['recv'], not br.val)
    if ce is not None and ce.k == 'call' and re.search(r'(^|::)operator(==|!=)$', norm(ce.get('callee') or '')) and len(ce.get('args') or []) == 2:
        # smart pointer compared with nullptr: a call of std::operator==(const shared_ptr&, nullptr_t)
        ps = [a.get('path') or '' for a in ce['args']]
        objs = [p for p in ps if p not in NULLS]
        if len(objs) == 1 and len([p for p in ps if p in NULLS]) == 1:
            eq = norm(ce['callee']).endswith('==')
            return (objs[0], (not br.val) if eq else bool(br.val))
    if ce is not None and ce.k == 'cmp' and ce.get('op') in ('==', '!='):
        l_, r_ = ce.get('lhs') or '', ce.get('rhs') or ''
        side = None
        if r_ in NULLS and l_ not in NULLS:
            side = ('lhs', l_)
        elif l_ in NULLS and r_ not in NULLS:
            side = ('rhs', r_)
        if side:
            obj = side[1]
            if obj.startswith('call(') and ce.get(side[0] + '_ev') is not None:
                # comparison of a converted object (coroutine_handle<P> -> coroutine_handle<>): the object is the receiver of the conversion
                oe = find_ev(tr, i, ce[side[0] + '_ev'], br.get('rcond_fn') or br.fn, br.get('rcond_depth', br.depth))
                for _ in range(3):
                    if oe is not None and oe.k == 'construct' and oe.get('args') and oe['args'][0].get('ev') is not None:
                        oe = find_ev(tr, i, oe['args'][0]['ev'], br.get('rcond_fn') or br.fn, br.get('rcond_depth', br.depth))
                    else:
                        break
                if oe is not None and oe.k == 'call' and oe.get('recv') and '::operator ' in norm(oe.get('callee') or ''):
                    obj = oe['recv']
            if obj.startswith('call(') and '::operator ' in obj:
                # rewritten comparison (operator== synthesised from <=> / reversed): no operand link, take the latest such conversion before the branch
                oe = next((x for x in reversed(tr[:i]) if x.k == 'call' and x.get('recv') and 'call(%s)' % norm(x.get('callee') or '') == obj and x.get('depth', 0) == br.get('depth', 0)), None)
                if oe is not None:
                    obj = oe['recv']
            m_ = re.fullmatch(r'(?:ctor|move)\((.+)\)', obj)
            if m_ and m_.group(1) not in NULLS:
                obj = m_.group(1)          # a copy of the handle compared: the test is about the handle
            if re.fullmatch(r'call\((std::coroutine_handle(<[^()]*>)?::address|std::(unique|shared)_ptr(<[^()]*>)?::get)\)', obj):
                # h.address() != nullptr / p.get() != nullptr: the raw pointer of the object is the object's nullness
                oe = next((x for x in reversed(tr[:i]) if x.k == 'call' and x.get('recv') and re.search(r'::(address|get)$', norm(x.get('callee') or '')) and x.get('depth', 0) == br.get('rcond_depth', br.get('depth', 0))), None)
                if oe is not None:
                    obj = oe['recv']
            return (obj, bool(br.val) if ce['op'] == '!=' else (not br.val))
    return nullness(br)


def split_select(p):
    """'(C ? A : B)' -> (C, A, B) or None (balanced parentheses)"""
    if not (p.startswith('(') and p.endswith(')')):
        return None
    body = p[1:-1]; depth = 0; q = c = None
    for i, ch in enumerate(body):
        if ch == '(':
            depth += 1
        elif ch == ')':
            depth -= 1
        elif depth == 0 and body[i:i + 3] == ' ? ' and q is None:
            q = i
        elif depth == 0 and body[i:i + 3] == ' : ' and q is not None and c is None:
            c = i
    if q is None or c is None:
        return None
    return body[:q], body[q + 3:c], body[c + 3:]


def resolve_select(p, before):
    """value of a conditional expression on this path: the arm chosen by the branch on its condition"""
    for _ in range(3):
        m_ = re.fullmatch(r'(?:ctor|move|forward)\((\(.* \? .* : .*\))\)', p or '')
        if m_:
            p = m_.group(1)          # a conditional expression wrapped by a conversion / move
        sp = split_select(p or '')
        if not sp:
            return p
        br = next((it for it in reversed(before) if it.k == 'branch' and (it.get('opath') == sp[0] or it.get('path') == sp[0] or sp[0] in (it.get('forms') or {}))), None)
        if br is None:
            return p
        p = sp[1] if (br.val if br.get('path') == sp[0] else br.get('oval', br.val) if br.get('opath') == sp[0] else br['forms'][sp[0]]) else sp[2]
    return p


def null_store(it, suffix):
    """does trace item `it` store null into a location whose path ends in `suffix` (x = nullptr; x = {}; std::exchange(x, nullptr); x.reset())?"""
    if it.k == 'write' and (it.get('path') or '').endswith(suffix) and (it.get('const') == 0 or (it.get('rhs') or '') in NULLS):
        return True
    if it.k == 'call':
        c = norm(it.get('callee') or '')
        a = it.get('args') or []
        if c.endswith('operator=') and (it.get('recv') or '').endswith(suffix) and a and ((a[0].get('path') or '') in NULLS or a[0].get('const') == 0):
            return True
        if c == 'std::exchange' and a and (a[0].get('path') or '').endswith(suffix) and len(a) > 1 and ((a[1].get('path') or '') in NULLS or a[1].get('const') == 0):
            return True
        if c.endswith('::reset') and (it.get('recv') or '').endswith(suffix) and not a:
            return True
    return False


def helper_bodies(db, f, depth=3):
    """f and the helpers of its class it reaches (transitively, bounded): the code a rule about f has to look at when a maintainer has split f up"""
    out = [f]; seen = {(f['key'], f.get('inst'))}; work = [(f, 0)]
    while work:
        g, d = work.pop()
        if d >= depth:
            continue
        for e in g.events():
            if e.k in ('call', 'construct') and e.get('callee_key'):
                c = db.resolve(g, e['callee_key'], e.get('callee_inst'))
                if c is not None and (c['key'], c.get('inst')) not in seen and is_helper(db, g, c):
                    seen.add((c['key'], c.get('inst'))); out.append(c); work.append((c, d + 1))
    return out


def inline_returns(tr, i, expr, maxsteps=4):
    """rewrite call(NAME) inside an expression by what the helper NAME, expanded earlier on this trace, returned on this path (its
    parameters are already substituted by the caller's argument paths)"""
    if not expr:
        return expr
    for _ in range(maxsteps):
        m = re.search(r'call\(([^()]*)\)', expr)
        done = True
        for m in re.finditer(r'call\(([^()]*)\)', expr):
            name = norm(m.group(1))
            j = next((k for k in range(min(i, len(tr)) - 1, -1, -1) if tr[k].k == 'leave' and norm(tr[k].ev.get('callee') or '') == name), None)
            if j is None:
                continue
            r = next((k for k in range(j - 1, -1, -1) if tr[k].k == 'return' and tr[k].get('depth') == tr[j].get('depth', 0) + 1), None)
            if r is None or not tr[r].get('path') or tr[r]['path'] == m.group(0):
                continue
            expr = expr[:m.start()] + '(' + resolve_select(tr[r]['path'], tr[:r]) + ')' + expr[m.end():]
            done = False
            break
        if done:
            break
    return expr


def functions_named_by(db, f, p):
    """the function instances an argument path denotes: fn:<qualified name>, lambda@<key>, or the conversion of a capture-less closure of f"""
    out = []
    p = p or ''
    m = re.search(r'lambda@(\S+?)\)*$', p)
    if m:
        out.extend(db.closure_instances(f, m.group(1)))
    m = re.search(r'fn:(.+?)\)*$', p) if 'fn:' in p else None
    if m:
        nm = m.group(1)
        while nm.count(')') > nm.count('('):
            nm = nm[:nm.rfind(')')]
        spec = None
        if '@' in nm:
            nm, spec = nm.split('@', 1)       # a named specialisation of a function template
        got = db.fns(norm(nm))
        if not got:
            got = [g for g in db.all_instances() if g['nname'] == norm(nm)]
        if spec:
            got = [g for g in got if (g.get('plain_inst') or g.get('inst') or '') == spec] or got
        out.extend(got)
    if not out and 'operator cocls::suspend_point' in p:
        for e in f.events():
            if e.k == 'call' and 'operator cocls::suspend_point' in (e.get('callee') or '') and (e.get('recv') or '').startswith('lambda@'):
                out.extend(db.closure_instances(f, e['recv'][7:]))
    return out


def const_subst(db, expr):
    """replace named integer constants (global:<qualified name>, static constexpr members) by their values"""
    if not expr or 'global:' not in expr:
        return expr
    for k, v in sorted(db.consts.items(), key=lambda kv: -len(kv[0])):
        if v is not None and k in expr:
            expr = re.sub(re.escape(k) + r'(?![\w:<])', str(v), expr)
    return expr
