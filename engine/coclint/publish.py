# NO-TOUCH-AFTER rule kind: once an awaiter has been published to a chain (subscribe CAS), the
# publishing thread must not read, write or call into it: its owner may already have been
# resumed and the object may be gone (DESIGN 4/C03.R2, C02.publish-discipline, C07, C17.charge).
import re
from .core import norm, relloc, rooted, Tracer, live, fmt_trace, local_env, subst_path, Broken
from .atomic import is_atomic_call

# primitive publishers: normalised callee -> (published object: 'recv', mode)
PRIMITIVE = {
    'cocls::awaiter::subscribe': ('recv', 'always'),
    'cocls::awaiter::subscribe_check_ready': ('recv', 'true'),
}


def strip_addr(p):
    p = p or ''
    while p.startswith('&(') and p.endswith(')'):
        p = p[2:-1]
    return p


class Summaries:
    """which library functions publish their receiver / an argument, derived to a fixed point"""

    def __init__(self, db):
        self.db = db
        self.by_key = {}     # callee_key -> list of (what, mode) ; what = 'this' or ('param', index)   (all instantiations merged: strongest claim)
        self.by_inst = {}    # (callee_key, instantiation name) -> the same for that instantiation (co_awaiter<future>::subscribe publishes iff true, co_awaiter<mutex>::subscribe always)
        for name, (what, mode) in PRIMITIVE.items():
            for k in db.find(name):
                self.by_key[k] = [('this', mode)]
        if not self.by_key:
            raise Broken('anchor vanished: no instantiated awaiter::subscribe / subscribe_check_ready')
        changed = True; rounds = 0
        while changed and rounds < 6:
            changed = False; rounds += 1
            for f in db.all_instances():
                if f['key'] in self.by_key and f['nname'] in PRIMITIVE:
                    continue
                env = local_env(f)
                for e in f.events():
                    for (obj, mode) in self.published_by(e, env):
                        what = None
                        if obj == 'this':
                            what = 'this'
                        else:
                            m = re.fullmatch(r'param:(\w+)', obj)
                            if m:
                                idx = next((i for i, p in enumerate(f['params']) if p['name'] == m.group(1)), None)
                                if idx is not None:
                                    what = ('param', idx)
                        if what is None:
                            continue
                        fm = self.derive_mode(f, e, mode)
                        ci = self.by_inst.setdefault((f['key'], f.get('plain_inst') or f.get('inst')), [])
                        if (what, fm) not in ci:
                            ci[:] = [c for c in ci if c[0] != what] + [(what, fm)] if not any(c[0] == what and c[1] == 'always' for c in ci) else ci
                            changed = True
                        cur = self.by_key.setdefault(f['key'], [])
                        if (what, fm) not in cur:
                            # keep the strongest claim per object
                            cur[:] = [c for c in cur if c[0] != what] + [(what, fm)] if not any(c[0] == what and c[1] == 'always' for c in cur) else cur
                            changed = True

    def derive_mode(self, f, e, mode):
        if mode == 'always':
            return 'always'
        use = e.get('use') or ''
        if mode == 'true':
            if use == 'return' and 'bool' in (f.get('ret') or '').lower():
                return 'true'
            if use.startswith('init:') and 'bool' in (f.get('ret') or '').lower():
                v = 'local:' + use[5:]
                rets = [r for r in f.events() if r.k == 'return']
                if rets and all((r.get('path') or '') == v for r in rets):
                    return 'true'
            if use.startswith('assign:param:'):
                pn = use.split(':')[2]
                idx = next((i for i, p in enumerate(f['params']) if p['name'] == pn and '&' in p['type']), None)
                if idx is not None:
                    return ('out', idx)
            if use == 'cond' and 'bool' in (f.get('ret') or '').lower():
                # if (!subscribe(x)) {...; return false;} return true;  -- accepted only when every return is a constant
                rets = [r for r in f.events() if r.k == 'return']
                if rets and all(r.get('const') is not None for r in rets):
                    return 'true'
            return 'always'
        if isinstance(mode, tuple):
            return 'always'
        return 'always'

    def published_by(self, e, env=None):
        """objects published by call/construct event e: list of (object path, mode)"""
        if e.k not in ('call', 'construct'):
            return []
        key = e.get('callee_key')
        if key is None or key not in self.by_key:
            return []
        out = []
        for what, mode in (self.by_inst.get((key, e.get('callee_inst'))) or self.by_key[key]):
            if what == 'this':
                if e.k == 'construct':
                    obj = 'obj@%s' % e.get('id')
                else:
                    obj = strip_addr(subst_path(e.get('recv'), env) if env else e.get('recv'))
            else:
                args = e.get('args') or []
                if what[1] >= len(args):
                    continue
                obj = strip_addr(subst_path(args[what[1]]['path'], env) if env else args[what[1]]['path'])
            if obj:
                out.append((obj, mode))
        return out

    def publishers(self):
        return {norm(self.db.rep(k)['name']) for k in self.by_key}


# named exceptions, one symbol each: (function, publishing callee) -> (allowed touch regex, reason)
ALLOWED_AFTER = {
    ('cocls::signal::hook_up_emitter::await_suspend', 'cocls::signal::emitter::await_suspend'):
        (r'this->_fn$', 'the chain belongs to a signal created inside this very call; nobody else can reach it until the collector escapes '
                        'through the call of _fn, so reading _fn to make that call is not a touch of a visible awaiter'),
}


def check_no_touch(ctx, db, rid, summ, functions=None, per_instance=False, floor=1):
    """functions: set of normalised function names to check (None = every library body that contains a publishing call)"""
    ctx.rule(rid, 'NO-TOUCH-AFTER', 'after a call that publishes an awaiter to a chain (on its success edge), no path reads, writes or calls into that '
             'awaiter (value uses of the pointer and its atomic members are allowed); `this` aliases a published object of the same class', floor=floor)
    T = Tracer(db, depth=0, limit=20000)
    for key in db.keys():
        insts = db.instances(key)
        if functions is not None and insts[0]['nname'] not in functions:
            continue
        if not per_instance:
            insts = insts[:1]
        for f in insts:
            env = local_env(f)
            if f['nname'] in PRIMITIVE:
                _check_primitive(ctx, db, rid, f, T)
                continue
            # calls synthesised by co_await are excluded: after await_suspend the coroutine is suspended and
            # await_resume runs only once the awaiter has been handed back by the resumer
            trig = [e for e in f.events() if not e.get('implicit') and summ.published_by(e, env)]
            if not trig:
                continue
            traces = T.traces(f)
            if T.truncated:
                raise Broken('path bound exceeded in %s' % f['nname'])
            ctx.paths(rid, len(traces))
            for e in trig:
                hits = []
                allow = ALLOWED_AFTER.get((f['nname'], norm(e.callee)))
                if allow is None:
                    from .rules import only_reached_from
                    for (fn_, callee_), v_ in ALLOWED_AFTER.items():
                        if callee_ == norm(e.callee) and only_reached_from(db, f['nname'], {fn_}):
                            allow = v_
                for tr in traces:
                    for h in _scan(f, tr, e, summ, env):
                        if allow and re.search(allow[0], (h[0].get('recv') or h[0].get('path') or '')):
                            ctx.notes.append('named exception used in %s: %s' % (f['nname'], allow[1])) if ('named exception used in %s: %s' % (f['nname'], allow[1])) not in ctx.notes else None
                            continue
                        hits.append(h)
                objs = summ.published_by(e, env)
                what = 'nothing touches %s after it is published by %s' % (objs[0][0], norm(e.callee).split('::', 1)[-1])
                if hits:
                    h = hits[0]
                    ctx.ob(rid, f, e['loc'], False, what, detail={'touch': h[1], 'at': relloc(h[0].get('loc'))},
                           desc='touch of %s after %s' % (_generic(objs[0][0]), norm(e.callee)), trace=h[2])
                else:
                    ctx.ob(rid, f, e['loc'], True, what)


def _generic(o):
    return re.sub(r'(local|param|capture):\w+', lambda m: m.group(1), o)


def _is_touch(it, obj, f, db, alias_this):
    if it.k in ('read', 'write'):
        p = it.get('path') or ''
        if p != obj and rooted(p, obj):
            return 'read/write of ' + p
        if p == obj and it.k == 'write' and not re.fullmatch(r'(local|param):\w+(#\d+)?', obj) and obj != 'this':
            return 'write of ' + p
        if alias_this and rooted(p, 'this') and p != 'this':
            return 'read/write of %s (this may be the published object)' % p
    if it.k == 'call':
        r = it.get('recv') or ''
        if is_atomic_call(it):
            return None
        if r and (rooted(r, obj)) and _is_member_call_touch(it, db):
            return 'call of %s on %s' % (norm(it.callee), r)
        if alias_this and r and rooted(r, 'this') and _is_member_call_touch(it, db):
            return 'call of %s on %s (this may be the published object)' % (norm(it.callee), r)
    if it.k == 'delete' and (it.get('path') == obj):
        return 'delete of ' + obj
    return None


def _is_member_call_touch(it, db):
    k = it.get('callee_key')
    if k:
        c = db.get(k)
        if c is not None and c.get('static'):
            return False
        if c is not None and _atomic_only(c, db):
            return False
    return True


def _atomic_only(c, db, depth=2):
    """a member function that touches its object only through atomic members (sync_awaiter::wait_sync: flag.wait) is as harmless after
    publication as the atomic operation itself"""
    for e in c.events():
        p = e.get('recv') or e.get('path') or ''
        if e.k in ('read', 'write') and (p.startswith('this->') or p.startswith('this.')):
            return False
        if e.k == 'call' and (p == 'this' or p.startswith('this->')):
            if is_atomic_call(e):
                continue
            k2 = e.get('callee_key')
            c2 = db.get(k2) if k2 else None
            if c2 is None or depth == 0 or not _atomic_only(c2, db, depth - 1):
                return False
    return True


def _scan(f, tr, trigger, summ, env):
    """touches of the published object after `trigger` on one trace; returns [(event, text, formatted trace)]"""
    out = []
    pub = None; pending = None; alias_this = False
    for i, it in enumerate(tr):
        if it.k == 'abort':
            break
        if pub is None and pending is None:
            if it.k in ('call', 'construct') and it.get('id') == trigger['id']:
                objs = summ.published_by(it, None)    # trace events already carry substituted paths
                if not objs:
                    continue
                obj, mode = objs[0]
                alias = False
                if obj != 'this' and f.get('class') and f.get('kind') in ('method', 'ctor', 'conv', 'dtor') and not f.get('static'):
                    # type-based aliasing: a published pointer to the enclosing class may be `this`
                    cls = norm(f.get('class'))
                    for a in (it.get('args') or []):
                        if strip_addr(a.get('path')) == obj and cls and norm(a.get('type') or '').replace('class ', '').replace('struct ', '').rstrip(' *&') == cls:
                            alias = True
                        elif strip_addr(a.get('path')) == obj and cls and a.get('field'):
                            # &x->member converted to a base pointer (awaiter *): the member's declared type decides
                            owner, _, fname_ = a['field'].rpartition('::')
                            for c_ in summ.db.classes.values():
                                if c_.get('inst') == owner or c_.get('name') == owner:
                                    ft = next((x for x in c_.get('fields', []) if x['name'] == fname_), None)
                                    if ft is not None and norm((ft.get('canon_type') or ft.get('type') or '').replace('class ', '').replace('struct ', '')).rstrip(' *&') == cls:
                                        alias = True
                                    break
                    if it.get('recv') and strip_addr(it.get('recv')) == obj and norm(it.get('recv_type') or '').replace('class ', '').rstrip(' *&') == cls:
                        alias = True
                if mode == 'always':
                    pub = obj; alias_this = alias
                elif mode == 'true':
                    use = it.get('use') or ''
                    if use == 'return':
                        return out
                    pending = ('cond', it.get('id'), obj, alias, use)
                elif isinstance(mode, tuple) and mode[0] == 'out':
                    args = it.get('args') or []
                    flag = args[mode[1]]['path'] if mode[1] < len(args) else None
                    pending = ('var', flag, obj, alias, '')
            continue
        if pending is not None and pub is None:
            kind, ref, obj, alias, use = pending
            if it.k == 'branch':
                if kind == 'cond' and it.cond_ev == ref:
                    if it.val:
                        pub = obj; alias_this = alias
                    else:
                        return out
                    pending = None
                    continue
                if kind == 'var' and ref and ((it.path or '') == ref or (it.path or '') == 'call(%s)' % trigger.get('callee')):
                    if it.val:
                        pub = obj; alias_this = alias
                    else:
                        return out
                    pending = None
                    continue
            if kind == 'cond' and use.startswith('init:') and it.k == 'decl':
                pending = ('var', it.get('var') if (it.get('var') or '').startswith('local:') else 'local:' + use[5:], obj, alias, '')
                continue
            if kind == 'cond' and it.k in ('read', 'write', 'call') and use in ('discard',):
                pub = obj; alias_this = alias; pending = None
            else:
                continue
        if pub is not None:
            t = _is_touch(it, pub, f, summ.db, alias_this)
            if t:
                out.append((it, t, fmt_trace(tr[max(0, i - 12):i + 1])))
                return out
    return out


def _check_primitive(ctx, db, rid, f, T):
    """inside awaiter::subscribe / subscribe_check_ready (helpers of the class expanded in place): nothing of `this` is touched once the
    CAS that installs `this` in the chain has succeeded, nor between that CAS and the test of its outcome"""
    from .rules import htracer
    from .core import tests
    traces = htracer(db).traces(f)
    ctx.paths(rid, len(traces))
    sites = {}
    for tr in traces:
        pub = False; pend = None; cur = None
        for i, it in enumerate(tr):
            if it.k == 'abort':
                break
            if it.k == 'call' and is_atomic_call(it) and 'compare_exchange' in (it.get('callee') or '') and len(it.get('args') or []) >= 2 and it['args'][1].get('path') == 'this':
                cur = it.get('loc'); sites.setdefault(cur, None)
                if (it.get('use') or '') in ('cond', 'operand', 'return') or (it.get('use') or '').startswith('init:'):
                    pend = it; pub = False
                else:
                    pub = True; pend = None
                continue
            if pend is not None and it.k == 'branch' and tests(it, pend):
                pub = bool(it.val); pend = None
                continue
            if pub or pend is not None:
                t = _is_touch(it, 'this', f, db, False)
                if t and sites.get(cur) is None:
                    sites[cur] = (it, t, fmt_trace(tr[max(0, i - 10):i + 1]))
    if not sites:
        raise Broken('anchor vanished: no compare_exchange installing this in %s' % f['nname'])
    what = 'nothing of the awaiter is touched after the CAS that publishes it succeeded'
    for loc, bad in sorted(sites.items()):
        if bad:
            ctx.ob(rid, f, loc, False, what, detail={'touch': bad[1], 'at': relloc(bad[0].get('loc'))}, desc='touch of this after publishing CAS', trace=bad[2])
        else:
            ctx.ob(rid, f, loc, True, what)
