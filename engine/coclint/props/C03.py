# C03 - cross-thread operations are data-race free and publish results safely.
# Decides three structural necessary conditions (not data-race freedom itself): R1 memory-order
# roles, R2 no touch after publish, R3 lock discipline.
from ..core import Broken
from .. import atomic, publish, locks
from .tables import GUARDED, GUARDED_CLASSES

EXPLANATION = ('Static analysis over clang CFGs of every instantiated library body. Three necessary conditions of C03 are decided, not data-race freedom '
               'itself: (R1) every atomic operation site is classified by role in an explicit table and meets the minimum memory order of its role '
               '(publish>=release, consume>=acquire, publish+consume=acq_rel/seq_cst); the refused-subscribe path acquires; (R2) after a call that publishes an '
               'awaiter to a lock-free chain no path touches it again; (R3) every access to a mutex-guarded field of queue/limited_queue/thread_pool/scheduler/'
               'publisher::queue happens under the object\'s mutex on every path from every entry point (must-lockset dataflow with interprocedural summaries). '
               'Undecided: races not implied by these three conditions, weak-memory behaviour beyond the tabled release/acquire pairs.')
ASSUMPTIONS = ['std::atomic / std::mutex behave as specified', 'user callbacks and coroutine bodies are boundaries',
               'one mutex instance per object: a lock on field M of the class is taken to protect the same object\'s guarded fields',
               'code that no driver or repository TU instantiates is not analysed (listed under coverage.uninstantiated)']


def run(ctx, db, tier):
    per_inst = tier == 'thorough'
    atomic.check_roles(ctx, db, 'C03.R1-memory-order-roles', floor=30)
    refused_subscribe_acquires(ctx, db, 'C03.R1-refused-subscribe-acquires')
    free_path_acquires_first(ctx, db, 'C03.R1-free-path-acquires-first')
    from . import C01
    C01.claim_rmw(ctx, db, 'C03.single-writer-election')
    # the payload is written before the operation that lets other threads learn 'ready' (every resolver, incl. set_exception)
    C01.resolvers(ctx, db, 'C03.payload-before-ready', 'C03.payload-before-ready-verdict')
    # the mutex's FIFO is plain memory owned by the lock holder: after the hand-over the new owner may be running on another thread
    from . import C07, C02
    C07.unlock_once(ctx, db, 'C03.fifo-untouched-after-handover')
    # ... and owned by the lock holder only: a requester (ready / try_lock / subscribe) that looked at it would read it while the owner writes it
    C07.private_fifo(ctx, db, 'C03.fifo-read-by-owner-only')
    C02.link_current(ctx, db, 'C03.chain-push-links-current-top')
    # a thread that polls through has_value() / operator bool must learn "ready" through the acquire load before it reads the state tag
    C01.has_value_agrees(ctx, db, 'C03.poller-acquires-before-reading')
    summ = publish.Summaries(db)
    publish.check_no_touch(ctx, db, 'C03.R2-no-touch-after-publish', summ, per_instance=per_inst, floor=12)
    la = locks.check_guarded(ctx, db, 'C03.R3-lock-discipline', GUARDED, GUARDED_CLASSES, per_instance=per_inst, floor=40)
    ctx.cover['publishing_functions'] = sorted(summ.publishers())


def refused_subscribe_acquires(ctx, db, rid):
    """awaiter::subscribe_check_ready: every path that returns false (the slot holds the ready marker) passes an acquire:
    an acquire fence, or the failed CAS has a failure order >= acquire"""
    from ..core import Tracer, live
    ctx.rule(rid, 'PATHS+ATOMIC', 'every path of subscribe_check_ready that refuses the registration passes through an acquire (fence, or CAS failure order >= acquire): '
             'the refused subscriber goes on to read the result')
    from ..rules import htracer, ret_const
    T = htracer(db)
    for f in db.need('cocls::awaiter::subscribe_check_ready'):
        trs = [t for t in T.traces(f) if live(t)]
        ctx.paths(rid, len(trs))
        bad = None; n = 0
        for tr in trs:
            if ret_const(tr) != 0:
                continue
            n += 1
            ok = False
            for it in tr:
                if it.k == 'call' and atomic.is_atomic_call(it):
                    op = atomic.opname(it)
                    if op == 'atomic_thread_fence' and atomic.acq(atomic.success_order(it)):
                        ok = True
                    if op.startswith('compare_exchange') and atomic.acq(atomic.failure_order(it)):
                        ok = True
            if not ok:
                bad = tr
        if n == 0:
            raise Broken('subscribe_check_ready has no path returning false: anchor changed')
        ctx.ob(rid, f, f['key'], bad is None, 'a refused registration (return false) is ordered after the resolution by an acquire',
               desc='refused subscribe without acquire')
        break


def free_path_acquires_first(ctx, db, rid):
    """a request that finds the mutex free takes it through a release-only CAS; its acquire is build_queue's exchange, so inside
    build_queue nothing of the owner-private state may be read or written before that exchange (assertions included)"""
    from ..core import Tracer, norm, fmt_trace
    ctx.rule(rid, 'ORDER+ATOMIC', 'mutex::build_queue: on every path (assertion paths included) the first access to the owner-private FIFO (_queue) comes after the exchange on _requests '
             'with order >= acquire: the requester that found the mutex free acquires the previous owner\'s writes only there')
    T = Tracer(db, depth=0, maxvisit=2)
    for f in db.need('cocls::mutex::build_queue')[:1]:
        trs = T.traces(f)
        ctx.paths(rid, len(trs))
        bad = None
        for tr in trs:
            acquired = False
            for it in tr:
                if it.k == 'call' and atomic.is_atomic_call(it) and norm(it.get('field') or '') == 'cocls::mutex::_requests' and atomic.opname(it) in ('exchange', 'load', 'compare_exchange_strong', 'compare_exchange_weak', 'fetch_add') and atomic.acq(atomic.success_order(it)):
                    acquired = True
                if it.k in ('read', 'write') and norm(it.get('field') or '') == 'cocls::mutex::_queue' and not acquired:
                    bad = bad or tr
        ctx.ob(rid, f, f['key'], bad is None, 'no access to _queue before the acquiring exchange', desc='_queue accessed in build_queue before the acquiring exchange', trace=fmt_trace(bad) if bad else None)
