# C11 - thread pool: every submission runs once on a worker or is cancelled once
import re
from ..core import Item, var_def, tests, norm, relloc, live, calls, evs, Broken, value_origin, Tracer, fmt_trace, rooted, has_back_edge, cond_event, efield
from .. import locks
from ..rules import *
from .tables import GUARDED

EXPLANATION = ('Static analysis of thread_pool: every closure handed to the task queue owns what it carries - each captured waiter (coroutine handle, awaiter, promise, async, '
               'suspend point) is held by a type whose destructor releases it (promise/async/suspend_point, or a unique_ptr whose deleter reaches coro_queue::resume), so a '
               'closure that is rejected or discarded by stop() cancels instead of forgetting; the closure bodies release their guard exactly once before resuming; enqueue '
               'pushes only on the not-stopped edge, under the lock, and always notifies a worker after a push; resume(suspend_point) loops until the suspend point is empty, '
               'one handle per iteration; stop() sets the flag and notifies all under the lock, joins no thread while holding the lock, joins exactly the other threads and '
               'detaches itself, and destroys the swapped-out tasks (which run cancellation code) outside the lock; the worker re-checks the exit flag after every wait and '
               'releases the lock around every task; all pool state is accessed under the mutex. Undecided: interleavings with the dequeue loop; that a job runs on a worker '
               'thread as an execution fact.')
ASSUMPTIONS = ['std::condition_variable / std::thread behave as specified', 'destroying a cocls::function destroys the closure it holds']

TP = 'cocls::thread_pool'
WAITER = re.compile(r'coroutine_handle|cocls::awaiter \*|awaiter \*|promise<|async<|suspend_point<|co_awaiter|unique_ptr<void|^void \*$')
OWNING = re.compile(r'promise<|async<|suspend_point<')


def run(ctx, db, tier):
    closures(ctx, db)
    enqueue(ctx, db)
    resume_all(ctx, db)
    stop(ctx, db)
    always_suspends(ctx, db)
    # co_await pool(awaitable): the pool's awaiter registers with the awaited object; a refused registration (already resolved) must
    # resume at once, so its answer has to reach the language (returned from await_suspend) or be branched on
    from . import C02
    C02.result_used(ctx, db, 'C11.refused-registration-continues', C02.SUBSCRIBE_FAMILY, floor=1, only=lambda f: f['nname'].startswith('cocls::thread_pool::'))
    worker(ctx, db)
    locks.check_guarded(ctx, db, 'C11.locks', {k: v for k, v in GUARDED.items() if k.startswith('cocls::thread_pool::')}, [TP], per_instance=False, floor=10)
    await_resume(ctx, db)
    cancel_keeps_marker(ctx, db)
    stop_visits_all(ctx, db)
    run_resolves_once(ctx, db)
    run_async_owned(ctx, db)


HANDOVER = re.compile(r'function_base|thread_pool::run_detached|thread_pool::enqueue')
_BUILTIN = re.compile(r'^(?:const |volatile )*(?:_Bool|bool|char|short|int|long|unsigned|signed|float|double|void|std::size_t|size_t|std::nullptr_t)\b[\w ]*$')


def _functor_class(db, type_):
    """the class record of a task type written as a class with a call operator (struct start_task { async<T> coro; promise<T> prom; void operator()(); })
    instead of a lambda: (record, [instances of its operator()]) or None.  Only classes of the library that have data members or a destructor of
    their own and exactly one call operator"""
    t = re.sub(r'\b(?:class|struct|const|volatile)\s+', '', type_ or '').strip().rstrip('&* ')
    n = norm(t)
    if not n or 'lambda' in n or 'anonymous' in n or n.startswith('std::') or n in ('cocls::function', 'cocls::function_base', 'function', 'q_item', 'cocls::thread_pool::q_item'):
        return None          # (cocls::function is the type-erased queue item itself, not a task)
    cache = db.__dict__.setdefault('_c11_functors', {})
    if n in cache:
        return cache[n]
    recs = [c for c in db.classes.values() if norm(c['name']) == n] or [c for c in db.classes.values() if norm(c['name']).endswith('::' + n) and norm(c['name']).startswith('cocls::')]
    names = {norm(c['name']) for c in recs}
    r = None
    if len(names) == 1:
        cn = names.pop()
        ops = db.fns(cn + '::operator()')
        if ops and len({o['key'] for o in ops}) == 1:
            # prefer the record of the instantiation the type names
            inst = [c for c in recs if re.sub(r'\b(?:class|struct)\s+', '', c.get('inst') or '').replace(' ', '') == t.replace(' ', '')] or \
                   [c for c in recs if re.sub(r'\b(?:class|struct)\s+', '', c.get('inst') or '').replace(' ', '').endswith('::' + t.replace(' ', ''))]
            r = ((inst or recs)[0], ops)
    cache[n] = r
    return r


def _functor_site(db, f, ev, type_):
    """a queue item created from a functor class at event `ev` of f, presented like the `lambda` event of a closure: the data members are its captures"""
    fc = _functor_class(db, type_)
    if fc is None:
        return None
    rec, ops = fc
    caps = []
    for fl in rec.get('fields', []):
        ct = fl.get('canon_type') or fl.get('type') or ''
        indirect = ct.rstrip().endswith(('*', '&'))
        caps.append({'name': fl.get('name'), 'type': fl.get('type'), 'canon_type': ct, 'byref': ct.rstrip().endswith('&'),
                     'trivial_dtor': bool(indirect or _BUILTIN.match(ct)), 'member': True})
    return Item(k='lambda', fn_key=ops[0]['key'], loc=ev.get('loc'), captures=caps, use=ev.get('use'), functor=norm(rec['name']), id=ev.get('id'))


def _enqueued_lambdas(db):
    """(parent fn, lambda event) for closures that become queue items; a task written as a class with a call operator (member or namespace-scope
    struct constructed where it is handed over) is reported as (parent fn, pseudo lambda event) by _functor_site"""
    cached = db.__dict__.get('_c11_tasks')
    if cached is not None:
        return cached
    out = []

    def add(f, e):
        if e is not None and not any(f is f_ and (e is e_ or (e.get('functor') and e_.get('functor') == e['functor'] and e_.get('loc') == e.get('loc'))) for f_, e_ in out):
            out.append((f, e))
    for f in db.all_instances():
        if not f['nname'].startswith(TP):
            continue
        lam = {e['fn_key']: e for e in f.events() if e.k == 'lambda'}
        for e in f.events():
            if e.k == 'lambda' and HANDOVER.search(e.get('use') or ''):
                add(f, e)
            if e.k == 'construct' and not e.get('copy_or_move') and HANDOVER.search(e.get('use') or '') and not HANDOVER.search(norm(e.get('callee') or '')):
                # enqueue(transfer_task(this)): the object is created where it is handed over
                add(f, _functor_site(db, f, e, e.get('type')))
            if e.k == 'call' and norm(e.get('callee') or '') in ('cocls::thread_pool::run_detached', 'cocls::thread_pool::enqueue'):
                for a in e.get('args') or []:
                    # a named closure: auto task = [...]{...}; run_detached(std::move(task));
                    m_ = re.fullmatch(r'(?:move|forward)?\(?local:(\w+)\)?', a.get('path') or '')
                    if m_:
                        d_ = var_def(f, m_.group(1), e.get('loc'))
                        ini = (d_ or {}).get('init') or ''
                        if ini.startswith('lambda@') and ini[7:] in lam:
                            add(f, lam[ini[7:]])
                        elif d_ is not None and not (d_.get('ref') or d_.get('ptr')) and _functor_class(db, d_.get('type')):
                            add(f, _functor_site(db, f, d_, d_.get('type')))
                    elif re.fullmatch(r'\{.*,.*\}', a.get('path') or '') or (a.get('path') or '') == '{...}' or re.fullmatch(r'\{[^{}]+\}', a.get('path') or ''):
                        # run_detached(start_task<T>{std::move(fn), std::move(promise)}): an aggregate built in the argument
                        add(f, _functor_site(db, f, e, a.get('type')))
    db.__dict__['_c11_tasks'] = out
    return out


def _guard_class(db, site, cap):
    """a task class that guards a raw waiter pointer itself (the hand-written form of unique_ptr + deleter): its destructor reaches
    coro_queue::resume / awaiter::resume, resumes only where the pointer member tested non-null, and moving the task nulls the source (so exactly one
    object is armed).  Returns a description, or None"""
    cn = site.get('functor')
    if not cn or not cap.get('member') or not (cap.get('canon_type') or '').rstrip().endswith('*'):
        return None
    dts = db.fns(cn + '::~' + cn.split('::')[-1])
    if not dts:
        return None
    fns, ext, _ = reach(db, dts[:1])
    if not any(g['nname'] in ('cocls::coro_queue::resume', 'cocls::awaiter::resume') for g in fns):
        return None
    member = 'this->' + cap['name']
    H = htracer(db)
    nres = 0
    for tr in H.traces(dts[0]):
        if not live(tr):
            continue
        for i, it in enumerate(tr):
            if it.k == 'call' and norm(it.get('callee') or '') in ('cocls::coro_queue::resume', 'cocls::awaiter::resume') and it.get('depth', 0) == 0:
                nres += 1
                armed = None
                for j in range(i):
                    nt = null_test(tr, j) if tr[j].k == 'branch' else None
                    if nt and nt[0] == member:
                        armed = nt[1]
                if armed is not True:
                    return None
    if nres == 0:
        return None
    # copies: every constructor from an object of the same class must disarm its source; an implicitly copyable guard resumes twice
    ctors = [g for g in db.fns(cn + '::' + cn.split('::')[-1]) if len(g['params']) == 1 and norm(re.sub(r'\b(?:class|struct|const)\s+', '', g['params'][0].get('type') or '')).rstrip('&* ').endswith(cn.split('::')[-1])]
    if not ctors:
        return None
    for g in ctors:
        src = 'param:' + g['params'][0]['name']
        if '&&' not in (g['params'][0].get('type') or '') or not any(null_store(x, '.' + cap['name']) or null_store(x, '->' + cap['name']) for x in g.events()
                                                                      if src in ((x.get('path') or '') + (x.get('recv') or '') + ''.join(a.get('path') or '' for a in x.get('args') or []))):
            return None
    return 'pointer guarded by the task class itself: its destructor resumes the waiter while armed, a move disarms the source'


def _lamdefs(db, f):
    """the lambda definitions visible from f: its own and those of the functions it is a closure of (the enqueuing code may itself be a closure of
    the function that defines the deleter: a helper lambda extracted from a loop body)"""
    lamdefs = {x['fn_key']: x for x in f.events() if x.k == 'lambda'}
    g_ = f
    for _ in range(3):
        g_ = db.get(g_.get('parent_key')) if g_ is not None and g_.get('lambda') and g_.get('parent_key') else None
        if g_ is None:
            break
        for x in g_.events():
            if x.k == 'lambda':
                lamdefs.setdefault(x['fn_key'], x)
    return lamdefs


def _deleter_of(db, f, c, lamdefs):
    """the body of the deleter of a unique_ptr capture c of a closure created in f: a lambda defined in the same function and named in the type,
    or the call operator of a named deleter class"""
    t = (c.get('type') or '') + ' | ' + (c.get('canon_type') or '')
    dl = None
    for k, x in lamdefs.items():
        m = re.search(r':(\d+):\d+$', k)
        if m and re.search(r'lambda at [^)]*:%s:' % m.group(1), t):
            dl = db.get(k)
    if dl is None:
        for k, x in lamdefs.items():
            if (x.get('use') or '').startswith('init:') and re.search(r'decltype\(%s\)' % re.escape((x.get('use') or '')[5:]), t):
                dl = db.get(k)
    if dl is None:
        # a named deleter class: unique_ptr<X, cocls::...::deleter>
        m2 = re.search(r'unique_ptr<[^,]+,\s*(?:struct |class )?([\w:]+(?:<[^<>]*>)?(?:::\w+)*)\s*>', c.get('canon_type') or c.get('type') or '')
        if m2 and 'lambda' not in m2.group(1):
            dfs = db.fns(norm(m2.group(1)) + '::operator()')
            if not dfs and '::' not in m2.group(1):
                # a class local to the enqueuing function: its members are named <function>(<params>)::<class>::operator()
                dfs = [g for g in db.all_instances() if g['nname'].startswith(f['nname'] + '(') and g['nname'].endswith(')::' + m2.group(1) + '::operator()')]
            dl = dfs[0] if dfs else None
    return dl


def closures(ctx, db, rid_='C11.closure-owns-waiter', rid2_='C11.run-once'):
    rid = ctx.rule(rid_, 'WHO/TYPE', 'every closure handed to thread_pool::enqueue / run_detached: each capture whose type carries a waiter is an owning type whose destructor '
                   'releases it: promise, async, suspend_point, or unique_ptr whose deleter reaches coro_queue::resume / awaiter::resume. A trivially destructible capture of a '
                   'waiter is a submission that can be forgotten', floor=4)
    rid2 = ctx.rule(rid2_, 'COUNT', 'a closure that guards its waiter by unique_ptr releases the guard exactly once and resumes exactly once on every path of its body (never both run '
                    'and cancelled)', floor=2)
    sites = _enqueued_lambdas(db)
    if len(sites) < 3:
        raise Broken('closures handed to the task queue not found (have %d)' % len(sites))
    seen = set()
    T = Tracer(db, depth=0)
    for f, e in sites:
        lamdefs = {x['fn_key']: x for x in f.events() if x.k == 'lambda'}
        # the enqueuing code may itself be a closure of the function that defines the deleter (a helper lambda extracted from a loop body)
        g_ = f
        for _ in range(3):
            g_ = db.get(g_.get('parent_key')) if g_ is not None and g_.get('lambda') and g_.get('parent_key') else None
            if g_ is None:
                break
            for x in g_.events():
                if x.k == 'lambda':
                    lamdefs.setdefault(x['fn_key'], x)
        guarded = None
        for c in e.get('captures', []):
            t = (c.get('type') or '') + ' | ' + (c.get('canon_type') or '')
            if not WAITER.search(t):
                continue
            site = (f['key'], e['loc'], c.get('name'))
            owning = None
            if OWNING.search(c.get('canon_type') or c.get('type') or '') and not c.get('trivial_dtor') and not c.get('byref'):
                owning = 'owning value (destructor cancels / destroys)'
            elif _guard_class(db, e, c):
                owning = 'raw ' + _guard_class(db, e, c)
                guarded = c
            elif 'unique_ptr' in t and not c.get('trivial_dtor'):
                dl = _deleter_of(db, f, c, lamdefs)
                if dl is not None:
                    fns, ext, _ = reach(db, [dl])
                    if any(g['nname'] in ('cocls::coro_queue::resume', 'cocls::awaiter::resume') for g in fns):
                        owning = 'unique_ptr whose deleter resumes the waiter'
                    else:
                        owning = None
            if site in seen and owning:
                continue
            seen.add(site)
            ctx.ob(rid, f, e['loc'], owning is not None, 'capture %s : %s of the closure enqueued by %s is %s' % (c.get('name'), (c.get('type') or '')[:60], f['nname'].split('::')[-1][:30], owning or 'NOT owning: forgotten when the pool is stopped'),
                   desc='closure in %s captures waiter %s without owning it' % (norm(f['nname'])[:60], c.get('name')))
        # body: unique_ptr guards released once and resumed once
        lf = db.get(e['fn_key'])
        if lf is not None and (guarded is not None or any('unique_ptr' in (c.get('type') or '') + (c.get('canon_type') or '') for c in e.get('captures', []))):
            trs = [t for t in htracer(db).traces(lf) if live(t)]
            ctx.paths(rid2, len(trs))
            bad = None
            for tr in trs:
                rel = all_indices(tr, lambda ev: ev.k == 'call' and norm(ev.get('callee')) == 'std::unique_ptr::release')
                if guarded is not None:
                    # the hand-written guard is released by storing null into the pointer its destructor tests
                    rel += all_indices(tr, lambda ev: ev.get('depth', 0) == 0 and null_store(ev, 'this->' + guarded['name']))
                    rel.sort()
                res = all_indices(tr, callee_is('cocls::coro_queue::resume'))
                if len(rel) != 1 or len(res) != 1:
                    bad = bad or ('release %d times, resume %d times' % (len(rel), len(res)), tr)
                elif rel[0] > res[0] and (tr[rel[0]].get('use') or '').find('from_address') < 0:
                    bad = bad or ('the coroutine is resumed while the guard is still armed (it would be resumed again by the deleter)', tr)
            k2 = (lf['key'],)
            if k2 in seen and not bad:
                continue
            seen.add(k2)
            ctx.ob(rid2, lf, lf['key'], bad is None, 'guard released once, waiter resumed once' + ('' if not bad else ' -- ' + bad[0]), desc=bad[0] if bad else None)


def enqueue(ctx, db, rid_='C11.enqueue'):
    rid = ctx.rule(rid_, 'GUARDED+COUNT', 'thread_pool::enqueue: the task is pushed only on the edge where the exit flag is false, and every path that pushed notifies a worker '
                   'unconditionally (a conditional notify loses a wake-up when two submissions arrive back to back); the rejected task is left to the caller (not destroyed under the lock)', floor=1)
    for f, trs in traces_of(db, 'cocls::thread_pool::enqueue', depth=0, per_instance=False):
        trs = [t for t in trs if live(t)]
        ctx.paths(rid, len(trs))
        bad = None; npush = nrej = 0
        for tr in trs:
            stopped = None
            for it in tr:
                if it.k == 'branch' and (it.path or '') == 'this->_exit':
                    stopped = bool(it.val)
            push = all_indices(tr, lambda ev: ev.k == 'call' and norm(ev.get('field') or '') == 'cocls::thread_pool::_queue' and norm(ev.get('callee')).split('::')[-1] in ('push', 'emplace'))
            ntf = all_indices(tr, lambda ev: ev.k == 'call' and norm(ev.get('callee')) in ('std::condition_variable::notify_one', 'std::condition_variable::notify_all'))
            if push:
                npush += 1
                if stopped is not False:
                    bad = bad or ('a task is queued on a path that did not see the pool running (it would never run nor be cancelled)', tr)
                if len(push) != 1:
                    bad = bad or ('the task is pushed %d times' % len(push), tr)
                if not [n for n in ntf if n > push[0]]:
                    bad = bad or ('a path pushes a task without notifying a worker', tr)
                else:
                    between = [it for it in tr[push[0]:[n for n in ntf if n > push[0]][0]] if it.k == 'branch']
                    if between:
                        bad = bad or ('the notification after a push is conditional', tr)
            else:
                nrej += 1
                if stopped is not True:
                    bad = bad or ('a task is dropped although the pool is running', tr)
        if not bad and (npush == 0 or nrej == 0):
            bad = ('enqueue lost its accept/reject outcomes', trs[0] if trs else [])
        ctx.ob(rid, f, f['key'], bad is None, 'push iff running, notify after push' + ('' if not bad else ' -- ' + bad[0]), desc=bad[0] if bad else None, trace=fmt_trace(bad[1]) if bad else None)
        ok = any('&&' in p['type'] for p in f['params'])
        ctx.ob(rid, f, f['key'], ok, 'the task is taken by rvalue reference: a rejected task stays with the caller and is destroyed after enqueue returned (lock released)', desc='enqueue takes the task by value')


def resume_all(ctx, db):
    rid = ctx.rule('C11.resume-all', 'PATHS+COUNT', 'thread_pool::resume(suspend_point&): the loop exits only when the suspend point reports empty, and each iteration pops exactly one handle '
                   'and enqueues exactly one closure (no handle is left to be resumed on the caller\'s thread)', floor=1)
    fns = [f for f in db.fns('cocls::thread_pool::resume') if any('&&' not in p['type'] for p in f['params'])]
    if not fns:
        raise Broken('anchor vanished: thread_pool::resume(suspend_point&)')
    T = htracer(db, maxvisit=3)
    seen = set()
    for f in fns:
        if not has_back_edge(f):
            continue
        trs = [t for t in T.traces(f) if live(t)]
        ctx.paths(rid, len(trs))
        bad = None
        for tr in trs:
            # the drain as a sequence of emptiness tests: every "not empty" answer is followed by exactly one pop and one enqueue before the
            # next test; the function is left only after a test that answered "empty" (any loop form: while, do-while behind an if, for(;;)+break)
            empties = [it for it in tr if it.k == 'call' and norm(it.get('callee') or '') == 'cocls::suspend_point::empty' and (it.get('recv') or '').startswith('param:')]
            state = None      # None: nothing known, False: tested not empty (one handle may be taken), True: tested empty
            npop = nenq = 0
            def close_iteration(notempty):
                if notempty and (npop, nenq) != (1, 1):
                    return 'an iteration pops %d and enqueues %d' % (npop, nenq)
                if not notempty and (npop or nenq):
                    return 'a handle is taken although the suspend point was not known to be non-empty'
                return None
            for it in tr:
                if it.k == 'branch' and any(tests(it, e_) for e_ in empties):
                    nt = nullness(it)
                    # branch value refers to empty(): True = empty
                    val = bool(it.val)
                    if state is not None:
                        msg = close_iteration(state is False)
                        if msg:
                            bad = bad or (msg, tr)
                    npop = nenq = 0
                    state = val
                elif it.k == 'call' and norm(it.get('callee')) == 'cocls::suspend_point::pop' and norm(it.get('fname') or '').startswith('cocls::thread_pool'):
                    npop += 1
                elif it.k == 'call' and norm(it.get('callee')) in ('cocls::thread_pool::enqueue', 'cocls::thread_pool::run_detached') and norm(it.get('fname') or '').startswith('cocls::thread_pool'):
                    nenq += 1
            if state is None:
                bad = bad or ('the suspend point is never tested for emptiness', tr)
            elif state is not True:
                bad = bad or ('the loop can exit while the suspend point is not known to be empty (remaining coroutines run on the caller\'s thread)', tr)
            elif npop or nenq:
                bad = bad or ('a handle is taken after the suspend point tested empty', tr)
        if f['key'] in seen and not bad:
            continue
        seen.add(f['key'])
        ctx.ob(rid, f, f['key'], bad is None, 'drain the suspend point completely, one handle per closure' + ('' if not bad else ' -- ' + bad[0]), desc=bad[0] if bad else None, trace=fmt_trace(bad[1]) if bad else None)


def stop(ctx, db, rid='C11.stop'):
    rid = ctx.rule(rid, 'LOCKSET+COUNT', 'thread_pool::stop (helpers of the class expanded in place): on every path the exit flag is set to true exactly once and all workers are notified '
                   'while the lock is held; no join() while the lock is held; each thread is joined on the edge where it is not the calling thread and detached (with the current-pool marker '
                   'reset, and only there) otherwise; the tasks swapped out of the queue are a local of stop() that is destroyed - which runs their cancellation code - after the lock has been released', floor=1)
    Qf = 'cocls::thread_pool::_queue'
    for f, trs in traces_of(db, 'cocls::thread_pool::stop', depth=0, per_instance=False, maxvisit=2):
        trs = [t for t in trs if live(t)]
        ctx.paths(rid, len(trs))
        bad = None
        for tr in trs:
            ls = trace_lockset(tr)
            w = [i for i, it in enumerate(tr) if it.k == 'write' and field_of(it) == 'cocls::thread_pool::_exit']
            if len(w) != 1 or tr[w[0]].get('const') != 1 or not ls[w[0]]:
                bad = bad or ('the exit flag is not set to true exactly once under the lock', tr)
            ntf = [i for i, it in enumerate(tr) if it.k == 'call' and norm(it.get('callee')) == 'std::condition_variable::notify_all']
            if not ntf or not all(ls[i] for i in ntf) or (w and ntf[0] < w[0]):
                bad = bad or ('workers are not all notified under the lock after the flag was set (notify_one / outside the lock loses sleeping workers)', tr)
            for i, it in enumerate(tr):
                if it.k == 'call' and norm(it.get('callee')) == 'std::thread::join' and ls[i]:
                    bad = bad or ('join() while holding the pool mutex: the worker needs it to leave its loop', tr)
            # the swapped-out queue
            def swap_operands(it):
                # std::swap(q, _queue) / q.swap(_queue) / _queue.swap(q)
                if it.k != 'call':
                    return None
                c_ = norm(it.get('callee') or '')
                if c_ == 'std::swap':
                    ops = [(a.get('path'), norm(a.get('field') or '')) for a in it.get('args', [])]
                elif c_.endswith('::swap') and it.get('recv') and len(it.get('args') or []) == 1:
                    ops = [(it.get('recv'), norm(it.get('field') or '')), (it['args'][0].get('path'), norm(it['args'][0].get('field') or ''))]
                else:
                    return None
                return ops if any(fl == Qf for _, fl in ops) else None
            sw = [i for i, it in enumerate(tr) if swap_operands(it)]
            if len(sw) != 1:
                bad = bad or ('the pending tasks are not swapped out of the queue exactly once', tr)
            else:
                loc = next((p_ for p_, _ in swap_operands(tr[sw[0]]) if re.fullmatch(r'local:\w+', p_ or '')), None)
                if not ls[sw[0]]:
                    bad = bad or ('the queue is swapped out without the lock', tr)
                d = [i for i, it in enumerate(tr) if it.k == 'dtor' and loc and it.get('var') == loc.split(':')[1] and it.get('depth', 0) == 0]
                if not d:
                    bad = bad or ('the swapped-out tasks are not a local of stop()', tr)
                elif any(ls[i] for i in d):
                    bad = bad or ('the swapped-out tasks are destroyed while the pool mutex is held (their cancellation code may call back into the pool)', tr)
            for i, it in enumerate(tr):
                if it.k == 'call' and norm(it.get('callee')) in ('std::thread::join', 'std::thread::detach'):
                    same = None
                    for b in reversed(tr[:i]):
                        if b.k == 'branch' and ('get_id' in (b.path or '') or 'operator==' in (b.path or '')):
                            same = bool(b.val) if '!=' not in (b.path or '') else (not b.val)
                            break
                    if norm(it.get('callee')) == 'std::thread::join' and same is not False:
                        bad = bad or ('a thread is joined on a path that did not establish it is another thread (self-join deadlocks)', tr)
                    if norm(it.get('callee')) == 'std::thread::detach':
                        if same is not True:
                            bad = bad or ('a thread other than the caller is detached instead of joined', tr)
                        if not any(x.k == 'write' and 'thread_pool::_current' in (x.get('path') or '') and x.get('const') == 0 for x in tr[i:]):
                            bad = bad or ('the calling worker does not reset its current-pool marker', tr)
            # the marker belongs to the calling thread: it is reset only by a worker of THIS pool, i.e. on a path that detached the caller
            for i, it in enumerate(tr):
                if it.k == 'write' and 'thread_pool::_current' in (it.get('path') or ''):
                    if not any(x.k == 'call' and norm(x.get('callee')) == 'std::thread::detach' for x in tr[:i]):
                        bad = bad or ('the current-pool marker of the calling thread is reset on a path where the caller is not one of this pool\'s workers (a worker of another pool would silently leave its pool)', tr)
        ctx.ob(rid, f, f['key'], bad is None, 'flag+notify_all under lock, join others outside the lock, detach self, tasks destroyed outside the lock' + ('' if not bad else ' -- ' + bad[0]),
               desc=(bad[0][:110] if bad else None), trace=fmt_trace(bad[1]) if bad and bad[1] else None)


def worker(ctx, db):
    rid = ctx.rule('C11.worker', 'LOCKSET+ORDER', 'thread_pool::worker: after every wait the exit flag is tested before a task is taken; the task is removed from the queue before it is run; '
                   'the lock is released while the task runs and re-taken afterwards', floor=1)
    for f, trs in traces_of(db, 'cocls::thread_pool::worker', depth=0, per_instance=False, maxvisit=2):
        trs = [t for t in trs]
        ctx.paths(rid, len(trs))
        bad = None
        for tr in trs:
            ls = trace_lockset(tr)
            for i, it in enumerate(tr):
                if it.k == 'call' and norm(it.get('field') or '') == 'cocls::thread_pool::_queue' and norm(it.get('callee')).split('::')[-1] == 'front':
                    seg = []
                    for b in reversed(tr[:i]):
                        if b.k == 'call' and norm(b.get('callee') or '').startswith('std::condition_variable::wait'):
                            break
                        seg.append(b)
                    if not any(b.k == 'branch' and nullness(b) and nullness(b)[0] == 'this->_exit' and nullness(b)[1] is False for b in seg):
                        bad = bad or ('a task is taken after a wait without re-checking the exit flag', tr)
                if it.k == 'call' and (it.get('recv') or '').startswith('local:') and norm(it.get('callee') or '').endswith('operator()') and 'function' in norm(it.get('callee') or ''):
                    if ls[i]:
                        bad = bad or ('a task runs while the pool mutex is held', tr)
                    if not any(x.k == 'call' and norm(x.get('field') or '') == 'cocls::thread_pool::_queue' and norm(x.get('callee')).split('::')[-1] == 'pop' for x in tr[:i]):
                        bad = bad or ('a task runs before it was removed from the queue (it would run twice)', tr)
        # the task may have destroyed the pool (stop()/~thread_pool from a worker resets the thread's marker): after a task returns, the marker
        # is tested before anything of the pool - its mutex included - is touched again
        for tr in trs:
            run_i = [i for i, it in enumerate(tr) if it.k == 'call' and (it.get('recv') or '').startswith('local:') and norm(it.get('callee') or '').endswith('operator()') and 'function' in norm(it.get('callee') or '')]
            for i in run_i:
                for x in tr[i + 1:]:
                    if x.k == 'branch' and 'thread_pool::_current' in (x.get('path') or ''):
                        break
                    touch = (x.k in ('read', 'write') and (x.get('path') or '').startswith('this->')) or \
                            (x.k == 'call' and ((x.get('recv') or '').startswith('this') or norm(x.get('callee') or '') in ('std::unique_lock::lock', 'std::mutex::lock')))
                    if touch:
                        bad = bad or ('after a task returned the pool is touched (%s) before the current-pool marker was tested: the task may have destroyed the pool' % (norm(x.get('callee') or '') or x.get('path')), tr)
                        break
        ctx.ob(rid, f, f['key'], bad is None, 'exit re-checked, pop before run, run unlocked, marker tested before the pool is touched again' + ('' if not bad else ' -- ' + bad[0]), desc=bad[0] if bad else None, trace=fmt_trace(bad[1]) if bad else None)


def await_resume(ctx, db):
    rid = ctx.rule('C11.cancel-observable', 'PATHS', 'thread_pool::co_awaiter::await_resume throws await_canceled_exception exactly on the edge where the handle is still set (the coroutine was '
                   'resumed by the deleter, not by a worker); the closure clears the handle before it resumes on a worker', floor=2)
    for f, trs in traces_of(db, 'cocls::thread_pool::co_awaiter::await_resume', depth=0, per_instance=False):
        ctx.paths(rid, len(trs))
        bad = None; nthrow = nok = 0
        for tr in trs:
            still = None
            for it in tr:
                if it.k == 'branch' and ('_h' in (it.path or '') or 'coroutine_handle::operator bool' in (it.path or '')):
                    still = bool(it.val)
            thr = [it for it in tr if it.k == 'throw']
            if still is True:
                nthrow += 1
                if not thr or 'await_canceled_exception' not in (thr[-1].get('type') or ''):
                    bad = bad or ('a cancelled submission resumes without await_canceled_exception', tr)
            elif still is False:
                nok += 1
                if thr:
                    bad = bad or ('a submission that ran on a worker throws', tr)
        if not bad and (nthrow == 0 or nok == 0):
            bad = ('await_resume lost its outcomes', [])
        ctx.ob(rid, f, f['key'], bad is None, 'throws iff cancelled' + ('' if not bad else ' -- ' + bad[0]), desc=bad[0] if bad else None)
    # the closure that runs on a worker (the one handed to enqueue): on every path the awaiter's handle is cleared before the coroutine is resumed
    H = htracer(db)
    enq = {e['fn_key'] for _, e in _enqueued_lambdas(db)}
    n = 0
    cands = [lf for g_ in db.fns('cocls::thread_pool::co_awaiter::await_suspend')[:1] for h_ in helper_bodies(db, g_) for e_ in h_.events() if e_.k == 'lambda' for lf in db.closure_instances(h_, e_['fn_key'])]
    # (the queue item may be an object of a task class with a call operator, created in await_suspend or a helper of it)
    cands += [lf for g_ in db.fns('cocls::thread_pool::co_awaiter::await_suspend')[:1] for h_ in helper_bodies(db, g_) for f_, e_ in _enqueued_lambdas(db)
              if e_.get('functor') and f_['key'] == h_['key'] for lf in db.instances(e_['fn_key'])[:1]]
    for lf in cands or lambdas_of(db, 'cocls::thread_pool::co_awaiter::await_suspend'):
        if lf['key'] not in enq:
            continue          # the deleter lambda / other helpers
        n += 1
        bad = None
        trs = [t for t in H.traces(lf) if live(t)]
        ctx.paths(rid, len(trs))
        for tr in trs:
            def clears(e):
                if e.k == 'write' and (e.get('path') or '').endswith('->_h') and (e.get('const') == 0 or (e.get('rhs') or '') in NULLS):
                    return True
                if e.k == 'call' and norm(e.get('callee') or '').endswith('operator=') and (e.get('recv') or '').endswith('->_h') and ((e.get('args') or [{}])[0].get('path') or '') in NULLS:
                    return True
                return e.k == 'call' and norm(e.get('callee') or '') == 'std::exchange' and ((e.get('args') or [{}])[0].get('path') or '').endswith('->_h') and len(e['args']) > 1 and (e['args'][1].get('path') or '') in NULLS
            w = index_of(tr, clears)
            r = index_of(tr, callee_is('cocls::coro_queue::resume'))
            if r < 0 or not (0 <= w < r):
                bad = bad or tr
        ctx.ob(rid, lf, lf['key'], bad is None and bool(trs), 'the closure clears the awaiter\'s handle before resuming on the worker', desc='closure resumes before clearing the cancelled marker', trace=fmt_trace(bad) if bad else None)
    if n == 0:
        raise Broken('the closure enqueued by thread_pool::co_awaiter::await_suspend was not found')


def run_resolves_once(ctx, db):
    rid = ctx.rule('C11.run-resolves-once', 'COUNT', 'the closure enqueued by thread_pool::run(fn) resolves its promise exactly once on the normal path (with the result / void) and exactly once with '
                   'current_exception() on every exception edge from the call of the user function; a catch-all exists (an escaping exception would terminate the worker and leave the '
                   'future pending)', floor=1)
    PROM = ('cocls::promise::operator()', 'cocls::promise::set_value', 'cocls::promise::set_exception')
    cands = []
    H = htracer(db)
    enq_keys = {e['fn_key'] for _, e in _enqueued_lambdas(db)}
    # (a task class with a call operator that run() hands to the queue is the same queue item as the closure)
    functor_keys = {e['fn_key'] for pf, e in _enqueued_lambdas(db) if e.get('functor') and pf['nname'].startswith('cocls::thread_pool::run')}
    for f in db.all_instances():
        if ((f.get('lambda') and f['nname'].startswith('cocls::thread_pool::run') and f['key'] in enq_keys) or f['key'] in functor_keys) and \
                not any(e.k == 'call' and norm(e.get('callee') or '').startswith('cocls::async::') for e in f.events()):
            # the queue item of run(fn): the enqueued closure that calls the user function and - itself or through a helper of the pool - resolves the promise
            if any(e.k == 'call' and norm(e.get('callee')) in PROM for e in f.events()) or any(it.k == 'call' and norm(it.get('callee')) in PROM for tr in H.traces(f) for it in tr):
                cands.append(f)
    if not cands:
        raise Broken('closure of thread_pool::run(fn) not found')

    def may_throw(ev):
        return ev.k == 'call' and not ev.get('nothrow') and norm(ev.get('callee') or '') not in PROM + ('std::get', 'std::move', 'std::forward') and ev.get('try') is not None
    T = htracer(db, exc=may_throw)
    seen_bad = None
    for f in cands:
        trs_ = T.traces(f)
        bodies = {f['key']} | {it.get('fn') for tr in trs_ for it in tr if it.get('fn')}
        if not any((b.get('label') or {}).get('kind') == 'catch' and b['label'].get('type') == '...' for k_ in bodies for g in [db.get(k_)] if g is not None for b in g['blocks']):
            seen_bad = seen_bad or (f, 'no catch(...) in the task closure'); continue
        nexc = 0
        for tr in trs_:
            if not live(tr):
                continue
            pc = [c for c in calls(tr) if norm(c.get('callee')) in PROM]
            exc = any(it.k == 'exception' for it in tr)
            nexc += exc
            if len(pc) != 1:
                seen_bad = seen_bad or (f, 'the promise is resolved %d times on a %s path' % (len(pc), 'exception' if exc else 'normal'))
            elif exc and not any('current_exception' in (a.get('path') or '') for a in pc[0].get('args', [])):
                seen_bad = seen_bad or (f, 'the exception is not delivered to the future')
        if nexc == 0:
            seen_bad = seen_bad or (f, 'no exception edge reaches the handler')
    f0 = cands[0]
    ctx.ob(rid, f0, f0['key'], seen_bad is None, 'run(fn) closure resolves exactly once per outcome (%d instantiations)' % len(cands) + ('' if not seen_bad else ' -- ' + seen_bad[1]),
           desc=seen_bad[1] if seen_bad else None, inst=seen_bad[0]['inst'] if seen_bad else None)


def run_async_owned(ctx, db):
    """run(async&): the queue item owns the unstarted coroutine and the promise; it is the item that starts the coroutine.  If the submitting
    thread starts it and queues only the resulting handle, a stopped pool does not cancel the submission: the item\'s drop handler resumes
    the handle inline on the thread that destroys the queue"""
    rid = ctx.rule('C11.run-async-owned', 'WHO', 'thread_pool::run(async&): every start of the submitted coroutine (async::start / start_promise / detach) happens inside a closure that is handed to '
                   'run_detached / enqueue (the owning queue item), never in the submitting thread', floor=1)
    enq = {e['fn_key'] for _, e in _enqueued_lambdas(db)}
    roots = [f for f in db.fns('cocls::thread_pool::run') if f['params'] and 'async<' in f['params'][0]['type']]
    if not roots:
        raise Broken('thread_pool::run(async&) not instantiated')
    n = 0; seen = set()
    for r in roots:
        work = [(r, False)]
        while work:
            g, owned = work.pop()
            owned = owned or g['key'] in enq
            for e in g.events():
                if e.k == 'call' and norm(e.get('callee') or '') in ('cocls::async::start', 'cocls::async::start_promise', 'cocls::async::detach', 'cocls::async::start_coro'):
                    k = (g['key'], e['loc'])
                    if k in seen:
                        continue
                    seen.add(k); n += 1
                    ctx.ob(rid, g, e['loc'], owned, 'the submitted coroutine is started by the queue item that owns it', desc='run(async) starts the coroutine outside the owning queue item')
                if e.k == 'lambda':
                    for lf in db.closure_instances(g, e['fn_key']):
                        work.append((lf, owned))
            # queue items created here from a task class with a call operator: their body is the owning item
            for pf, e in _enqueued_lambdas(db):
                if e.get('functor') and pf is g:
                    ops = [o for o in db.instances(e['fn_key']) if any('async<' in (c.get('canon_type') or '') for c in e.get('captures', []))]
                    # (the instantiation whose members match the coroutine type of this run(); one representative per pattern in the quick tier)
                    rt = re.search(r'async<(.*)>', r['params'][0]['type'])
                    ops = [o for o in ops if rt and ('<%s>' % rt.group(1)) in re.sub(r'\b(?:class|struct) ', '', o.get('class_inst') or o.get('inst') or '')] or ops[:1]
                    for o in ops:
                        work.append((o, True))
    if n == 0:
        raise Broken('thread_pool::run(async&) never starts the coroutine: anchor changed')


def always_suspends(ctx, db):
    """co_await pool: the queue item built in await_suspend owns the awaiter and continues the coroutine exactly once whatever happens to it
    (run by a worker, or destroyed by a stopped pool).  So await_suspend itself must always suspend: an answer "do not suspend" lets the
    coroutine run on while the item - refused, dropped or still queued - continues it a second time"""
    rid = ctx.rule('C11.pool-awaiter-always-suspends', 'PATHS', 'thread_pool::co_awaiter::await_suspend hands the coroutine to a queue item on every path and answers "suspended" unconditionally '
                   '(void, or constant true): the item is the only continuation of the coroutine', floor=1)
    T = htracer(db)
    seen = set()
    for f in db.need('cocls::thread_pool::co_awaiter::await_suspend'):
        if f['key'] in seen:
            continue
        seen.add(f['key'])
        trs = [t for t in T.traces(f) if live(t)]
        ctx.paths(rid, len(trs))
        bad = None
        for tr in trs:
            enq = [c for c in calls(tr) if norm(c.get('callee')) in ('cocls::thread_pool::enqueue', 'cocls::thread_pool::run_detached') and c.get('depth', 0) == 0]
            ret = [it for it in tr if it.k == 'return' and it.get('depth', 0) == 0 and it.get('path')]
            if len(enq) != 1:
                bad = bad or ('the coroutine is handed to the pool %d times' % len(enq), tr)
            elif ret and ret_const(tr) != 1:
                bad = bad or ('await_suspend answers %s: when it says "not suspended" the coroutine continues while the queue item built for it resumes it again' % (ret_expr(tr) or ret_const(tr)), tr)
        ctx.ob(rid, f, f['key'], bad is None and bool(trs), 'co_await pool always suspends; the queue item continues the coroutine' + ('' if not bad else ' -- ' + bad[0]), desc=bad[0] if bad else None,
               trace=fmt_trace(bad[1]) if bad else None)


def _modifies(it, fields):
    """does trace item `it` change the value of one of the members `fields` (qualified names): assignment, assignment operator, or the object handed
    to a standard function that replaces it (exchange / swap), reset()/clear() on it"""
    if it.k == 'write' and field_of(it) in fields:
        return True
    if it.k == 'call':
        c = norm(it.get('callee') or '')
        if field_of(it) in fields and (c.endswith('operator=') or c.split('::')[-1] in ('reset', 'clear', 'swap')):
            return True
        if c in ('std::exchange', 'std::swap', 'std::__exchange') and any(norm(a.get('field') or '') in fields for a in (it.get('args') or [])[:2 if c == 'std::swap' else 1]):
            return True
    return False


def cancel_keeps_marker(ctx, db):
    """co_await pool: whether the submission ran on a worker or was cancelled is told to await_resume by the state of members of the awaiter (the
    handle still being set).  The cancellation code - the deleter of the guard held by the queue item, or the destructor of a task class that guards
    the awaiter itself - resumes the coroutine and therefore must leave every member that await_resume decides on untouched: a cancel path that
    changes the marker (before the resume: the cancellation is reported as success; after it: the awaiter may be gone) is not observable"""
    rid = ctx.rule('C11.cancel-keeps-marker', 'PATHS', 'thread_pool::co_awaiter: the members of the awaiter that await_resume branches on to tell "cancelled" from "ran on a worker" are modified '
                   'on no path of the cancellation code of the queue item (the deleter of its guard / the destructor of a guarding task class, helpers expanded): only the closure body that runs '
                   'on a worker clears the marker', floor=1)
    H = htracer(db)
    CLS = 'cocls::thread_pool::co_awaiter::'
    # the marker: members of the awaiter whose value decides a branch of await_resume
    marker = set()
    for f in db.need('cocls::thread_pool::co_awaiter::await_resume')[:1]:
        for tr in H.traces(f):
            byid = {}
            for it in tr:
                if it.get('id') is not None:
                    byid[(it.get('fn'), it.get('id'))] = it
                if it.k == 'branch':
                    ce = byid.get((it.get('fn'), it.get('cond_ev'))) or byid.get((None, it.get('cond_ev')))
                    srcs = [ce] if ce is not None else []
                    if ce is not None:
                        srcs += [{'field': a.get('field')} for a in ce.get('args') or []]
                    for x in srcs:
                        fl = norm(x.get('lfield') or x.get('field') or '')
                        if fl.startswith(CLS):
                            marker.add(fl)
                    for fl in re.findall(r'this->(\w+)', (it.get('path') or '') + ' ' + (it.get('opath') or '')):
                        marker.add(CLS + fl)
    known = {norm(fl.get('qname') or '') for c in db.classes.values() if norm(c['name']) == CLS[:-2] for fl in c.get('fields', [])} - {''}
    if known:
        marker = {m for m in marker if m in known} or marker
    if not marker:
        raise Broken('thread_pool::co_awaiter::await_resume branches on no member of the awaiter')
    # the cancellation code of the queue items built by await_suspend (or by helpers of it)
    bodies = {h['key'] for g in db.need('cocls::thread_pool::co_awaiter::await_suspend')[:1] for h in helper_bodies(db, g)}
    cancel = []
    for f, e in _enqueued_lambdas(db):
        top = f
        for _ in range(3):
            if top is not None and top.get('lambda') and top.get('parent_key') and top['key'] not in bodies:
                top = db.get(top['parent_key'])
        if top is None or top['key'] not in bodies:
            continue
        lamdefs = _lamdefs(db, f)
        for c in e.get('captures', []):
            t = (c.get('type') or '') + ' | ' + (c.get('canon_type') or '')
            if 'co_awaiter' not in t:
                continue
            if e.get('functor') and _guard_class(db, e, c):
                cn = e['functor']
                cancel += db.fns(cn + '::~' + cn.split('::')[-1])[:1]
            elif 'unique_ptr' in t:
                dl = _deleter_of(db, f, c, lamdefs)
                if dl is not None:
                    cancel.append(dl)
    if not cancel:
        raise Broken('the cancellation code (guard deleter) of the queue item of thread_pool::co_awaiter::await_suspend was not found')
    seen = set()
    for dl in cancel:
        if dl['key'] in seen:
            continue
        seen.add(dl['key'])
        trs = [t for t in H.traces(dl) if live(t)]
        ctx.paths(rid, len(trs))
        bad = None
        for tr in trs:
            for it in tr:
                if _modifies(it, marker):
                    bad = bad or (it, tr)
        ctx.ob(rid, dl, dl['key'], bad is None and bool(trs), 'the cancellation code leaves %s as it is: await_resume sees the submission as cancelled' % ', '.join(sorted(m.split('::')[-1] for m in marker)) +
               ('' if not bad else ' -- the marker is modified at %s' % relloc(bad[0].get('loc') or '')),
               desc='the cancel path of co_await pool modifies the member await_resume decides on (cancellation reported as success)', trace=fmt_trace(bad[1]) if bad else None)


def _on_cycle(g, b):
    """can block b of function g reach itself?"""
    blocks = g['_blocks']
    seen = set(); work = [s for s in blocks[b]['succ'] if s >= 0]
    while work:
        x = work.pop()
        if x == b:
            return True
        if x in seen:
            continue
        seen.add(x)
        work += [s for s in blocks[x]['succ'] if s >= 0]
    return False


def _reaches(g, a, b):
    blocks = g['_blocks']
    seen = set(); work = [a]
    while work:
        x = work.pop()
        if x == b:
            return True
        if x in seen or x < 0:
            continue
        seen.add(x)
        work += [s for s in blocks[x]['succ'] if s >= 0]
    return False


def stop_visits_all(ctx, db):
    """stop() owns the swapped-out list of threads; a std::thread destroyed while joinable terminates the process, so the iteration that joins /
    detaches must run to the end of the list: on every complete path the last join / detach is followed by a test of the iteration (a branch of a
    loop, other than the test that told the caller from the other threads) answered "leave the loop".  Leaving on the edge of the caller-identity
    test - having found the own thread - abandons the threads stored behind it"""
    rid = ctx.rule('C11.stop-visits-all', 'PATHS', 'thread_pool::stop (helpers expanded): on every path that returns, after the last std::thread::join / detach the loop over the swapped-out '
                   'threads is left on an exit edge of a loop test that was evaluated after that thread was dealt with and that is not the caller-identity test deciding between join and detach '
                   '(no early exit: every thread of the list is joined or detached before the list is destroyed)', floor=1)
    for f, trs in traces_of(db, 'cocls::thread_pool::stop', depth=0, per_instance=False, maxvisit=2):
        trs = [t for t in trs if live(t) and not any(it.k == 'abort' for it in t)]
        ctx.paths(rid, len(trs))
        bad = None; nloop = 0
        for tr in trs:
            jd = [i for i, it in enumerate(tr) if it.k == 'call' and norm(it.get('callee')) in ('std::thread::join', 'std::thread::detach')]
            if not jd:
                continue
            nloop += 1
            last = jd[-1]
            # the caller-identity test that guards this join / detach
            ident = None
            for b in reversed(tr[:last]):
                if b.k == 'branch' and ('get_id' in (b.path or '') or 'operator==' in (b.path or '')):
                    ident = b
                    break
            left = False
            for b in tr[last + 1:]:
                if b.k != 'branch' or b.get('block') is None:
                    continue
                g = db.get(b.get('fn')) if b.get('fn') else f
                if g is None or not _on_cycle(g, b['block']):
                    continue
                if ident is not None and b.get('fn') == ident.get('fn') and b.get('block') == ident.get('block'):
                    continue
                succ = g['_blocks'][b['block']]['succ']
                if len(succ) != 2:
                    continue
                taken = succ[0 if b.get('oval') else 1]
                if taken < 0 or not _reaches(g, taken, b['block']):
                    left = True
                    break
            if not left:
                bad = bad or ('after a thread was %s the function returns without the iteration over the thread list having tested for its end: the threads behind it stay joinable '
                              '(std::terminate when the list is destroyed)' % ('detached' if norm(tr[last].get('callee')).endswith('detach') else 'joined'), tr)
        if nloop == 0:
            raise Broken('thread_pool::stop: no returning path joins or detaches a thread')
        ctx.ob(rid, f, f['key'], bad is None, 'the iteration over the swapped-out threads ends only at the end of the list' + ('' if not bad else ' -- ' + bad[0]),
               desc=(bad[0][:110] if bad else None), trace=fmt_trace(bad[1]) if bad else None)
