# C07 - coroutine mutex: mutual exclusion and exactly-once grant
import re
from ..core import efield, norm, relloc, live, calls, evs, Broken, value_origin, Tracer, fmt_trace, rooted, has_back_edge, tests, cond_event
from .. import atomic, publish, witness
from ..rules import *

EXPLANATION = ('Static analysis of the mutex protocol over all CFG paths: try-lock is one strong CAS null->doorman whose result is the answer; a request is published by the '
               'awaiter CAS and never touched afterwards, the previous head taken from the CAS decides "owned" (then the doorman is installed by build_queue exactly once) '
               'versus "suspend"; unlock either succeeds in the CAS doorman->null or hands over to exactly one waiter - the former head of the private FIFO, unlinked '
               'before the hand-over - and touches neither the node nor the mutex state afterwards; build_queue installs the doorman by one exchange and is called only '
               'with an empty FIFO; the FIFO is private to unlock/build_queue; an ownership releases at most once (pointer taken by unique_ptr::release); mutex is '
               'immovable and ownership move-only. Undecided: mutual exclusion over interleavings as such (model-checking question).')
ASSUMPTIONS = ['std::atomic operations are atomic', 'std::unique_ptr::release nulls the pointer']
REQ = 'cocls::mutex::_requests'
Q = 'cocls::mutex::_queue'
DOOR = 'call(cocls::mutex::doorman)'


def run(ctx, db, tier):
    try_lock(ctx, db, 'C07.try-lock')
    subscribe(ctx, db, 'C07.subscribe')
    summ = publish.Summaries(db)
    publish.check_no_touch(ctx, db, 'C07.publish-discipline', summ, functions={'cocls::mutex::subscribe', 'cocls::awaiter::subscribe', 'cocls::co_awaiter::await_suspend', 'cocls::co_awaiter::subscribe'}, floor=3)
    unlock_once(ctx, db, 'C07.unlock-once')
    build_queue(ctx, db, 'C07.build-queue')
    private_fifo(ctx, db, 'C07.private-fifo')
    release_once(ctx, db, 'C07.release-once')
    ownership_unique(ctx, db, 'C07.ownership-unique')
    from . import C02, C06
    C06.consumers_clear(ctx, db, 'C07.awaited-release-resumes-once')
    # lock requests are pushed onto _requests by the generic lock-free push and registered through the generic awaiter; the new owner
    # travels in the suspend point returned by release()
    C02.link_current(ctx, db, 'C07.request-links-current-top')
    C02.await_suspend_siblings(ctx, db, 'C07.registration-answer-is-the-grant')
    C06.source_reset(ctx, db, 'C07.granted-owner-not-dropped')
    C02.sync_waits(ctx, db, 'C07.blocking-lock-waits')
    atomic.check_roles(ctx, db, 'C07.acquire-release', only_functions={'cocls::mutex::ready', 'cocls::mutex::unlock', 'cocls::mutex::build_queue', 'cocls::awaiter::subscribe'}, floor=4)
    if ctx.cfg == 'assert':
        witness.positive(ctx, 'C07.types', 'C07_pos.cpp', 'mutex is neither copyable nor movable; ownership is move-only and owns through unique_ptr with the unlocking deleter')
        witness.negative(ctx, 'C07.types-neg', 'C07_neg.cpp', 'copying a mutex / an ownership, or reaching the protected protocol from outside, must not compile')


def _one(db, name):
    out = [db.rep(k) for k in db.find(name) if not db.rep(k).get('lambda')]
    if not out:
        raise Broken('anchor vanished: ' + name)
    return out


def try_lock(ctx, db, rid):
    ctx.rule(rid, 'ATOMIC', 'mutex::ready (try-lock): exactly one atomic operation on the request stack, a strong compare-exchange expecting null and installing the doorman; '
             'its success is the function\'s answer; no loop', floor=2)
    for f in _one(db, 'cocls::mutex::ready'):
        ops = [e for e in f.events() if e.k == 'call' and atomic.is_atomic_call(e) and norm(e.get('field')) == REQ]
        ok = len(ops) == 1 and atomic.opname(ops[0]) == 'compare_exchange_strong'
        if ok:
            a = ops[0].get('args') or []
            exp = a[0].get('path') if a else ''
            d = None
            m = re.fullmatch(r'local:(\w+)', exp or '')
            if m:
                d = next((e for e in f.events() if e.k == 'decl' and e.get('var') == m.group(1)), None)
            ok = d is not None and (d.get('const') == 0 or d.get('init') == 'nullptr') and len(a) > 1 and a[1].get('path') == DOOR
        ctx.ob(rid, f, f['key'], ok, 'one compare_exchange_strong(expected = null, desired = doorman) on _requests (found: %s)' % [atomic.opname(o) for o in ops], desc='try-lock is not a single strong CAS null->doorman')
        rets = [e for e in f.events() if e.k == 'return']
        okr = bool(ops) and len(rets) >= 1 and all(_origin_is(f, r, ops[0]) for r in rets)
        ctx.ob(rid, f, f['key'], okr, 'the answer is the outcome of that CAS', desc='try-lock answer is not the CAS result')
        ctx.ob(rid, f, f['key'], not has_back_edge(f), 'no loop (wait-free)', desc='try-lock loops')


def _origin_is(f, ret, op):
    e = f.ev(ret.get('ret_ev')) if ret.get('ret_ev') is not None else None
    o = value_origin(f, e) if e is not None else value_origin(f, ret.get('path') or '')
    return o is not None and o.get('id') == op['id']


def subscribe(ctx, db, rid):
    ctx.rule(rid, 'PATHS+COUNT', 'mutex::subscribe: the request is pushed by awaiter::subscribe; "owned" (false) is answered exactly when the previous head returned by that push '
             'is null, and on that path the doorman is installed by build_queue(aw) exactly once; otherwise true and no build_queue', floor=1)
    for f, trs in traces_of(db, 'cocls::mutex::subscribe', depth=0, per_instance=False):
        trs = [t for t in trs if live(t)]
        ctx.paths(rid, len(trs))
        bad = None; owned = 0; susp = 0
        for tr in trs:
            si = index_of(tr, callee_is('cocls::awaiter::subscribe'))
            if si < 0:
                bad = bad or ('a path does not push the request', tr); continue
            sub = tr[si]
            if not any(norm(a.get('field') or '') == REQ for a in sub.get('args', [])):
                bad = bad or ('the request is not pushed to _requests', tr)
            prevnull = None
            for it in tr[si:]:
                if it.k == 'branch':
                    n = nullness(it)
                    if n and ('awaiter::subscribe' in n[0]):
                        prevnull = (not n[1]); break
            bq = all_indices(tr, callee_is('cocls::mutex::build_queue'))
            rv = ret_bool(tr)
            rv = None if rv is None else int(rv)
            if prevnull is None:
                bad = bad or ('the previous head returned by the push is not tested', tr); continue
            if prevnull:
                owned += 1
                if len(bq) != 1 or (tr[bq[0]].get('args') or [{}])[0].get('path') != sub.get('recv'):
                    bad = bad or ('the free-path does not install the doorman by build_queue(aw) exactly once', tr)
                if rv != 0:
                    bad = bad or ('the free-path does not answer "owned, do not suspend"', tr)
            else:
                susp += 1
                if bq:
                    bad = bad or ('build_queue called although the mutex is owned by somebody else', tr)
                if rv != 1:
                    bad = bad or ('a queued request does not suspend', tr)
        if not bad and (owned == 0 or susp == 0):
            bad = ('subscribe lost its owned/suspend outcomes', trs[0] if trs else [])
        ctx.ob(rid, f, f['key'], bad is None, 'owned iff previous head null, doorman installed once' + ('' if not bad else ' -- ' + bad[0]), desc=bad[0] if bad else None, trace=fmt_trace(bad[1]) if bad else None)


def unlock_once(ctx, db, rid):
    ctx.rule(rid, 'COUNT+ORDER', 'mutex::unlock: every path either completes by the successful CAS doorman->null without any hand-over, or hands over to exactly one waiter: the '
             'head of the private FIFO read before it is unlinked; a failed CAS rebuilds the FIFO (build_queue) before the head is read; after the hand-over neither the '
             'node nor the mutex state (_queue, _requests) is touched - they belong to the new owner', floor=1)
    is_handover = lambda ev: ev.k == 'call' and (ev.get('recv') == 'param:fn' or (ev.get('callee_expr') or '').startswith('param:fn'))
    for f, trs in traces_of(db, 'cocls::mutex::unlock', depth=0, per_instance=False):
        trs = [t for t in trs if live(t)]
        ctx.paths(rid, len(trs))
        bad = None; nfast = 0; nhand = 0
        for tr in trs:
            cas = [(i, it) for i, it in enumerate(tr) if it.k == 'call' and atomic.is_atomic_call(it) and atomic.opname(it).startswith('compare_exchange') and norm(it.get('field')) == REQ]
            casok = None
            for i, it in enumerate(tr):
                if cas and tests(it, cas[-1][1]):
                    casok = it.val
            ho = all_indices(tr, is_handover)
            if casok is True:
                nfast += 1
                if ho:
                    bad = bad or ('hand-over after the mutex was already released by the CAS', tr)
                c = cas[-1][1]; a = c.get('args') or []
                if not (len(a) > 1 and a[1].get('const') == 0):
                    bad = bad or ('the releasing CAS does not install null', tr)
                continue
            if len(ho) != 1:
                bad = bad or ('a path that did not release by CAS hands over %d times' % len(ho), tr); continue
            nhand += 1
            h = ho[0]; hev = tr[h]
            node = (hev.get('args') or [{}])[0].get('path')
            # the node is the head of _queue read before the unlinking write
            # writes of the FIFO head: plain assignments and std::exchange(_queue, x) (which also yields the old head)
            def _qwrite(ev):
                if ev.k == 'write' and ev.get('path') == 'this->_queue':
                    return ev.get('rhs') or ''
                if ev.k == 'call' and norm(ev.get('callee') or '') == 'std::exchange' and (ev.get('args') or [{}])[0].get('path') == 'this->_queue' and len(ev['args']) > 1:
                    return ev['args'][1].get('path') or ''
                return None
            wq = [i for i in range(h) if _qwrite(tr[i]) is not None]
            org, rdq = origin_in_trace(tr, h, node)
            if org != 'this->_queue':
                bad = bad or ('the waiter handed over is not the head of the private FIFO', tr)
            elif not wq:
                bad = bad or ('the head is not unlinked from the FIFO before the hand-over (the same waiter would be granted again)', tr)
            elif not (rdq <= wq[-1] and _qwrite(tr[wq[-1]]).endswith('->_next')):
                bad = bad or ('the FIFO head is not advanced to the next waiter before the hand-over', tr)
            if casok is False:
                bq = [i for i in all_indices(tr, callee_is('cocls::mutex::build_queue')) if i < (rdq if rdq >= 0 else h)]
                if len(bq) != 1:
                    bad = bad or ('a failed releasing CAS does not rebuild the FIFO before taking its head (the racing request would be lost)', tr)
                elif (tr[bq[0]].get('args') or [{}])[0].get('path') != DOOR:
                    bad = bad or ('build_queue on the unlock path does not use the doorman as stop marker', tr)
            elif casok is None:
                # the FIFO was non-empty: no CAS attempted
                if not any(it.k == 'branch' and nullness(it) and nullness(it)[0] == 'this->_queue' and nullness(it)[1] is True for it in tr[:h]):
                    bad = bad or ('hand-over without CAS on a path that did not see a non-empty FIFO', tr)
            for it in tr[h + 1:]:
                p = it.get('path') or it.get('recv') or ''
                if it.k in ('read', 'write') and (norm(it.get('field') or '') in (Q, REQ) or (node and rooted(p, node) and p != node)):
                    bad = bad or ('%s of %s after the hand-over' % (it.k, p), tr)
                if it.k == 'call' and (norm(it.get('field') or '') in (Q, REQ) or (node and rooted(p, node) and p != node)):
                    bad = bad or ('call on %s after the hand-over' % p, tr)
        if not bad and (nfast == 0 or nhand == 0):
            bad = ('unlock lost its release/hand-over outcomes', trs[0] if trs else [])
        ctx.ob(rid, f, f['key'], bad is None, 'release by CAS or exactly one hand-over of the unlinked head' + ('' if not bad else ' -- ' + bad[0]), desc=bad[0] if bad else None,
               trace=fmt_trace(bad[1]) if bad else None)


def build_queue(ctx, db, rid):
    ctx.rule(rid, 'ATOMIC+COUNT+WHO', 'mutex::build_queue detaches the request stack with exactly one exchange installing the doorman; each detached node\'s link is read before it '
             'is relinked at the head of the private FIFO; it is called only by unlock (on the empty-FIFO edge) and by subscribe\'s free path', floor=3)
    for f, trs in traces_of(db, 'cocls::mutex::build_queue', depth=0, per_instance=False, maxvisit=3):
        ops = [e for e in f.events() if e.k == 'call' and atomic.is_atomic_call(e) and norm(e.get('field')) == REQ]
        ok = len(ops) == 1 and atomic.opname(ops[0]) == 'exchange' and (ops[0].get('args') or [{}])[0].get('path') == DOOR
        ctx.ob(rid, f, f['key'], ok, 'one exchange(doorman) on _requests (found %s)' % ['%s(%s)' % (atomic.opname(o), (o.get('args') or [{}])[0].get('path')) for o in ops], desc='request stack not detached by exchange(doorman)')
        trs = [t for t in trs if live(t)]
        ctx.paths(rid, len(trs))
        bad = None; moved = 0
        for tr in trs:
            n_, why = relink_walk(tr)
            moved += n_
            if why:
                bad = bad or (why, tr)
        if moved == 0 and not bad:
            bad = ('no path moves a request into the private FIFO', trs[0] if trs else [])
        ctx.ob(rid, f, f['key'], bad is None, 'requests are moved one by one to the head of the FIFO, link read first' + ('' if not bad else ' -- ' + bad[0]), desc=bad[0] if bad else None,
               trace=fmt_trace(bad[1]) if bad else None)
    found = who(db, lambda f, e: e.k == 'call' and norm(e.get('callee')) == 'cocls::mutex::build_queue')
    check_who(ctx, rid, found, {'cocls::mutex::unlock', 'cocls::mutex::subscribe'}, 'call of build_queue', db=db)


_LNK = '->_next'
_FRONT = 'a detached request is not linked in front of the private FIFO'
_HEAD = 'the private FIFO head is not set to the relinked request'
_LOST = 'the link of a request is read after it was overwritten (the rest of the stack is lost)'


def relink_walk(tr):
    """one path of build_queue read as a small program over pointer VALUES instead of variable names, so that the verdict does not depend on
    which local holds the cursor, whether it is re-declared in every iteration, or whether the head is swapped by std::exchange:
      N0 = what the exchange on _requests returned, ('next', n) = the link request n carried when it was detached, Q0 = the FIFO head on entry.
    Every store into some request's _next is a move of that request; it must store the head the FIFO has without that request (the current
    head when the request is installed afterwards, the replaced head when std::exchange(_queue, x) installed it first), the request becomes
    the head, and no link is read once it has been overwritten.  At the end the FIFO must be the moved requests, last detached first, in
    front of Q0.  Returns (number of moves, first violated clause or None)"""
    val = {}; link = {}
    st = {'q': 'Q0', 'qprev': None, 'x': None, 'pending': None}
    bad = []; moved = [0]

    def peel(p):
        p = p or ''
        for _ in range(6):
            m = re.fullmatch(r'(?:move|forward|ctor)\((.*)\)', p)
            if not m:
                break
            p = m.group(1)
        return p

    def ev(p):
        p = peel(p)
        if p in val:
            return val[p]
        if p in ('nullptr', '0', 'NULL', '{}'):
            return 'null'
        if p == 'this->_queue':
            return st['q']
        if p.endswith(_LNK):
            n = ev(p[:-len(_LNK)])
            return link[n] if n in link else ('next', n)
        if p == 'call(std::exchange)':
            return st['x'] if st['x'] is not None else ('?', p)
        if re.fullmatch(r'call\(std::atomic(<.*>)?::exchange\)', p):
            return 'N0'
        return ('?', p)

    def rhs_of(it):
        if it.get('rhs') is not None:
            return ev(it['rhs'])
        return 'null' if it.get('const') == 0 else ('?', it.get('loc'))

    def set_head(v):
        st['qprev'] = st['q']; st['q'] = v
        if st['pending'] is not None:
            if v != st['pending']:
                bad.append(_HEAD)
            st['pending'] = None

    def relink(node, v):
        moved[0] += 1
        if st['pending'] is not None:
            bad.append(_HEAD)
        if st['q'] == node and st['qprev'] is not None and node != 'Q0':
            # the head was switched to this request first (x->_next = std::exchange(_queue, x)): its link must be the head it replaced
            if v != st['qprev']:
                bad.append(_FRONT)
            st['pending'] = None
        else:
            if v != st['q']:
                bad.append(_FRONT)
            st['pending'] = node
        link[node] = v

    for it in tr:
        p = it.get('path') or ''
        if it.k == 'decl':
            var = it.get('var')
            if it.get('init') is not None:
                if peel(it['init']) == var:
                    val.pop(var, None)          # a copy-propagated local is named by its own initialiser
                val[var] = ev(it['init'])
            else:
                val[var] = 'null' if it.get('const') == 0 else ('?', var)
        elif it.k == 'read' and p.endswith(_LNK):
            if ev(p[:-len(_LNK)]) in link:
                bad.append(_LOST)
        elif it.k == 'write' and p.endswith(_LNK):
            if (it.get('op') or '=') != '=':
                bad.append(_FRONT)
            relink(ev(p[:-len(_LNK)]), rhs_of(it))
        elif it.k == 'write' and p == 'this->_queue':
            set_head(rhs_of(it))
        elif it.k == 'write' and p and not it.get('init'):
            val[p] = rhs_of(it) if (it.get('op') or '=') == '=' else ('?', it.get('loc'))
        elif it.k == 'call' and norm(it.get('callee') or '') == 'std::exchange' and len(it.get('args') or []) > 1:
            tgt = peel(it['args'][0].get('path')); new = ev(it['args'][1].get('path'))
            if it['args'][1].get('path') is None and it['args'][1].get('const') == 0:
                new = 'null'
            st['x'] = ev(tgt)
            if tgt == 'this->_queue':
                set_head(new)
            elif tgt.endswith(_LNK):
                if ev(tgt[:-len(_LNK)]) in link:
                    bad.append(_LOST)           # the exchange reads the link it replaces
                relink(ev(tgt[:-len(_LNK)]), new)
            elif tgt:
                val[tgt] = new
    if st['pending'] is not None:
        bad.append(_HEAD)
    c = st['q']; chain = []
    while c != 'Q0' and c in link and c not in chain:
        chain.append(c); c = link[c]
    if c != 'Q0' or set(chain) != set(link):
        bad.append(_HEAD)
    return moved[0], (bad[0] if bad else None)


def private_fifo(ctx, db, rid):
    ctx.rule(rid, 'WHO', 'the owner-private FIFO (_queue) is accessed only by unlock, build_queue and the destructor\'s assertion', floor=2)
    found = who(db, lambda f, e: e.k in ('read', 'write') and norm(e.get('field') or '') == Q and not e.get('init'))
    check_who(ctx, rid, found, {'cocls::mutex::unlock', 'cocls::mutex::build_queue', 'cocls::mutex::~mutex'}, 'access to mutex::_queue', db=db)
    found = who(db, lambda f, e: e.k == 'call' and atomic.is_atomic_call(e) and norm(e.get('field')) == REQ and atomic.opname(e) not in ('conv', 'load'))
    check_who(ctx, rid, found, {'cocls::mutex::unlock', 'cocls::mutex::build_queue', 'cocls::mutex::ready'}, 'atomic write of mutex::_requests', db=db)


def release_once(ctx, db, rid):
    ctx.rule(rid, 'COUNT', 'mutex::ownership::release unlocks only the pointer it took out of the unique_ptr by release() (so a second release or the destructor finds null), on '
             'its non-null edge, at most once; ownership_deleter unlocks exactly once', floor=2)
    for f, trs in traces_of(db, 'cocls::mutex::ownership::release', depth=0, per_instance=False):
        trs = [t for t in trs if live(t)]
        ctx.paths(rid, len(trs))
        bad = None; n = 0
        for tr in trs:
            ul = all_indices(tr, callee_is('cocls::mutex::unlock'))
            if len(ul) > 1:
                bad = bad or ('unlock called twice', tr)
            if len(ul) == 1:
                n += 1
                ev = tr[ul[0]]
                o = value_origin(f, f.ev(ev.get('recv_ev'))) if ev.get('recv_ev') is not None and f.ev(ev.get('recv_ev')) is not None else value_origin(f, ev.get('orecv') or ev.get('recv'))
                if (o is None or o.k != 'call' or norm(o.get('callee')) != 'std::unique_ptr::release') and origin_in_trace(tr, ul[0], ev.get('recv'))[0] != 'call(std::unique_ptr::release)':
                    bad = bad or ('the unlocked pointer was not taken out of the ownership by unique_ptr::release()', tr)
                if nonnull_on_trace(tr, ul[0], ev.get('recv')) is not True:
                    bad = bad or ('unlock on an untested pointer', tr)
        if n == 0 and not bad:
            bad = ('no path unlocks', trs[0] if trs else [])
        ctx.ob(rid, f, f['key'], bad is None, 'release unlocks what unique_ptr::release() returned, once' + ('' if not bad else ' -- ' + bad[0]), desc=bad[0] if bad else None)
    for f in _one(db, 'cocls::mutex::ownership_deleter::operator()'):
        trs_ = [t for t in htracer(db).traces(f) if live(t)]       # directly, or through a helper of the mutex (unlock_and_resume())
        ok_ = bool(trs_) and all(sum(1 for c in calls(t) if norm(c.get('callee')) == 'cocls::mutex::unlock') == 1 for t in trs_)
        ctx.ob(rid, f, f['key'], ok_ and not has_back_edge(f), 'the deleter unlocks exactly once', desc='ownership_deleter does not unlock exactly once')


OWN_PTR = 'cocls::mutex::ownership::_ptr'


def ownership_unique(ctx, db, rid):
    """the unique_ptr inside mutex::ownership is the ownership: taking the pointer out without using it forgets the mutex locked forever,
    copying it out with get() into another owner makes two owners (two unlocks)"""
    ctx.rule(rid, 'WHO+DATAFLOW', 'uses of mutex::ownership::_ptr anywhere in the library: the result of _ptr.release() is never discarded (the mutex would stay locked forever); '
             'no owner is (re)seated from a pointer obtained by get() (two ownership objects would unlock the same mutex)', floor=1)
    n = 0
    seen = set()
    for f in db.all_instances():
        for e in f.events():
            if e.k != 'call':
                continue
            fld = norm(e.get('field') or '') or efield(f, e)
            if fld != OWN_PTR:
                continue
            c = norm(e.get('callee') or '')
            k = (f['key'], e['loc'], c)
            if k in seen:
                continue
            seen.add(k)
            if c == 'std::unique_ptr::release':
                n += 1
                ctx.ob(rid, f, e['loc'], e.get('use') != 'discard', 'the pointer taken out of the ownership by release() is used (unlocked or handed on)', desc='ownership pointer released and discarded')
            elif c in ('std::unique_ptr::reset', 'std::unique_ptr::operator='):
                n += 1
                a = (e.get('args') or [{}])[0]
                o = value_origin(f, f.ev(a['ev'])) if a.get('ev') is not None and f.ev(a['ev']) is not None else value_origin(f, a.get('path'))
                bad = (o is not None and o.k == 'call' and norm(o.get('callee') or '') == 'std::unique_ptr::get') or '::get)' in (a.get('path') or '')
                ctx.ob(rid, f, e['loc'], not bad, 'an ownership is re-seated only from a pointer that left its previous owner', desc='ownership re-seated from get(): two owners')
    if n == 0:
        raise Broken('no use of mutex::ownership::_ptr found: anchor changed')
