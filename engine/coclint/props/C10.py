# C10 - bounded queue: back-pressure without losing or duplicating items
import re
from ..core import norm, relloc, live, calls, evs, Broken, value_origin, Tracer, fmt_trace, rooted, has_back_edge, cond_event, pos
from .. import locks, witness
from ..rules import *
from .tables import GUARDED
from . import C09
from .C09 import op, on, ITEMS, WAITERS, BLOCKED, PROM_CALL, _taken_from

EXPLANATION = ('Static analysis of limited_queue<T>: on every CFG path of push the item reaches exactly one of three sinks - the oldest waiting pop, the item queue (only on the edge '
               'where the queue holds fewer than the limit), or the blocked list together with the push\'s promise (one entry) - never two; pop delivers the head, removes exactly '
               'one item and, whenever a producer is blocked, moves exactly the oldest blocked item into the queue, removes exactly that entry and completes exactly its push '
               'after the lock is released; the refill decision depends on nothing but the blocked list; unblock_push removes exactly the oldest entry and fails exactly its '
               'promise; front()/pop() only under a non-empty fact; all three containers only under the mutex; no parameter forwarded twice. Undecided: the numeric limit '
               'semantics beyond the comparison shape, order as values.')
ASSUMPTIONS = C09.ASSUMPTIONS


def run(ctx, db, tier):
    push3(ctx, db, 'C10.item-linear-push')
    pop_refill(ctx, db, 'C10.item-linear-pop')
    C09.unblock(ctx, db, 'C10.unblock-push', 'cocls::limited_queue::unblock_push', BLOCKED)
    C09.nonempty(ctx, db, 'C10.never-empty-access', ['cocls::limited_queue'])
    C09.resolve_outside_lock(ctx, db, 'C10.resolve-outside-lock', ['cocls::limited_queue::push', 'cocls::limited_queue::pop', 'cocls::limited_queue::unblock_push'])
    locks.check_guarded(ctx, db, 'C10.locks', {k: v for k, v in GUARDED.items() if k.startswith(('cocls::queue::', 'cocls::limited_queue::'))}, ['cocls::limited_queue'], per_instance=True, floor=3)
    C09.forward_once(ctx, db, 'C10.forward-once')
    if ctx.cfg == 'assert':
        witness.positive(ctx, 'C10.item-built-alike', 'C10_pos.cpp', 'every path of queue::push / limited_queue::push (hand-over to a waiting pop, enqueue, the item held for a blocked push) builds the '
                         'item as T(args...): explicit instantiation for an item type whose list-initialisation would select a deleted initializer-list constructor')


def _block_lambda(db, f, ev):
    """construct of the returned future<void> from a callable (lambda, or functor object of the library) that parks (item, promise) in the
    blocked list - itself or through helpers of the class: returns the number of parking calls per path of the callable (the count that
    deviates from one when its paths disagree)"""
    if ev.k != 'construct' or norm(ev.get('callee')) != 'cocls::future::future':
        return None
    for a in ev.get('args', []):
        p = a.get('opath') or a.get('path') or ''
        bodies = C09.callable_bodies(db, f, a)
        if not bodies and not p.startswith('lambda@'):
            continue
        key = ('_block_lambda', tuple((g['key'], g.get('inst')) for g in bodies))
        cache = db.__dict__.setdefault('_c10_cache', {})
        if key not in cache:
            counts = []
            T = htracer(db)
            for lf in bodies:
                for tr in C09.feasible([t for t in T.traces(lf) if live(t)]):
                    counts.append(sum(1 for x in calls(tr) if on(x, BLOCKED) and op(x) in ('push', 'emplace')))
            cache[key] = 0 if not counts else next((c for c in counts if c != 1), 1)
        return cache[key]
    return None


def _room_test(it):
    """what a branch says about "the item queue holds fewer items than the limit": True (size() < limit established), False (size() >= limit
    established), None (says nothing, or only a weaker / different relation).  Either operand order, negations peeled, every spelling the
    condition went through (named bool local, helper result)"""
    if it.k != 'branch':
        return None
    SIZE = r'call\((?:std::queue|cocls::primitives::\w+(?:<void>)?)::size\)'
    for p_, v_ in list((it.get('forms') or {}).items()) + [(it.get('opath'), it.get('oval', it.val)), (it.get('path'), it.val)]:
        if not p_:
            continue
        q, neg = C09._peel(p_)
        sc = split_cmp(q)
        if not sc:
            continue
        a, o, b = sc
        if re.fullmatch(SIZE, b) and a == 'this->_limit':
            a, b = b, a
            o = {'<': '>', '>': '<', '<=': '>=', '>=': '<=', '==': '==', '!=': '!='}[o]
        if not (re.fullmatch(SIZE, a) and b == 'this->_limit'):
            continue
        val = bool(v_) != neg
        # size OP limit holds iff val
        if (o == '>=' and not val) or (o == '<' and val):
            return True
        if (o == '>=' and val) or (o == '<' and not val):
            return False
        return None
    return None


def _is_room_test(it):
    if it.k != 'branch':
        return False
    return any(p_ and re.search(r'::size\) (>=|<|>|<=|==|!=) this->_limit\)|\(this->_limit (>=|<|>|<=|==|!=) call\([\w:<>]*::size\)\)', p_)
               for p_ in list((it.get('forms') or {}).keys()) + [it.get('opath'), it.get('path')])


def push3(ctx, db, rid):
    ctx.rule(rid, 'COUNT+GUARDED', 'limited_queue::push: exactly one sink per path: hand-over to the oldest waiting pop (front+pop of the waiter queue once), emplace into the item queue '
             '(only on an edge where size() >= limit is false), or one entry in the blocked list through the returned future; the push completes immediately (set_value) '
             'exactly when it did not block', floor=1)
    for f, trs in traces_of(db, "cocls::limited_queue::push", per_instance=True):
        trs = C09.feasible([t for t in trs if live(t)])
        ctx.paths(rid, len(trs))
        bad = None; cnt = {'hand': 0, 'enq': 0, 'block': 0}
        for tr in trs:
            waiting = None; below = None
            for i, it in enumerate(tr):
                if it.k == 'branch':
                    ce = cond_event(tr, i)
                    if ce is not None and on(ce, WAITERS) and op(ce) == 'empty' and waiting is None:
                        waiting = (it.val is False)
                    if _is_room_test(it):
                        below = _room_test(it)
            hand = [c for c in calls(tr) if C09._foreign(c)]
            emp = [c for c in calls(tr) if on(c, ITEMS) and op(c) in ('emplace', 'push')]
            blk = [c for c in calls(tr) if _block_lambda(db, f, c) is not None]
            done = [c for c in calls(tr) if norm(c.get('callee')) == 'cocls::future::set_value']
            nsink = len(hand) + len(emp) + len(blk)
            if nsink != 1:
                bad = bad or ('the item reaches %d sinks on a path (hand-over %d, enqueue %d, block %d): duplicated or lost' % (nsink, len(hand), len(emp), len(blk)), tr); continue
            # test and act are one critical section: the lock is not released between the first decisive test (waiting pop? room?) and the
            # moment the item is committed to its sink (waiter taken / item enqueued / entry parked) - a pop that runs in such a gap makes
            # room or comes to wait without this push noticing (it then blocks on a queue that has room, or enqueues past a waiting pop)
            tests_ = [i for i, it in enumerate(tr) if it.k == 'branch' and ((cond_event(tr, i) is not None and on(cond_event(tr, i), WAITERS) and op(cond_event(tr, i)) == 'empty') or
                                                                          _is_room_test(it))]
            commit_ = ([c for c in calls(tr) if on(c, WAITERS) and op(c) == 'pop'] if hand else emp if emp else blk)
            if tests_ and commit_:
                ci_ = pos(tr, commit_[0])
                gap = [it for it in tr[tests_[0]:ci_] if it.k == 'call' and norm(it.get('callee') or '') in ('std::unique_lock::unlock', 'std::mutex::unlock')]
                if gap:
                    bad = bad or ('the lock is released between the test (waiting pop / room) and the commit of the item to its sink: the decision is stale when it is acted on', tr)
            if hand:
                cnt['hand'] += 1
                wpop = [c for c in calls(tr) if on(c, WAITERS) and op(c) == 'pop']
                if waiting is not True or len(wpop) != 1:
                    bad = bad or ('hand-over without taking exactly one waiting pop', tr)
                if len(done) != 1:
                    bad = bad or ('a handed-over push does not complete immediately', tr)
            elif emp:
                cnt['enq'] += 1
                if waiting is not False:
                    bad = bad or ('enqueue although a pop may be waiting', tr)
                if below is not True:
                    bad = bad or ('the item is enqueued on a path that did not establish size() < limit (the bound is exceeded or off by one)', tr)
                if len(done) != 1:
                    bad = bad or ('an enqueued push does not complete immediately', tr)
            else:
                cnt['block'] += 1
                if _block_lambda(db, f, blk[0]) != 1:
                    bad = bad or ('the blocking future parks %d entries' % _block_lambda(db, f, blk[0]), tr)
                if below is True or waiting is not False:
                    bad = bad or ('the push blocks although there is room / a waiting pop', tr)
                if done:
                    bad = bad or ('a blocked push also completes immediately', tr)
        if not bad and not all(cnt.values()):
            bad = ('push lost one of its three outcomes %s' % cnt, trs[0] if trs else [])
        ctx.ob(rid, f, f['key'], bad is None, 'hand-over xor enqueue-below-limit xor block' + ('' if not bad else ' -- ' + bad[0]), desc=(bad[0][:110] if bad else None), trace=fmt_trace(bad[1]) if bad else None)


def pop_refill(ctx, db, rid):
    ctx.rule(rid, 'COUNT+ORDER', 'limited_queue::pop: empty edge parks the promise; otherwise the head is delivered once and one item removed, and then - on every path that did not see '
             'the blocked list empty - exactly the oldest blocked item is moved into the item queue (one push from front().first), exactly that entry is removed (one pop) '
             'and exactly its push is completed once, after the lock is released', floor=1)
    lams = C09.initializer_bodies(db, 'cocls::limited_queue::pop')
    if not lams:
        raise Broken('anchor vanished: lambda of limited_queue::pop')
    T = htracer(db)
    for lf in lams:
        alltr = T.traces(lf)
        trs = C09.feasible([t for t in alltr if live(t)])
        ctx.paths(rid, len(trs))
        bad = None; nref = nno = npark = 0
        void = 'void' in re.findall(r'limited_queue<([^,>]*)', lf.get('inst') or '')[:1]
        for tr in trs:
            empty = None; blocked_empty = None
            for i, it in enumerate(tr):
                if it.k == 'branch':
                    ce = cond_event(tr, i)
                    if ce is not None and on(ce, ITEMS) and op(ce) == 'empty' and empty is None:
                        empty = bool(it.val)
                    if ce is not None and on(ce, BLOCKED) and op(ce) == 'empty':
                        blocked_empty = bool(it.val)
            park = [c for c in calls(tr) if on(c, WAITERS) and op(c) in ('emplace', 'push')]
            res = [c for c in calls(tr) if norm(c.get('callee')) in PROM_CALL and C09._own(c)]
            ipop = [c for c in calls(tr) if on(c, ITEMS) and op(c) == 'pop']
            ipush = [c for c in calls(tr) if on(c, ITEMS) and op(c) in ('push', 'emplace')]
            bpop = [c for c in calls(tr) if on(c, BLOCKED) and op(c) == 'pop']
            bfront = [c for c in calls(tr) if on(c, BLOCKED) and op(c) == 'front']
            comp = [c for c in calls(tr) if C09._foreign(c)]
            if empty is None:
                bad = bad or ('pop does not test the item queue', tr); continue
            if empty:
                npark += 1
                if len(park) != 1 or res or ipop or ipush or bpop:
                    bad = bad or ('on the empty edge the promise is not simply parked', tr)
                continue
            if park or len(res) != 1 or len(ipop) != 1:
                bad = bad or ('delivery is not "resolve once, remove one" (parked %d, resolved %d, removed %d)' % (len(park), len(res), len(ipop)), tr)
            if blocked_empty is True:
                nno += 1
                if ipush or bpop or comp:
                    bad = bad or ('a blocked producer is re-admitted although the blocked list is empty', tr)
            else:
                # blocked list non-empty, or not even tested: the oldest blocked push must be re-admitted
                nref += blocked_empty is False
                if blocked_empty is None:
                    bad = bad or ('an item is delivered on a path that neither saw the blocked list empty nor re-admitted a blocked producer (the refill decision depends on something else)', tr)
                elif len(ipush) != 1 or len(bpop) != 1 or len(bfront) != 1 or len(comp) != 1:
                    bad = bad or ('re-admission is not "move one item, remove one entry, complete one push" (moved %d, removed %d, completed %d)' % (len(ipush), len(bpop), len(comp)), tr)
                else:
                    if tr.index(bfront[0]) > tr.index(bpop[0]):
                        bad = bad or ('the blocked entry is removed before it is read', tr)
                    if trace_lockset(tr)[tr.index(comp[0])]:
                        bad = bad or ('the blocked push is completed while the queue lock is still held', tr)
        if not bad and (nref == 0 or nno == 0 or npark == 0):
            bad = ('pop lost one of its outcomes (park %d, deliver %d, deliver+refill %d)' % (npark, nno, nref), trs[0] if trs else [])
        ctx.ob(rid, lf, lf['key'], bad is None, 'park xor deliver(+refill exactly one)' + ('' if not bad else ' -- ' + bad[0]), desc=(bad[0][:110] if bad else None), trace=fmt_trace(bad[1]) if bad else None,
               inst=lf.get('inst'))
