# C04 - an async coroutine runs once, delivers to its bound party, frees once
import re
from ..core import norm, relloc, live, calls, evs, Broken, value_origin, Tracer, fmt_trace, rooted, has_back_edge
from .. import atomic, witness
from ..rules import *
from . import shared, C01

EXPLANATION = ('Static analysis of the ownership of the coroutine handle and of the result binding: inside async<T> the handle leaves the object only through '
               'std::exchange(_h, null) (linear hand-over), every start entry (detach, start(), start(promise), co_await, join, operator(), thread-pool run) takes it at '
               'most once per path and exactly once where it must start (interval summaries over the call graph), a lost claim starts nothing, ~async destroys a '
               'never-started frame on the non-null edge exactly once, the co_await wiring binds the awaiter\'s private future and handle before transferring into the '
               'callee, the bound future pointer has exactly two writers, the final awaiter resolves once before destroying the frame once and never touches it '
               'afterwards; initial_suspend is suspend_always (an unstarted coroutine never runs), async is move-only, join() returns a value not a reference '
               '(compile-time witnesses). Undecided: the start-mode x completion-mode product as behaviour; allocation balance.')
ASSUMPTIONS = ['the compiler destroys coroutine arguments/locals exactly once when the frame is destroyed (language guarantee)', 'std::exchange returns the old value and stores the new one']
H = 'cocls::async::_h'


def _null_reset(x, path=None):
    return x.k == 'call' and norm(x.get('callee') or '') == 'std::coroutine_handle::operator=' and (path is None or x.get('recv') == path) and norm(x.get('field') or '') == H and \
        ((x.get('args') or [{}])[0].get('const') == 0 or ((x.get('args') or [{}])[0].get('path') or '') in NULLS)


def _copy_out(e):
    """a copy of the handle member into a new handle object (auto h = _h;  or, converted to the untyped handle, std::coroutine_handle<> h = _h;):
    returns the path copied from.  The conversion that only feeds a comparison (_h != nullptr) copies nothing out"""
    if e.k == 'construct' and norm(e.get('callee') or '') == 'std::coroutine_handle::coroutine_handle' and len(e.get('args') or []) == 1 and norm(e['args'][0].get('field') or '') == H:
        return e['args'][0].get('path')
    if e.k == 'call' and norm(e.get('callee') or '') == 'std::coroutine_handle::operator coroutine_handle' and norm(e.get('field') or '') == H and e.get('recv') and \
            not re.search(r'operator(==|!=|<=>)', e.get('use') or ''):
        return e['recv']
    return None


# ---------------------------------------------------------------------------------------------------------------------------------
# constants handed to a helper decide its branches: release(false, nullptr) never takes the `if (attach)` arm of release(bool attach, T *target)

def _truth(p):
    """truth value of a condition that consists of literals only (true, !(false), (nullptr == nullptr), 0 ...), else None"""
    p = p or ''; neg = False
    while p.startswith('!(') and p.endswith(')') and p.count('(') == p.count(')'):
        p = p[2:-1]; neg = not neg
    v = None
    if p in ('true', 'false'):
        v = (p == 'true')
    elif p in ('nullptr', 'ctor(nullptr)'):
        v = False
    elif re.fullmatch(r'\d+', p):
        v = int(p) != 0
    else:
        sc = split_cmp(p)
        if sc and sc[1] in ('==', '!='):
            a, b = _truth(sc[0]), _truth(sc[2])
            lits = ('true', 'false', 'nullptr', 'ctor(nullptr)')
            if a is not None and b is not None and all(x in lits or re.fullmatch(r'\d+', x) for x in (sc[0], sc[2])):
                num = lambda x: int(x) if re.fullmatch(r'\d+', x) else int(x == 'true')
                v = (num(sc[0]) == num(sc[2])) == (sc[1] == '==')
    return None if v is None else (v != neg)


def feasible(tr):
    """False when a branch of the trace went against a condition that is a literal on this path - a parameter of an expanded helper replaced by
    the constant the caller passed: such a path does not exist"""
    for it in tr:
        if it.k != 'branch':
            continue
        for p, v in list((it.get('forms') or {}).items()) + [(it.get('path'), it.val)]:
            t = _truth(p)
            if t is not None and t != bool(v):
                return False
    return True


def _const_args(callee, ev):
    """{param:<name>: literal} for the parameters of `callee` that call event `ev` binds to a literal constant (and that the callee never reassigns)"""
    env = {}
    written = {e.get('path') for e in callee.events() if e.k == 'write'}
    args = ev.get('args') or []
    for i, p in enumerate(callee.get('params') or []):
        if i < len(args) and not p.get('pack'):
            a = args[i]
            ap = a.get('path') or ''
            if (ap in ('true', 'false', 'nullptr') or re.fullmatch(r'\d+', ap)) and 'param:' + p['name'] not in written and '&' not in (p.get('type') or ''):
                env['param:' + p['name']] = ap
    return env


def interval_count_ctx(db, f, pred, cache=None, stack=(), env=None):
    """rules.interval_count, with the literal arguments of every call carried into the callee: [min, max] of the events satisfying pred over the live
    paths of f that are feasible under the constants f was called with"""
    from ..core import STD_IMMEDIATE
    cache = {} if cache is None else cache
    env = env or {}
    k = (f['key'], f['inst'], tuple(sorted(env.items())))
    if k in cache:
        return cache[k]
    if any(s[:2] == k[:2] for s in stack):
        return (0, 0)
    T = Tracer(db, depth=0, limit=20000)
    lo = None; hi = 0
    trs = T.traces(f, 0, env)
    if T.truncated:
        raise Broken('path bound exceeded in %s' % f['nname'])
    for tr in trs:
        if not live(tr) or not feasible(tr):
            continue
        a = b = 0
        for it in tr:
            if it.k in ('branch', 'switch', 'abort', 'exception'):
                continue
            if pred(it):
                a += 1; b += 1
                continue
            if it.k in ('call', 'construct'):
                c = None; cenv = {}
                if it.get('callee_key'):
                    c = db.resolve(f, it['callee_key'], it.get('callee_inst'))
                    if c is not None and not c.get('lambda'):
                        cenv = _const_args(c, it)
                elif STD_IMMEDIATE.get(norm(it.get('callee'))) is not None:
                    for ar in it.get('args', []):
                        if (ar.get('opath') or ar.get('path') or '').startswith('lambda@'):
                            c = db.get((ar.get('opath') or ar['path'])[7:])
                if c is not None:
                    x, y = interval_count_ctx(db, c, pred, cache, stack + (k,), cenv)
                    a += x; b += y
        lo = a if lo is None else min(lo, a)
        hi = max(hi, b)
    r = (lo or 0, hi)
    cache[k] = r
    return r


def unrolled_take(db, f, e):
    """auto h = _h; _h = nullptr;  - an exchange written out: on every path through the copy the member is reset to null before anything else
    touches it or the function is left"""
    src = _copy_out(e)
    if not src:
        return False
    T = Tracer(db, depth=0)
    n = 0; resets = set()
    for tr in T.traces(f):
        i = next((j for j, it in enumerate(tr) if it.get('id') == e.get('id') and it.k == e.k and it.get('depth', 0) == 0), None)
        if i is None:
            continue
        n += 1
        nxt = next((it for it in tr[i + 1:] if it.k in ('call', 'construct', 'write', 'read') and (norm(it.get('field') or '') == H or any(norm(a.get('field') or '') == H for a in it.get('args') or []))), None)
        if nxt is None or not _null_reset(nxt, src):
            return False
        resets.add(nxt.get('loc'))
    if n > 0:
        _TAKE_RESETS.setdefault(id(db), set()).update(resets)
    return n > 0


_TAKE_RESETS = {}


def _find_unrolled_takes(db):
    if id(db) in _TAKE_RESETS:
        return
    _TAKE_RESETS[id(db)] = set()
    for f in db.all_instances():
        if not f['nname'].startswith('cocls::async::'):
            continue
        for e in f.events():
            if _copy_out(e):
                unrolled_take(db, f, e)


def is_take(it):
    if it.k == 'call' and norm(it.get('callee')) == 'std::exchange' and it.get('args') and norm(it['args'][0].get('field') or '') == H and \
            (it['args'][1].get('path') in ('ctor()', '{}', 'nullptr') or it['args'][1].get('const') == 0):
        return True
    # the exchange written out (copy, then reset to null): the reset is the take; handle_linear checks that the copy is followed by it on every path
    return bool(_null_reset(it) and any(it.get('loc') in s_ for s_ in _TAKE_RESETS.values()))


def run(ctx, db, tier):
    from . import C11
    handle_linear(ctx, db)
    entries(ctx, db)
    shared.claimed_promise(ctx, db, 'C04.claimed-promise')
    refused_start_empty(ctx, db)
    from . import C01
    C01.state_tag_agrees(ctx, db, 'C04.payload-representation')
    co_await_wiring(ctx, db)
    shared.final_awaiter(ctx, db, 'C04.final-awaiter')
    dtor(ctx, db)
    bound_writers(ctx, db)
    join_delivers(ctx, db)
    start_is_eager(ctx, db)
    bound_party_optional(ctx, db)
    C11.closures(ctx, db, 'C04.pool-closure-owns-coroutine', 'C04.pool-closure-runs-once')
    C11.stop(ctx, db, 'C04.pool-drops-unstarted-outside-lock')
    C11.enqueue(ctx, db, 'C04.pool-wakes-a-worker-per-start')
    if ctx.cfg == 'assert':
        witness.positive(ctx, 'C04.types', 'C04_pos.cpp', 'initial_suspend is suspend_always, final_suspend is noexcept, async<T> is move-only, join()/wait() hand out values that outlive the temporary future')
        witness.negative(ctx, 'C04.types-neg', 'C04_neg.cpp', 'copying an async object must not compile')


OBSERVING = ('cocls::future::wait', 'cocls::future::join', 'cocls::future::force_wait', 'cocls::future::value', 'cocls::future::operator*', 'cocls::future::operator->', 'cocls::co_awaiter::wait', 'cocls::co_awaiter::force_wait')
WAIT_ONLY = ('cocls::future::sync', 'cocls::future::force_sync', 'cocls::co_awaiter::sync', 'cocls::co_awaiter::force_sync')


def join_delivers(ctx, db, rid_='C04.join-delivers'):
    """join() is bound to its caller: the value AND the exception of the coroutine must reach it.  The blocking accessors of future come in two
    kinds: wait()/join()/value() observe the result (rethrow), sync() only waits"""
    rid = ctx.rule(rid_, 'SIBLINGS', 'async<T>::join(), every instantiation (void and non-void branch of the if constexpr): on every path the future started from the coroutine is '
                   'read through an accessor that observes the result (wait / join / value: the stored exception is rethrown to the joiner), not merely synchronised with (sync)', floor=2)
    T = htracer(db)
    seen = set()
    for f in db.need('cocls::async::join'):
        void = 'async<void' in (f.get('inst') or '')
        if (f['key'], void) in seen:
            continue
        seen.add((f['key'], void))
        trs = [t for t in T.traces(f) if live(t)]
        ctx.paths(rid, len(trs))
        bad = None
        for tr in trs:
            obs = [c for c in calls(tr) if norm(c.get('callee')) in OBSERVING]
            if not obs:
                w = [c for c in calls(tr) if norm(c.get('callee')) in WAIT_ONLY]
                bad = bad or ('join() %s: an exception thrown by the coroutine never reaches the joiner' % ('only synchronises with the result (%s) and does not observe it' % norm(w[0].get('callee')).split('::')[-1] if w else 'does not wait for the result'), tr)
        ctx.ob(rid, f, f['key'], bad is None and bool(trs), 'join() observes the result on every path (%s)' % ('void' if void else 'value') + ('' if not bad else ' -- ' + bad[0]), desc=bad[0] if bad else None,
               trace=fmt_trace(bad[1]) if bad else None, inst=f.get('inst'))


def start_is_eager(ctx, db, rid_='C04.start-is-eager'):
    """a future produced by start() may be waited for by blocking (join(), wait()): the blocked thread does not drain the ready queue, so the
    coroutine must have been run up to its first suspension before start() hands the future out"""
    rid = ctx.rule(rid_, 'PATHS', 'async<T>::start() (the closure run by the future\'s constructor): the handle obtained from start_promise is resumed before the closure returns, '
                   'on every path - directly (coroutine_handle::resume) or inside a freshly installed queue (install_queue_and_resume) - and never merely queued (coro_queue::resume / push): '
                   'a joiner that blocks right afterwards would wait for a coroutine that cannot run', floor=1)
    lams = [lf for lf in lambdas_of(db, 'cocls::async::start') if any(c.k == 'call' and norm(c.get('callee')) == 'cocls::async::start_promise' for c in lf.events())]
    if not lams:
        raise Broken('anchor vanished: the closure of async::start() that calls start_promise')
    T = htracer(db)
    seen = set()
    for lf in lams:
        if lf['key'] in seen:
            continue
        seen.add(lf['key'])
        trs = [t for t in T.traces(lf) if live(t)]
        ctx.paths(rid, len(trs))
        bad = None
        for tr in trs:
            sp = index_of(tr, callee_is('cocls::async::start_promise'))
            now = [i for i, c in enumerate(tr) if c.k == 'call' and norm(c.get('callee')) in ('std::coroutine_handle::resume', 'std::coroutine_handle::operator()', 'cocls::coro_queue::install_queue_and_resume', 'cocls::coro_queue::install_queue_and_call') and i > sp
                   and not (norm(c.get('callee')).startswith('std::coroutine_handle') and any(x.k == 'call' and norm(x.get('callee')) == 'cocls::coro_queue::install_queue_and_call' for x in tr[sp:i]))]
            later = [c for c in tr[sp + 1:] if c.k == 'call' and norm(c.get('callee')) in ('cocls::coro_queue::resume', 'cocls::coro_queue::push', 'cocls::coro_queue::queue_impl::push', 'cocls::coro_queue::queue_impl::resume') and not c.get('expanded')]
            if sp < 0:
                continue
            if later:
                bad = bad or ('the started coroutine is handed to %s: inside a coroutine it is only queued and has not run when start() returns' % norm(later[0].get('callee')), tr)
            elif len(now) != 1:
                bad = bad or ('the started coroutine is resumed %d times before start() returns' % len(now), tr)
        ctx.ob(rid, lf, lf['key'], bad is None and bool(trs), 'start() runs the coroutine to its first suspension before it returns' + ('' if not bad else ' -- ' + bad[0]), desc=bad[0] if bad else None,
               trace=fmt_trace(bad[1]) if bad else None)


def handle_linear(ctx, db, rid_='C04.handle-linear'):
    rid = ctx.rule(rid_, 'WHO', 'every use of async<T>::_h is one of: std::exchange(_h, null) (the only escape), _h.promise(), a null test, the constructor '
                   'initialiser, or the guarded destroy in ~async; the handle is never copied out, resumed or passed on while the object keeps it', floor=6)
    seen = set()
    for f in db.all_instances():
        for e in f.events():
            flds = [norm(e.get('field') or '')] + [norm(a.get('field') or '') for a in e.get('args', [])]
            if H not in flds:
                continue
            site = (f['key'], e['loc'], e.k, e.get('callee'))
            if site in seen:
                continue
            seen.add(site)
            c = norm(e.get('callee') or '')
            kind = None
            if e.k == 'write' and e.get('init'):
                kind = 'constructor initialiser'
            elif is_take(e):
                kind = 'exchange with null'
            elif e.k == 'call' and norm(e.get('field') or '') == H and c == 'std::coroutine_handle::promise':
                kind = 'promise()'
            elif e.k == 'call' and norm(e.get('field') or '') == H and c in ('std::coroutine_handle::operator bool', 'std::coroutine_handle::done', 'std::coroutine_handle::address'):
                kind = 'query'
            elif e.k == 'call' and norm(e.get('field') or '') == H and c == 'std::coroutine_handle::operator coroutine_handle' and re.search(r'operator(==|!=)', e.get('use') or ''):
                kind = 'null comparison'
            elif e.k == 'call' and norm(e.get('field') or '') == H and c == 'std::coroutine_handle::operator=' and ((e.get('args') or [{}])[0].get('const') == 0 or ((e.get('args') or [{}])[0].get('path') or '') in NULLS):
                kind = 'reset to null'
            elif e.k == 'call' and norm(e.get('field') or '') == H and c == 'std::coroutine_handle::operator=' and f['nname'] == 'cocls::async::async' and e.get('recv') == 'this->_h' and \
                    ((e.get('args') or [{}])[0].get('path') or '').startswith('param:'):
                kind = 'initialisation in the constructor body from the constructor argument'
            elif unrolled_take(db, f, e):
                kind = 'copied out and reset to null at once on every path (an exchange written out)'
            elif e.k == 'construct' and c == 'std::coroutine_handle::coroutine_handle' and f['nname'] in ('cocls::async::async', 'cocls::async::operator=') and \
                    any(x.k == 'call' and norm(x.get('callee') or '') == 'std::coroutine_handle::operator=' and x.get('recv') in [a.get('path') for a in e.get('args', [])] and
                        ((x.get('args') or [{}])[0].get('const') == 0 or ((x.get('args') or [{}])[0].get('path') or '') in NULLS) for x in f.events()):
                kind = 'move: copied into the new owner, the source is reset to null in the same function (an unrolled exchange)'
            elif e.k == 'call' and norm(e.get('field') or '') == H and c == 'std::coroutine_handle::destroy' and (f['nname'] == 'cocls::async::~async' or who_ok(db, f, {'cocls::async::~async'})):
                kind = 'destroy in destructor'
            elif e.k == 'read' and False:
                kind = None
            ctx.ob(rid, f, e['loc'], kind is not None, '%s of _h is a permitted use (%s)' % (e.k + (' ' + c if c else ''), kind or 'NOT permitted: the handle escapes or is used without being taken'),
                   desc='%s uses _h without taking it (%s)' % (f['nname'], c or e.k))


ENTRIES = [  # (function, min, max, what)
    ('cocls::async::start_coro', 1, 1, 'start_coro takes the handle exactly once'),
    ('cocls::async::detach', 1, 1, 'detach starts the coroutine exactly once'),
    ('cocls::async::operator co_await', 1, 1, 'co_await takes the handle exactly once'),
    ('cocls::async::start_promise', 0, 1, 'start_promise takes the handle at most once'),
    ('cocls::async::start', 0, 1, 'start takes the handle at most once'),
    ('cocls::async::join', 0, 1, 'join starts the coroutine at most once'),
    ('cocls::async::operator()', 0, 1, 'operator() starts the coroutine at most once'),
    ('cocls::thread_pool::run', 0, 1, 'thread_pool::run(async) starts / moves the coroutine at most once'),
]


def entries(ctx, db, rid_='C04.start-once'):
    rid = ctx.rule(rid_, 'COUNT (interval summaries)', 'every start entry reaches std::exchange(_h, null) at most once on every path through its whole call tree, and exactly once '
                   'where it must start (detach, start_coro, co_await); computed bottom-up over the call graph', floor=6)
    cache = {}
    _find_unrolled_takes(db)
    for name, lo, hi, what in ENTRIES:
        fns = db.fns(name)
        if name == 'cocls::thread_pool::run':
            fns = [f for f in fns if any('async<' in p['type'] for p in f['params'])]
        if not fns:
            if name in ('cocls::async::start_coro', 'cocls::async::detach', 'cocls::async::start_promise'):
                raise Broken('anchor vanished: ' + name)
            continue
        seen = set()
        for f in fns:
            a, b = interval_count_ctx(db, f, is_take, cache)
            # closures created here and run later (thread pool) count as part of the entry
            for lf in _closures(db, f):
                x, y = interval_count_ctx(db, lf, is_take, cache)
                a += x; b += y
            k = (f['key'],)
            ok = (a >= lo and b <= hi)
            if k in seen and ok:
                continue
            seen.add(k)
            ctx.ob(rid, f, f['key'], ok, '%s (found between %d and %d takes)' % (what, a, b), desc='%s: handle taken [%d,%d] times' % (name, a, b))


def _closures(db, f):
    out = []
    for e in f.events():
        if e.k == 'lambda':
            lf = db.get(e['fn_key'])
            if lf is not None and not any(c.k in ('call', 'construct') and c.get('callee_key') == e['fn_key'] for c in f.events()):
                # a lambda that is not called by a resolved callee inside f itself may still be invoked inside a callee taking it (future's constructor);
                # those are reached through callee_key edges of the callee; only count closures handed to enqueue/run_detached
                if any(norm(c.get('callee')) in ('cocls::thread_pool::run_detached', 'cocls::thread_pool::enqueue') for c in f.events() if c.k == 'call'):
                    out.append(lf)
    return out


def co_await_wiring(ctx, db, rid_='C04.co-await-wiring'):
    rid = ctx.rule(rid_, 'ORDER', 'async::co_awaiter::await_suspend: the callee\'s handle is read from the awaiter before set_handle(h) overwrites it; the awaiter\'s '
                   'slot is armed with itself and the callee is bound to the awaiter\'s private future before the callee\'s handle is returned for symmetric transfer', floor=1)
    for f, trs in traces_of(db, 'cocls::async::co_awaiter::await_suspend', depth=0, per_instance=False):
        trs = [t for t in trs if live(t)]
        ctx.paths(rid, len(trs))
        bad = None
        for tr in trs:
            rd = index_of(tr, lambda ev: ev.k == 'read' and norm(ev.get('lfield') or '') == 'cocls::awaiter::_handle_addr')
            sh = index_of(tr, callee_is('cocls::awaiter::set_handle'))
            st = index_of(tr, lambda ev: ev.k == 'call' and atomic.is_atomic_call(ev) and norm(ev.get('field')) == 'cocls::future_common::_awaiter' and atomic.opname(ev) in ('store', 'operator=', 'exchange'))
            wf = index_of(tr, lambda ev: ev.k == 'write' and field_of(ev) == 'cocls::async_promise::_future')
            rt = index_of(tr, lambda ev: ev.k == 'return' and ev.get('depth', 0) == 0)
            if min(rd, sh, st, wf, rt) < 0:
                bad = bad or ('a wiring step is missing (read callee handle / set_handle / arm slot / bind future / return)', tr); continue
            if not rd < sh:
                bad = bad or ('set_handle(h) overwrites the callee\'s handle before it is read', tr)
            if not (sh < rt and st < rt and wf < rt):
                bad = bad or ('the callee is entered before the wiring is complete', tr)
            stv = tr[st]
            if (stv.get('args') or [{}])[0].get('path') != 'this':
                bad = bad or ('the slot is not armed with the awaiter itself', tr)
            if tr[wf].get('rhs') != 'this':
                bad = bad or ('the callee is not bound to the awaiter\'s own future', tr)
            r = tr[rt]
            o = value_origin(f, f.ev(r.get('ret_ev'))) if r.get('ret_ev') is not None and f.ev(r.get('ret_ev')) is not None else value_origin(f, r.get('path') or '')
            if (o is None or 'from_address' not in norm(o.get('callee') or '')) and 'from_address' not in (origin_in_trace(tr, rt, r.get('path'))[0] or ''):
                bad = bad or ('the returned handle is not the callee\'s handle', tr)
        ctx.ob(rid, f, f['key'], bad is None, 'wiring complete before transfer' + ('' if not bad else ' -- ' + bad[0]), desc=bad[0] if bad else None, trace=fmt_trace(bad[1]) if bad else None)


def dtor(ctx, db, rid_='C04.dtor-destroys-unstarted'):
    rid = ctx.rule(rid_, 'COUNT', '~async destroys the frame exactly once on the edge where the handle is still held and not otherwise', floor=1)
    for f, trs in traces_of(db, 'cocls::async::~async', depth=0, per_instance=False):
        trs = [t for t in trs if live(t)]
        ctx.paths(rid, len(trs))
        bad = None; n = 0
        for tr in trs:
            ds = all_indices(tr, lambda ev: ev.k == 'call' and norm(ev.get('callee')) == 'std::coroutine_handle::destroy')
            held = None
            for i, it in enumerate(tr):
                n0 = null_test(tr, i) if it.k == 'branch' else None
                if n0 and n0[0] == 'this->_h':
                    held = n0[1]
            if held is True:
                n += 1
                if len(ds) != 1:
                    bad = bad or ('a still held frame is destroyed %d times' % len(ds), tr)
            elif ds:
                bad = bad or ('destroy on a path that did not see a held handle', tr)
        if n == 0 and not bad:
            bad = ('no path destroys a never-started frame', trs[0] if trs else [])
        ctx.ob(rid, f, f['key'], bad is None, 'destroy iff held' + ('' if not bad else ' -- ' + bad[0]), desc=bad[0] if bad else None)


def _call_sites(db, f):
    """[(caller instance, call event)] of the resolved calls of function f (all instantiations of the pattern)"""
    idx = db.__dict__.setdefault('_c04_sites', None)
    if idx is None:
        idx = {}
        for g in db.all_instances():
            for e in g.events():
                if e.k in ('call', 'construct') and e.get('callee_key'):
                    idx.setdefault(e['callee_key'], []).append((g, e))
        db.__dict__['_c04_sites'] = idx
    return idx.get(f['key'], [])


def _executes(db, f, e, env):
    """can function f, entered with the literal arguments `env`, reach its event e on a feasible path?"""
    T = Tracer(db, depth=0, limit=20000)
    trs = T.traces(f, 0, env)
    if T.truncated:
        return True
    return any(feasible(tr) and any(it.get('id') == e.get('id') and it.k == e.k and it.get('depth', 0) == 0 for it in tr) for tr in trs)


def does_only_for(db, f, e, allowed, depth=3, _seen=None):
    """may function f perform the operation e that is reserved to the functions named in `allowed`?  rules.who_ok, refined by the constants a caller
    passes: f is one of them / a closure of one / a helper reached only from them - or every call of f comes from such a function or hands f literal
    arguments under which e is not executed (a mode flag: release(false, nullptr) skips the `if (attach)` arm that does the write)"""
    if who_ok(db, f, allowed):
        return True
    _seen = set() if _seen is None else _seen
    if f['key'] in _seen or depth < 0 or f.get('lambda'):
        return False
    _seen.add(f['key'])
    sites = _call_sites(db, f)
    if not sites:
        return False
    memo = {}
    for g, c in sites:
        env = _const_args(f, c)
        k_ = tuple(sorted(env.items()))
        if env and k_ not in memo:
            memo[k_] = _executes(db, f, e, env)
        if env and not memo[k_]:
            continue          # this caller switches the operation off
        if who_ok(db, g, allowed):
            continue
        # the caller is itself a helper: it is judged as a whole (it reaches e through this call)
        if not does_only_for(db, g, c, allowed, depth - 1, _seen):
            return False
    return True


def bound_writers(ctx, db, rid_='C04.bound-party'):
    rid = ctx.rule(rid_, 'WHO', 'the pointer that decides where the result goes (async_promise::_future) is written only by start_promise (from claim()) and by the co_await '
                   'awaiter; the result is stored only through it (async_promise::resolve / unhandled_exception)', floor=2)
    found = who(db, lambda f, e: e.k == 'write' and field_of(e) == shared.FUT and not e.get('init'))
    allowed = {'cocls::async::start_promise', 'cocls::async::co_awaiter::await_suspend'}
    for fname, lst in sorted(found.items()):
        f, e = lst[0]
        ok = all(does_only_for(db, f_, e_, allowed) for f_, e_ in {(id(x[0]), x[1].get('id')): x for x in lst}.values())
        ctx.ob(rid, f, e.get('loc') or f['key'], ok, '%s only from the allowed set (here: %s)' % ('write of async_promise::_future', fname),
               detail={'allowed': sorted(allowed)} if not ok else None, desc='%s from %s' % ('write of async_promise::_future', fname))
    T = htracer(db)
    for name in ('cocls::async_promise::resolve', 'cocls::async_promise::unhandled_exception'):
        for f in db.need(name)[:1]:
            # (helpers of the class and closures handed to them are expanded: with_future([&](future<T> &f) { f.set(...); }))
            trs = [t for t in T.traces(f) if live(t) and feasible(t)]
            if T.truncated:
                raise Broken('path bound exceeded in %s' % name)
            nstore = 0; ok = bool(trs)
            for tr in trs:
                ss = all_indices(tr, lambda ev: ev.k == 'call' and norm(ev.get('callee')) in shared.SET)
                if len(ss) > 1:
                    ok = False
                for i in ss:
                    nstore += 1
                    ok = ok and _is_bound_future(f, tr, i)
            ok = ok and nstore > 0
            ctx.ob(rid, f, f['key'], ok, '%s stores into the bound future only' % name.split('::')[-1], desc='%s does not store into _future exactly once' % name)


def _is_bound_future(f, tr, i):
    """is the object of call tr[i] the future the coroutine is bound to (async_promise::_future), directly, through a local copy of the pointer
    (future<T> *f = _future; if (f) f->set(...)) or through a reference parameter of an expanded helper / closure bound to *_future?"""
    c = tr[i]
    if norm(c.get('lfield') or c.get('field') or '') == shared.FUT:
        return True
    recv = c.get('recv') or ''
    m = re.fullmatch(r'\*\((.*)\)', recv)
    p_, _ = origin_in_trace(tr, i, m.group(1) if m else recv)
    m = re.fullmatch(r'\*\((.*)\)', p_ or '')
    p_ = m.group(1) if m else (p_ or '')
    if re.search(r'(?:->|\.)_future$', p_) and (p_ == 'this->_future' or any(it.k == 'read' and it.get('path') == p_ and field_of(it) == shared.FUT for it in tr[:i])):
        return True
    if c.get('depth', 0) == 0:
        o = value_origin(f, f.ev(c['recv_ev'])) if c.get('recv_ev') is not None and f.ev(c['recv_ev']) is not None else value_origin(f, c.get('orecv') or c.get('recv'))
        return o is not None and o.k == 'read' and norm(o.get('lfield') or o.get('field') or '') == shared.FUT
    return False


def refused_start_empty(ctx, db, rid_='C04.refused-start-empty'):
    """start(promise&): a refused start hands back nothing resumable.  suspend_point(handle, value) registers the handle without testing it,
    so the handle returned by start_promise may only reach it on the edge where it was tested non-null"""
    rid = ctx.rule(rid_, 'PATHS', 'async::start(promise&): the handle returned by start_promise enters the returned suspend_point only on the edge where it tested '
                   'non-null; on the other edge the suspend_point is built without a handle and carries false', floor=1)
    n = 0
    for f, trs in traces_of(db, 'cocls::async::start', per_instance=False):
        if not any('promise' in p['type'] and '&&' not in p['type'] for p in f['params']):
            continue
        trs = [t for t in trs if live(t)]
        ctx.paths(rid, len(trs))
        bad = None; nyes = nno = 0
        for tr in trs:
            si = index_of(tr, lambda ev: ev.k == 'call' and norm(ev.get('callee')) == 'cocls::async::start_promise' and ev.get('depth', 0) == 0)
            if si < 0:
                bad = bad or ('start(promise&) does not go through start_promise', tr); continue
            hp = 'call(cocls::async::start_promise)'
            names = {hp}
            tested = None
            uw = lambda p_: re.sub(r'^(?:(?:ctor|move|forward)\()+|\)+$', '', p_ or '') + (')' if re.sub(r'^(?:(?:ctor|move|forward)\()+|\)+$', '', p_ or '').startswith('call(') else '')
            for i, it in enumerate(tr[si:], si):
                if it.k == 'decl' and uw(it.get('init') or '') in names:
                    names.add(it.get('var'))
                if it.k == 'branch' and tested is None:
                    nn = null_test(tr, i)
                    if nn and uw(nn[0]) in names:
                        tested = nn[1]
            # (the suspend point may be built by a small helper of the class that is handed the handle: start_result(start_promise(p)))
            cons = [c for c in calls(tr) if c.k == 'construct' and 'suspend_point' in (c.get('type') or '') and not c.get('copy_or_move')]
            withh = [c for c in cons if any(uw(a.get('path') or '') in names for a in c.get('args', []))]
            if withh:
                nyes += 1
                if tested is not True:
                    bad = bad or ('the handle returned by start_promise enters a suspend_point without having been tested non-null (a refused start would resume a null handle)', tr)
            else:
                nno += 1
                if tested is not False:
                    bad = bad or ('a path returns without the started coroutine although the start was not seen refused', tr)
                for c in cons:
                    cs = [a.get('const') for a in c.get('args', []) if a.get('const') is not None]
                    if cs and cs[-1] not in (0, False):
                        bad = bad or ('a refused start reports true', tr)
        if not bad and (nyes == 0 or nno == 0):
            bad = ('start(promise&) lost one of its two outcomes', trs[0] if trs else [])
        n += 1
        ctx.ob(rid, f, f['key'], bad is None, 'handle forwarded iff non-null' + ('' if not bad else ' -- ' + bad[0]), desc=bad[0][:100] if bad else None, trace=fmt_trace(bad[1]) if bad else None)
    if n == 0:
        raise Broken('async::start(promise&) not instantiated')


def bound_party_optional(ctx, db, rid_='C04.detached-delivers-to-nobody'):
    """a detached coroutine is bound to nobody: async_promise::_future is null for it.  Every delivery (value, exception, resolution) goes
    through that pointer and must be skipped when it is null"""
    rid = ctx.rule(rid_, 'GUARDED', 'async_promise (resolve, unhandled_exception, the final awaiter): the bound-future pointer _future - or a local copy of it - is '
                   'dereferenced only on the edge where it tested non-null: the body of a detached coroutine may return or throw without a party to deliver to', floor=3)
    T = htracer(db)
    seen = set(); nsite = 0; reported = set()
    for f in db.all_instances():
        if not f['nname'].startswith('cocls::async_promise::') or f['key'] in seen or f.get('kind') in ('ctor', 'dtor'):
            continue
        seen.add(f['key'])
        trs = T.traces(f)
        # (the pointer may be touched only inside a helper of the class or a closure handed to one - with_future([&](future<T> &f) {...}) - which the
        # traces expand; a site reached that way is reported once, where it is written)
        if not any('_future' in ((e.get('recv') or '') + (e.get('path') or '') + (e.get('init') or '')) for tr in trs for e in tr if e.k not in ('enter', 'leave')):
            continue
        ctx.paths(rid, len(trs))
        bad = {}; sites = set()
        for tr in trs:
            known = set(); copies = set()
            for i, it in enumerate(tr):
                if it.k == 'decl' and (it.get('init') or '').endswith('_future'):
                    copies.add(it.get('var') if (it.get('var') or '').startswith('local:') else 'local:' + (it.get('var') or ''))
                elif it.k == 'branch':
                    nt = null_test(tr, i)
                    if nt and ((nt[0] or '').endswith('_future') or nt[0] in copies):
                        (known.add if nt[1] else known.discard)(nt[0])
                elif it.k == 'call' and it.get('recv'):
                    m = re.fullmatch(r'\*\((.*)\)', it['recv'])
                    p_ = m.group(1) if m else it['recv']          # p->f(): the receiver path is the pointer itself
                    if p_ and (p_.endswith('_future') or p_ in copies):
                        sites.add(it.get('loc'))
                        if p_ not in known:
                            bad.setdefault(it.get('loc'), (p_, tr))
        for loc in sorted(sites):
            if loc in reported and bad.get(loc) is None:
                continue
            reported.add(loc)
            nsite += 1
            b = bad.get(loc)
            ctx.ob(rid, f, loc, b is None, 'the bound future is used only where it tested non-null' + ('' if not b else ' -- %s is dereferenced on a path that did not test it: a detached coroutine (no bound party) crashes here' % b[0]),
                   desc='bound-future pointer dereferenced without a null test in %s' % f['nname'] if b else None, trace=fmt_trace(b[1]) if b else None)
    if nsite == 0:
        raise Broken('no delivery through async_promise::_future found: anchor changed')
