# C08 - coroutine mutex: FIFO hand-off and no lost request
import re
from ..core import var_def, norm, relloc, live, calls, evs, Broken, value_origin, Tracer, fmt_trace, rooted, has_back_edge, tests, cond_event, pos
from .. import atomic
from ..rules import *
from . import C07

EXPLANATION = ('Static analysis of the hand-off mechanism: (a) a release whose CAS loses the race with an arriving request rebuilds the FIFO and hands over to its head on every '
               'path - it cannot return leaving the mutex locked without owner; (b) try_lock is wait-free: its call-graph closure contains no blocking primitive and no loop, '
               'and it grants exactly on the success of the CAS null->doorman; (c) the structure that yields first-come-first-served: the LIFO request stack is detached '
               'by one exchange and each request is relinked at the head of the private FIFO (reversal), the FIFO is refilled only when empty, unlock serves its head; '
               '(d) release() returns the new owner inside the suspend point (the resumption is merged, not dropped). Undecided: the grant order as a value-level '
               'statement for N waiters, and liveness.')
ASSUMPTIONS = ['reversing a LIFO stack yields arrival order (list reversal)', 'std::atomic compare_exchange_strong does not block']


def run(ctx, db, tier):
    C07.unlock_once(ctx, db, 'C08.handover-on-race')
    C07.build_queue(ctx, db, 'C08.fifo-structure')
    refill_only_when_empty(ctx, db, 'C08.refill-only-when-empty')
    try_lock(ctx, db, 'C08.try-lock')
    release_returns_owner(ctx, db, 'C08.release-returns-new-owner')
    C07.ownership_unique(ctx, db, 'C08.ownership-not-forgotten')
    C07.subscribe(ctx, db, 'C08.free-path-installs-doorman')
    C07.private_fifo(ctx, db, 'C08.release-only-through-unlock')
    from . import C02
    C02.sync_waits(ctx, db, 'C08.blocking-lock-asks-once')
    C02.link_current(ctx, db, 'C08.no-request-cut-off')
    C02.await_suspend_siblings(ctx, db, 'C08.free-path-grant-is-reported')
    from . import C06
    C06.source_reset(ctx, db, 'C08.released-owner-not-dropped')
    atomic.check_roles(ctx, db, 'C08.request-links-visible', only_functions={'cocls::mutex::ready', 'cocls::mutex::unlock', 'cocls::mutex::build_queue', 'cocls::awaiter::subscribe'}, floor=4)


def refill_only_when_empty(ctx, db, rid):
    ctx.rule(rid, 'PATHS', 'in unlock the private FIFO is rebuilt from the request stack only on the edge where it was seen empty (refilling a non-empty FIFO would put newer '
             'requests in front of older ones)', floor=1)
    for f, trs in traces_of(db, 'cocls::mutex::unlock', depth=0, per_instance=False):
        trs = [t for t in trs if live(t)]
        ctx.paths(rid, len(trs))
        bad = None; n = 0
        for tr in trs:
            for i in all_indices(tr, callee_is('cocls::mutex::build_queue')):
                n += 1
                if nonnull_on_trace(tr, i, 'this->_queue') is not False:
                    bad = bad or tr
        if n == 0:
            raise Broken('unlock no longer calls build_queue: anchor changed')
        ctx.ob(rid, f, f['key'], bad is None, 'build_queue is reached only after _queue tested empty', desc='FIFO refilled while possibly non-empty', trace=fmt_trace(bad) if bad else None)


def try_lock(ctx, db, rid):
    ctx.rule(rid, 'REACH+PATHS', 'mutex::try_lock never blocks: no blocking primitive (atomic wait, mutex lock, condition wait, blocking future wait, thread join, sleep) and no '
             'loop in its call-graph closure; it hands out an ownership of this mutex exactly on the success edge of ready(), an empty ownership otherwise', floor=3)
    roots = db.need('cocls::mutex::try_lock')[:1]
    f = roots[0]
    fns, ext, indirect = reach(db, roots)
    blocking = sorted(n for n in ext if BLOCKING.match(n))
    ctx.ob(rid, f, f['key'], not blocking, 'no blocking primitive reachable from try_lock (closure: %d library functions, %d external callees)' % (len(fns), len(ext)),
           detail={'blocking': [(b, ext[b][0], relloc(ext[b][1])) for b in blocking]}, desc='try_lock reaches a blocking primitive')
    loops = sorted({g['nname'] for g in fns if has_back_edge(g)})
    ctx.ob(rid, f, f['key'], not loops, 'no loop in any function reachable from try_lock (wait-free)', detail={'loops_in': loops}, desc='try_lock closure contains a loop')
    ctx.ob(rid, f, f['key'], not indirect, 'no indirect call reachable from try_lock', detail={'indirect': [(g['nname'], relloc(e.get('loc'))) for g, e in indirect][:5]}, desc='try_lock closure contains an indirect call')
    for g, trs in traces_of(db, 'cocls::mutex::try_lock', depth=0, per_instance=False):
        trs = [t for t in trs if live(t)]
        ctx.paths(rid, len(trs))
        bad = None; ny = 0; nn = 0
        for tr in trs:
            ri = index_of(tr, callee_is('cocls::mutex::ready'))
            if ri < 0:
                bad = bad or ('try_lock does not use the CAS try-lock', tr); continue
            won = None
            for it in tr[ri:]:
                if tests(it, tr[ri]):
                    won = it.val; break
            cons = [c for c in calls(tr) if c.k == 'construct' and norm(c.get('callee')) == 'cocls::mutex::ownership::ownership' and not c.get('copy_or_move')]
            arg = (cons[-1].get('args') or [{}])[0].get('path') if cons else None
            # the pointer handed to the ownership, judged as a value on this path: through locals (mutex *acquired = ready() ? this : nullptr;
            # return ownership(acquired);) and conditional expressions decided by the branches taken
            arg = value_on_path(tr, pos(tr, cons[-1]), arg) if cons and arg else arg
            if won is True:
                ny += 1
                if arg != 'this':
                    bad = bad or ('a successful try-lock does not hand out the ownership of this mutex', tr)
            elif won is False:
                nn += 1
                if arg not in ('nullptr',) and (cons[-1].get('args') or [{}])[0].get('const') != 0:
                    bad = bad or ('a failed try-lock hands out an ownership', tr)
            else:
                bad = bad or ('the outcome of the try-lock CAS is not tested', tr)
        if not bad and (ny == 0 or nn == 0):
            bad = ('try_lock lost its outcomes', trs[0] if trs else [])
        ctx.ob(rid, g, g['key'], bad is None, 'ownership(this) iff ready() succeeded' + ('' if not bad else ' -- ' + bad[0]), desc=bad[0] if bad else None)


def value_on_path(tr, i, p):
    """the expression whose value the path `p` has at position i of this trace: followed back through locals, values returned by expanded
    helpers and std::exchange (origin_in_trace), a conditional expression replaced by the arm the path's branches selected"""
    for _ in range(4):
        q, j = origin_in_trace(tr, i, p)
        if q is None:
            break
        q = resolve_select(q, tr[:j])
        if q == p:
            break
        p, i = q, j
    return p


def handover_callees(db, caller, ev):
    """the bodies the unlock instantiation named by call event `ev` runs as its hand-over functor: whatever it (or a helper it was split
    into) calls on its functor parameter - a closure, a local functor class or a functor class that is a member of the mutex"""
    out = []
    u = db.resolve(caller, ev['callee_key'], ev.get('callee_inst')) if ev.get('callee_key') else None
    if u is None:
        return out
    fparams = {'param:' + p['name'] for p in u['params']}
    for ub in helper_bodies(db, u):
        for x in ub.events():
            if x.k != 'call' or not x.get('callee_key'):
                continue
            tgt = x.get('recv') or x.get('callee_expr') or ''
            if ub is u and tgt not in fparams:
                continue
            if ub is not u and not tgt.startswith('param:'):
                continue
            if not norm(x.get('callee') or '').endswith('::operator()'):
                continue
            c = db.resolve(ub, x['callee_key'], x.get('callee_inst'))
            if c is not None and not any(c is o for o in out):
                out.append(c)
    return out


def release_returns_owner(ctx, db, rid):
    ctx.rule(rid, 'COUNT', 'the hand-over functors resume the waiter they receive exactly once; ownership::release merges that resumption into the suspend point it returns '
             '(the caller decides when the new owner runs), the deleter lets it run at once', floor=2)
    n = 0
    def functors(parent):
        out = []
        for f_ in db.fns(parent)[:1]:
            for g_ in helper_bodies(db, f_):
                for e_ in g_.events():
                    if e_.k == 'call' and norm(e_.get('callee')) == 'cocls::mutex::unlock':
                        n0_ = len(out)
                        for a_ in e_.get('args') or []:
                            p_ = a_.get('path') or ''
                            m_ = re.fullmatch(r'(?:move|forward)?\(?local:(\w+)\)?', p_)
                            if m_:
                                p_ = (var_def(g_, m_.group(1), e_.get('loc')) or {}).get('init') or p_
                            if p_.startswith('lambda@'):
                                out += db.closure_instances(g_, p_[7:])
                            elif 'fn:' in p_:
                                nm = re.search(r'fn:(.+?)\)*$', p_).group(1)
                                out += [x for x in db.all_instances() if x['nname'] == norm(nm)]
                        if len(out) == n0_:
                            # the functor is an object of a named class (a member struct of the mutex with operator()): it is what this
                            # instantiation of unlock calls on its functor parameter
                            out += handover_callees(db, g_, e_)
        return out
    for parent, merged in (('cocls::mutex::ownership::release', True), ('cocls::mutex::ownership_deleter::operator()', False)):
        for lf in functors(parent) or lambdas_of(db, parent):
            n += 1
            rs = [e for e in lf.events() if e.k == 'call' and norm(e.get('callee')) == 'cocls::awaiter::resume']
            ok = len(rs) == 1 and rs[0].get('recv', '').startswith('param:') and not has_back_edge(lf)
            ctx.ob(rid, lf, lf['key'], ok, 'the functor resumes its argument exactly once', desc='hand-over functor does not resume its argument exactly once')
            if ok and merged:
                use = rs[0].get('use') or ''
                ctx.ob(rid, lf, rs[0]['loc'], use.startswith('arg:cocls::suspend_point') and 'operator<<' in use, 'the resumption is merged into the returned suspend point (use: %s)' % use,
                       desc='release() drops the new owner\'s resumption instead of returning it')
            break
    if n < 2:
        raise Broken('hand-over functors of ownership::release / ownership_deleter not found')
    for f in db.need('cocls::mutex::ownership::release')[:1]:
        ok = True
        trs_ = [t for t in htracer(db).traces(f) if live(t)]
        for tr in trs_:
            unl = any(c.k == 'call' and norm(c.get('callee')) == 'cocls::mutex::unlock' for c in tr)
            rp = ret_expr(tr) or ''
            # where the mutex was unlocked the filled suspend point is what is returned; the already-released edge may answer with an empty one
            if not (re.fullmatch(r'(ctor\()?(move\()?local:\w+(#\d+)?\)*', rp) or (not unl and rp in ('ctor()', '{}', ''))):
                ok = False
        ok = ok and bool(trs_)
        ctx.ob(rid, f, f['key'], ok, 'release() returns the suspend point the functor filled', desc='release() does not return the filled suspend point')
