# tables shared by several properties; every line confirmed by reading the code (2026-09-26)

# guarded field -> mutex field (normalised declaration names). One mutex per object.
GUARDED = {
    'cocls::queue::_queue': 'cocls::queue::_mx',                 # item queue
    'cocls::queue::_awaiters': 'cocls::queue::_mx',              # waiting consumers
    'cocls::limited_queue::_blocked': 'cocls::queue::_mx',       # blocked producers (mutex inherited from queue)
    'cocls::thread_pool::_queue': 'cocls::thread_pool::_mx',
    'cocls::thread_pool::_threads': 'cocls::thread_pool::_mx',
    'cocls::thread_pool::_exit': 'cocls::thread_pool::_mx',
    'cocls::scheduler::_scheduled': 'cocls::scheduler::_mx',
    'cocls::publisher::queue::_regs': 'cocls::publisher::queue::_mx',
    'cocls::publisher::queue::_next_free': 'cocls::publisher::queue::_mx',
    'cocls::publisher::queue::_q': 'cocls::publisher::queue::_mx',
    'cocls::publisher::queue::_pos': 'cocls::publisher::queue::_mx',
    'cocls::publisher::queue::_wakeup_buffer': 'cocls::publisher::queue::_mx',
    'cocls::publisher::queue::_closed': 'cocls::publisher::queue::_mx',
}
# classes whose member functions (and lambdas inside them) are analysed for lock discipline
GUARDED_CLASSES = ['cocls::queue', 'cocls::limited_queue', 'cocls::thread_pool', 'cocls::scheduler', 'cocls::publisher::queue', 'cocls::publisher', 'cocls::subscriber']
