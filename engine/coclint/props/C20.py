# C20 - the core synchronisation primitives never allocate
import os, re
from ..core import norm, relloc, live, calls, evs, Broken, Tracer, fmt_trace
from .. import irreach, facts
from ..rules import *
from . import C05, C06, C19

EXPLANATION = ('Effect analysis (REACH) over the LLVM-IR call graph of a driver translation unit that odr-uses the core primitives for non-allocating value types (int, void, move-only, '
               'reference, a 64-byte struct), compiled at -O0 so that every source-level call is an edge: from every emitted member of future_common / future / promise / awaiter / '
               'co_awaiter / sync_awaiter / malleable_awaiter / mutex / mutex::ownership / suspend_point / async::co_awaiter / generator and its promise, awaiter and iterator, no '
               'allocation function (operator new in all forms, malloc family) is reachable except inside suspend_point<void>::add, whose allocations are proved by the AST rule to be '
               'control-dependent on the count having reached inline_count (>= 3) or the heap capacity (linear reasoning on the guard). Named boundaries: the per-thread ready queue '
               'of C05 (a std::deque; enqueueing happens only while a coroutine activation is on the stack - checked), exception allocation on error paths, coroutine ramp functions '
               'and other user code, and the helpers documented to allocate (make_promise, discard). Indirect call sites inside the reached set are listed. A non-heap storage '
               'policy keeps frames off the heap after warm-up (learned size = needed size). The claim is relative to the boundary list.')
ASSUMPTIONS = ['at -O0 clang emits a call for every source-level call (no inlining)', 'libstdc++ atomics / futex waits do not allocate', 'user coroutine frames are the user\'s allocations']

ENT = re.compile(r'cocls::(future_common|future<|promise<|awaiter::|co_awaiter<|sync_awaiter|malleable_awaiter|call_fn_awaiter|mutex::|suspend_point<|async<[^>]*>::co_awaiter|generator<|generator_iterator|callback_await_alloc<|_details::callback_await_coro<|await_result<)')
ALLOWED_ALLOC = re.compile(r'cocls::suspend_point<void>::add\b')


def boundary(mod):
    def b(n):
        d = mod.name(n)
        head = d.split('(')[0]
        if 'cocls::coro_queue::' in head or 'cocls::trailer<' in head:
            return 'coro_queue (per-thread ready queue, C05)'
        if n.startswith('__cxa_') or n in ('_Unwind_Resume', '__assert_fail', '_ZSt9terminatev', '__clang_call_terminate'):
            return 'exception / abort machinery (error paths)'
        if n.startswith('llvm.'):
            return 'compiler intrinsic'
        if re.search(r'\bcocls::(make_promise|discard|future_with_cb)\b', head):
            return 'helper documented to allocate'
        if not (head.startswith('cocls::') or ' cocls::' in head or head.startswith('std::') or ' std::' in head or head.startswith(('void ', 'auto ', 'decltype', 'bool ', 'operator', '__gnu_cxx', 'non-virtual')) or '__gnu_cxx' in head):
            if n in mod.defs:
                return 'user code in the driver (coroutine ramps, lambdas)'
            return 'external (libc / libstdc++ runtime)'
        return None
    return b


def run(ctx, db, tier):
    if ctx.cfg == 'assert' or tier == 'thorough':
        reach_rule(ctx, db, ('-UNDEBUG',) if ctx.cfg == 'assert' else ('-DNDEBUG',))
    C06.growth(ctx, db) if False else growth_guard(ctx, db)
    enqueue_only_active(ctx, db)
    install_constructs_nothing(ctx, db)
    # the ready deque is a named boundary whose only allocation is growth at the back; any other operation on it (shrink_to_fit, resize, a
    # swap with a fresh container ...) re-allocates behind that boundary on otherwise allocation-free paths
    C05.fifo_ops(ctx, db, 'C20.ready-queue-only-fifo-ops')
    if ctx.cfg == 'assert':
        from .. import witness
        witness.positive(ctx, 'C20.error-paths-allocate-no-message', 'C20_pos.cpp', 'the exceptions thrown by the core primitives (broken promise, value not ready, no more values) are '
                         'constructed without dynamic memory: nothrow default constructible, not derived from the string-carrying std exception classes, no state of their own '
                         '(the IR rule stops at the exception machinery, whose own allocation is the runtime\'s)')
    C19.trailers(ctx, db) if False else storage_learns(ctx, db)
    # "the frame of a callback awaiter disappears under a reusing storage policy": the reusing policies allocate only when the request exceeds the
    # recorded capacity and record what they allocated - otherwise every awaited operation allocates again
    C19._DB[0] = db
    C19.reuse(ctx, db, 'C20.reusing-storage-learns')


def reach_rule(ctx, db, flags):
    rid = ctx.rule('C20.no-allocation-reachable', 'REACH', 'in the -O0 LLVM IR of the core driver, the allocation call sites reachable from the entry set (every emitted member of the core '
                   'classes) through direct calls, stopping at the named boundaries, are a subset of { suspend_point<void>::add }', floor=1)
    src = os.path.join(facts.VERIF, 'drivers', 'ir', 'c20_core.cpp')
    ll = irreach.compile_ir(src, flags)
    mod = irreach.Module(ll)
    bnd = boundary(mod)
    entries = [n for n in mod.defs if ENT.search(mod.head(n)) and not bnd(n)]
    if len(entries) < 250:
        raise Broken('only %d entry functions emitted by the core driver (expected > 250): the driver no longer instantiates the core' % len(entries))
    seen, sites, parent, cut = irreach.reach(mod, entries, bnd)
    ctx.paths(rid, len(seen))
    rev = {}
    for n, d in mod.defs.items():
        for c in d['calls']:
            rev.setdefault(c, set()).add(n)

    def allowed(x, depth=3, seen_=None):
        """the growth path itself, or a helper all of whose callers (transitively) are the growth path"""
        if ALLOWED_ALLOC.search(mod.head(x)):
            return True
        seen_ = seen_ or set()
        if depth == 0 or x in seen_ or not re.search(r'cocls::suspend_point<void>::', mod.head(x)):
            return False
        seen_.add(x)
        cs = rev.get(x, set())
        return bool(cs) and all(allowed(c, depth - 1, seen_) for c in cs)
    bad = {x: s for x, s in sites.items() if not allowed(x)}
    ok_sites = {x: s for x, s in sites.items() if allowed(x)}
    for x, s in sorted(bad.items(), key=lambda kv: mod.head(kv[0])):
        ctx.ob(rid, 'IR:' + mod.head(x)[:120], src, False, 'no allocation in %s' % mod.head(x)[:100], detail={'sinks': sorted(s), 'reached_from': irreach.chain(mod, parent, x)},
               desc='allocation reachable in ' + re.sub(r'<.*', '', mod.head(x))[:80])
    if not ok_sites:
        raise Broken('the growth path of suspend_point<void>::add is not in the reached set: the driver or the entry set lost coverage')
    ctx.ob(rid, 'IR:core entry set', src, not bad, '%d entry functions, %d functions reached, allocation sites reached: %s' % (len(entries), len(seen), sorted({mod.head(x)[:60] for x in sites})),
           desc='allocation reachable from the core entry set')
    ind = sorted((mod.head(n)[:400], mod.defs[n]['ind']) for n in seen if mod.defs[n]['ind'])
    ctx.cover['ir_' + '_'.join(flags)] = {'entry_functions': len(entries), 'functions_reached': len(seen), 'functions_in_module': len(mod.defs),
                                           'allocation_sites_reached': sorted(mod.head(x)[:100] for x in sites), 'boundaries_cut': {k: len(v) for k, v in cut.items()},
                                           'indirect_call_sites_in_reached_set': sum(i for _, i in ind), 'functions_with_indirect_calls': [a[:90] for a, _ in ind][:12]}
    # indirect calls must stay within the expected carriers: awaiter::resume's function pointer and user callables of the driver
    unexpected = [a for a, _ in ind if not re.search(r'cocls::awaiter::resume|coroutine_handle<.*>::(resume|destroy|operator\(\))|cocls::future<.*>::future<|drv\(|lambda|cocls::trailer|cocls::coro_queue|operator<<|result_of|_details::callback_await_coro<|cocls::mutex::unlock<', a)]
    ctx.ob(rid, 'IR:indirect calls', src, not unexpected, 'indirect call sites in the reached set are the expected carriers (awaiter::resume function pointer, coroutine_handle::resume/destroy = the user\'s coroutine, the symmetric transfer inside the library coroutine callback_await_coro, the hand-over functor of mutex::unlock - whose possible targets are followed as address-taken references -, user callables)',
           detail={'unexpected': [u[:160] for u in unexpected[:6]]}, desc='unexpected indirect call carrier in the core')


def growth_guard(ctx, db):
    C06.growth(ctx, db) if False else None
    rid = 'C20.growth-guard'
    # same analysis as C06.growth, claimed here for "up to three ready coroutines": reuse its implementation under this rule id
    import types
    orig_rule = ctx.rule
    def rule(_rid, kind, text, floor=1):
        return orig_rule(rid, kind, text + ' (inline_count >= 3 is a compile-time witness in C06.types)', floor)
    ctx.rule = rule
    try:
        _growth_as(ctx, db, rid)
    finally:
        ctx.rule = orig_rule


def _growth_as(ctx, db, rid):
    # C06.growth, claimed under this property's id
    C06.growth(ctx, db, rid)


def enqueue_only_active(ctx, db):
    rid = ctx.rule('C20.enqueue-only-in-coroutine-mode', 'PATHS', 'the ready deque (whose growth allocates) is only appended to while a coroutine activation is on the stack: in coro_queue::resume, '
                   'suspend_point::suspend_now and suspend_point::await_suspend every enqueue lies on the active edge of the mode test, and the callables they hand to '
                   'install_queue_and_call for normal mode resume directly and do not enqueue', floor=3)
    for name in ('cocls::coro_queue::resume', 'cocls::suspend_point::suspend_now', 'cocls::suspend_point::await_suspend'):
        for f, trs in traces_of(db, name, depth=1, inline=inline_only('cocls::coro_queue::is_active'), per_instance=False, maxvisit=2):
            trs = [t for t in trs if live(t)]
            ctx.paths(rid, len(trs))
            bad = None
            for tr in trs:
                mode = C05.mode_of(tr)
                enq = [c for c in calls(tr, 0) if norm(c.get('callee')) in C05.ENQ]
                if enq and mode != 'active':
                    bad = bad or tr
            # the callables handed to install_queue_and_call (and closures written inside them) run in normal mode: they must not enqueue
            from ..core import var_def
            handed = set()
            for e in f.events():
                if e.k == 'call' and norm(e.get('callee')) in C05.INSTALL:
                    for a in e.get('args') or []:
                        p_ = a.get('path') or ''
                        m_ = re.fullmatch(r'(?:move|forward)?\(?local:(\w+)\)?', p_)
                        if m_:
                            p_ = (var_def(f, m_.group(1), e.get('loc')) or {}).get('init') or p_
                        if p_.startswith('lambda@'):
                            handed.add(p_[7:])
            for lf in lambdas_of(db, name):
                inside = lf['key'] in handed or any(a_['key'] in handed for a_ in C05._ancestors(db, lf))
                if inside and any(e.k == 'call' and norm(e.get('callee')) in C05.ENQ for e in lf.events()):
                    bad = bad or [Item(k='abort', why='callable for normal mode enqueues')]
            ctx.ob(rid, f, f['key'], bad is None, '%s enqueues only in coroutine mode' % name.split('::', 1)[1], desc='%s enqueues into the ready deque outside coroutine mode' % name,
                   trace=fmt_trace(bad) if bad else None)


OWNS_HEAP = re.compile(r'\bstd::(?:__cxx11::)?(deque|vector|list|forward_list|map|multimap|set|multiset|unordered_\w+|basic_string|string|w?stringstream|basic_\w*stringstream|function|'
                       r'any|shared_ptr|unique_ptr|queue|stack|priority_queue|promise|packaged_task|thread|jthread|condition_variable_any)\b')


def owns_heap(db, t, depth=4, seen=None):
    """does an object of type t own heap memory, so that constructing it (may) allocate: a standard container / owning smart pointer /
    type-erased callable, or a class with such a base or non-static data member held by value (transitively); returns the reason or None"""
    t = re.sub(r'\b(const|volatile|struct|class)\b', ' ', t or '').strip()
    if not t or t.endswith(('&', '*')) or '(lambda at' in t.split('<')[0]:
        return None
    head = re.sub(r'\s+', ' ', t)
    if head.startswith('std::'):
        m = OWNS_HEAP.match(head)
        if m:
            return 'std::' + m.group(1)
        if re.match(r'std::(pair|tuple|array)<', head):
            # aggregates of values: every argument is constructed with them (an empty std::optional constructs nothing)
            inner = OWNS_HEAP.search(head[5:])
            return 'std::%s inside %s' % (inner.group(1), head.split('<')[0]) if inner else None
        return None
    seen = seen if seen is not None else set()
    if depth == 0 or head in seen:
        return None
    seen.add(head)
    for c in db.classes.values():
        ci = re.sub(r'\b(struct|class)\b ?', '', c.get('inst') or '')
        hi = re.sub(r'\b(struct|class)\b ?', '', head)
        if ci == hi or ci.endswith('::' + hi):
            for x in (c.get('fields') or []):
                r = owns_heap(db, x.get('canon_type') or x.get('type'), depth - 1, seen)
                if r:
                    return '%s %s::%s' % (r, ci.split('<')[0], x.get('name'))
            for b in (c.get('bases') or []):
                r = owns_heap(db, b if isinstance(b, str) else (b.get('type') or b.get('name') or ''), depth - 1, seen)
                if r:
                    return r
            return None
    return None


def install_constructs_nothing(ctx, db):
    rid = ctx.rule('C20.install-constructs-no-heap-owner', 'PATHS', 'coro_queue::install_queue_and_call is what every resumption from normal code goes through: on every path that has not '
                   'established that a queue is already active it creates no object of a type that owns heap memory (a standard container or a class holding one by value - constructing a '
                   'std::deque allocates its map and first node) and performs no new-expression / operator new: the queue it installs is the thread\'s existing one', floor=1)
    T = htracer(db)
    fs = db.need('cocls::coro_queue::install_queue_and_call')
    seen = set()
    for f in fs:
        trs = [t for t in T.traces(f) if live(t)]
        if not trs:
            raise Broken('install_queue_and_call: no live path')
        ctx.paths(rid, len(trs))
        bad = None
        for tr in trs:
            active = False
            for i, it in enumerate(tr):
                if it.k == 'branch' and C05.mode_of([it]) is not None:
                    active = C05.mode_of([it]) == 'active'
                if active:
                    continue
                why = None
                if it.k == 'construct' or (it.k == 'decl' and not it.get('ptr') and not it.get('ref') and it.get('init_ev') is None):
                    why = owns_heap(db, it.get('type'))
                    why = why and 'an object that owns heap memory is constructed (%s: %s)' % (re.sub(r'\b(struct|class) ', '', it.get('type') or ''), why)
                elif it.k == 'new' and not it.get('placement'):
                    why = 'a new-expression is evaluated'
                elif it.k == 'call' and norm(it.get('callee') or '') == 'operator new':
                    why = 'operator new is called'
                if why:
                    bad = bad or (why + ' on a path where no queue is known to be active: every resumption from normal code allocates', tr[:i + 1])
        k = (f['key'], bad and bad[0])
        if k in seen:
            continue
        seen.add(k)
        ctx.ob(rid, f, f['key'], bad is None, 'install_queue_and_call creates no heap-owning object in normal mode' + ('' if not bad else ' -- ' + bad[0]), desc=bad[0][:140] if bad else None,
               trace=fmt_trace(bad[1]) if bad else None, inst=f['inst'])


def storage_learns(ctx, db):
    rid = ctx.rule('C20.stack-storage-learns', 'LINEAR', 'stack_storage (the non-heap policy used by scheduler::start): the size it remembers for the next call equals the size it had to allocate, '
                   'so the second and later frames fit the caller-provided block and are not heap allocated', floor=1)
    T = Tracer(db, depth=0)
    for f in db.need('cocls::stack_storage::alloc')[:1]:
        bad = None
        for tr in [t for t in T.traces(f) if live(t)]:
            nw = [it for it in tr if it.k == 'call' and norm(it.get('callee')) == 'operator new']
            st = [it for it in tr if it.k == 'write' and (it.get('path') or '') == 'this->_state']
            if nw and (len(st) != 1 or C19.lf(st[0].get('rhs')) != C19.lf(C19._size_arg(nw[0]))):
                bad = 'learned size %s != allocated size %s' % ([s.get('rhs') for s in st], C19._size_arg(nw[0]))
            if not nw and st:
                bad = bad or 'the learned size is overwritten on the in-place path'
            if nw and len(st) == 1 and not bad:
                # ... and the fit test accepts a block of exactly the learned size: with _alloc_size = learned size the same request takes the
                # in-place branch (sz + 1 <= sz + 1).  A strict comparison sends every later frame to the heap again
                learned = C19.lf(st[0].get('rhs'))
                br = next((it for it in tr if it.k == 'branch' and '_alloc_size' in (it.path or '')), None)
                sc = split_cmp(br.path) if br is not None else None
                if sc is None or learned is None:
                    raise Broken('stack_storage::alloc: fit test against _alloc_size not recognised')
                def sub_(e_):
                    l_ = C19.lf(e_)
                    if l_ is None:
                        return None
                    l_ = dict(l_); c_ = l_.pop('this->_alloc_size', 0)
                    for a_, v_ in learned.items():
                        l_[a_] = l_.get(a_, 0) + c_ * v_
                    return {a_: v_ for a_, v_ in l_.items() if v_}
                a_, b_ = sub_(sc[0]), sub_(sc[2])
                if a_ is None or b_ is None:
                    raise Broken('stack_storage::alloc: fit test is not linear')
                d_ = {k_: a_.get(k_, 0) - b_.get(k_, 0) for k_ in set(a_) | set(b_)}
                d_ = {k_: v_ for k_, v_ in d_.items() if v_}
                if set(d_) - {''}:
                    raise Broken('stack_storage::alloc: fit test does not compare the request with the block size')
                dv = d_.get('', 0)
                holds = {'<': dv < 0, '<=': dv <= 0, '>': dv > 0, '>=': dv >= 0, '==': dv == 0, '!=': dv != 0}[sc[1]]
                # this trace is the heap path: the branch outcome it took is br.val; in-place is the other outcome
                inplace_when = not bool(br.val)
                if holds != inplace_when:
                    bad = 'a block of exactly the learned size is rejected by the fit test (%s): every later frame is heap allocated again' % br.path
        ctx.ob(rid, f, f['key'], bad is None, 'learned size = allocated size' + ('' if not bad else ' -- ' + bad), desc=bad)
from ..core import Item
