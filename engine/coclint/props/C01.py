# C01 - a future is resolved exactly once, by exactly one winner
import re
from ..core import norm, relloc, live, calls, evs, Broken, value_origin, Tracer, fmt_trace, pos
from .. import atomic, witness
from ..rules import *
from . import shared

EXPLANATION = ('Static analysis of the election mechanism behind C01 over all CFG paths of every instantiation: the claim is a single atomic RMW exchange with null; '
               'every resolver (set_value overloads, set_exception, ~promise, operator=, async_promise) touches the future only through the claim result on its '
               'non-null edge, stores before it resolves, resolves exactly once on the winner edge and does nothing on the loser edge, and reports true/false '
               'accordingly; the payload/state words of a future are written only by future\'s own constructors/destructor/set; value() maps no-value to '
               'await_canceled_exception; promise is move-only and future is immovable (compile-time witnesses). Undecided: the interleavings themselves '
               '(that an atomic exchange hands the non-null pointer to exactly one caller is the C++ standard\'s guarantee), payload integrity for throwing '
               'value constructors, instance-counter balance.')
ASSUMPTIONS = ['std::atomic::exchange is atomic (C++ [atomics])', 'a destructor has exclusive access to its object']

CLAIM = 'cocls::promise::claim'
SET = ('cocls::future::set', 'cocls::future::set_ref')
RES = ('cocls::future::resolve',)
OWNER = 'cocls::promise::_owner'
FUT = 'cocls::async_promise::_future'
CP = 'call(cocls::promise::claim)'


def run(ctx, db, tier):
    claim_rmw(ctx, db)
    resolvers(ctx, db)
    receivers(ctx, db)
    dtor_and_assign(ctx, db)
    async_side(ctx, db)
    who_writes(ctx, db)
    no_value(ctx, db)
    state_tag_agrees(ctx, db)
    has_value_agrees(ctx, db)
    from . import C02
    C02.resolve_one_rmw(ctx, db, 'C01.resolve-one-rmw')
    # a refused late subscriber must stay reusable: an awaiter left pointing at the ready marker would, on its next subscription, swap the marker
    # out of an already resolved future (the result "changes afterwards": ready() flips back to false)
    C02.subscribe_protocol(ctx, db, 'C01.refusal-keeps-result-final')
    # ... and the refusal must be decided by the same atomic step that would register: a ready test followed by the unconditional push replaces
    # the ready marker of a future resolved in between (ready() flips back to false after the winner reported success)
    C02.registration_one_step(ctx, db, 'C01.ready-marker-never-pushed-over')
    # a registration that is reported as made whatever the slot held makes every caller's "after subscribe" code run against a published awaiter
    from .. import publish as publish_
    publish_.check_no_touch(ctx, db, 'C01.registered-waiter-untouched', publish_.Summaries(db), per_instance=(tier == 'thorough'), floor=12)
    atomic.check_roles(ctx, db, 'C01.result-visible-to-pollers', only_functions=C02.RESULT_VISIBILITY_FUNCTIONS, floor=8)
    result_immutable(ctx, db)
    shared.claimed_promise(ctx, db, 'C01.lost-claim-starts-nothing')
    # the winner's resolution must be observable "rather than as a hang": a thread that registers too late must not block, and an awaiter
    # that is registered must already carry what the resolver will call
    C02.sync_waits(ctx, db, 'C01.resolved-future-blocks-nobody')
    from .. import publish
    C02.init_before_publish(ctx, db, publish.Summaries(db), 'C01.registered-waiter-is-complete')
    resolved_constructors(ctx, db)
    if ctx.cfg == 'assert':
        witness.positive(ctx, 'C01.types', 'C01_pos.cpp', 'promise<T> is move-only, future<T> is neither copyable nor movable (static_assert witnesses over the value-type matrix)')
        witness.negative(ctx, 'C01.types-neg', 'C01_neg.cpp', 'copying a promise / moving a future must not compile')


def claim_rmw(ctx, db, rid='C01.claim-rmw'):
    rid = ctx.rule(rid, 'ATOMIC', 'promise::claim performs exactly one operation on the owner pointer: an atomic read-modify-write exchange whose new value is null, and returns its result')
    for f in db.need(CLAIM)[:1] if False else _one_per_key(db, CLAIM):
        ops = [e for e in f.events() if atomic.is_atomic_call(e) and norm(e.get('field')) == OWNER]
        ok = len(ops) == 1 and atomic.opname(ops[0]) == 'exchange' and (ops[0].get('args') or [{}])[0].get('const') == 0
        rets = [e for e in f.events() if e.k == 'return']
        ok_ret = ok and len(rets) == 1 and rets[0].get('ret_ev') == ops[0]['id']
        if ok and not ok_ret:
            # through a local:  T *const previous = _owner.exchange(nullptr);  return previous;
            trs_ = [t for t in Tracer(db, depth=0).traces(f) if live(t)]
            ok_ret = bool(trs_) and all(re.fullmatch(r'call\(std::atomic[^()]*::exchange\)', origin_in_trace(t, len(t), ret_expr(t))[0] or '') for t in trs_)
        ctx.ob(rid, f, f['key'], ok, 'the claim is one atomic exchange(nullptr) on _owner (found: %s)' % ', '.join(atomic.opname(o) for o in ops), desc='claim is not a single exchange(nullptr)')
        ctx.ob(rid, f, f['key'], ok_ret, 'claim returns exactly the value obtained by the exchange', desc='claim does not return the exchanged value')


def _one_per_key(db, name):
    out = []
    for k in db.find(name):
        f = db.rep(k)
        if not f.get('lambda'):
            out.append(f)
    if not out:
        raise Broken('anchor vanished: ' + name)
    return out


def _is_drop(f):
    return any('DropTag' in p['type'] for p in f['params'])


def resolvers(ctx, db, rid1='C01.set-then-resolve', rid2='C01.verdict'):
    r1 = ctx.rule(rid1, 'ORDER+COUNT', 'every resolver: on the winner edge of the claim, set at most once, resolve exactly once, set before resolve; on the loser edge neither (leaves no trace)', floor=4)
    r2 = ctx.rule(rid2, 'COUNT', 'the bool carried by the returned suspend_point<bool> is constant true on every winner path and constant false on every loser path', floor=2)
    inl = inline_only(CLAIM, 'cocls::promise::set_value', 'cocls::promise::set', 'cocls::promise::resolve', 'cocls::promise::operator()')
    for root in ('cocls::promise::set_value', 'cocls::promise::set_exception', 'cocls::promise::operator()', 'cocls::promise::unhandled_exception'):
        for f, trs in traces_of(db, root, depth=3, inline=inl, need=(1 if root.endswith(('set_value', 'set_exception', 'operator()')) else 0)):
            trs = [t for t in trs if live(t)]
            ctx.paths(r1, len(trs))
            res = {'win': [], 'lose': [], 'nobranch': []}
            verdict_bad = None; order_bad = None
            for tr in trs:
                win = None; seq = []
                for i, it in enumerate(tr):
                    if it.k == 'branch':
                        n = nullness(it)
                        if n and n[0] == CP and win is None:
                            win = n[1]
                    ev = it
                    if it.k in ('enter', 'leave'):
                        continue
                    if ev.k == 'call' and norm(ev.get('callee')) in SET:
                        if not (it.k != 'enter' and False):
                            seq.append(('set', ev.get('recv'), ev))
                    if ev.k == 'call' and norm(ev.get('callee')) in RES:
                        seq.append(('resolve', ev.get('recv'), ev))
                # set() on a reference future calls set_ref internally (nested): count only outermost set per frame depth
                sets = [s for s in seq if s[0] == 'set']
                outer_sets = [s for s in sets if norm(s[2].get('fname') or '') not in SET]
                ress = [s for s in seq if s[0] == 'resolve']
                names = [s[0] for s in seq if s[0] == 'resolve' or s in outer_sets]
                key = 'nobranch' if win is None else ('win' if win else 'lose')
                ok = True; why = ''
                if win is None and (outer_sets or ress):
                    ok = False; why = 'the future is touched on a path that never tested the claim result'
                elif win is True:
                    if len(ress) != 1:
                        ok = False; why = 'resolve is called %d times on the winner edge' % len(ress)
                    elif len(outer_sets) > 1:
                        ok = False; why = 'set is called %d times on the winner edge' % len(outer_sets)
                    elif outer_sets and names.index('resolve') < names.index('set'):
                        ok = False; why = 'resolve() precedes set(): waiters are released before the payload is stored'
                    elif not _is_drop(f) and root.endswith('set_value') and len(outer_sets) != 1:
                        ok = False; why = 'the winner does not store its payload (set called %d times)' % len(outer_sets)
                    elif any(_pointee(s[1]) != CP for s in outer_sets + ress):
                        ok = False; why = 'set/resolve receiver is not the pointer obtained from claim()'
                    elif root.endswith('set_value') and not _is_drop(f) and len(outer_sets) == 1 and outer_sets[0][2].get('depth', 0) == 0 and \
                            len([a for a in (outer_sets[0][2].get('args') or []) if not a.get('default')]) != len(f['params']):
                        # the result is exactly the winner's payload: every argument of the resolver reaches set() (an exception handed to a
                        # promise<void> is a payload too)
                        ok = False; why = 'set() receives %d of the %d arguments of the resolver: the winner\'s payload (%s) is not what is stored' % (
                            len(outer_sets[0][2].get('args') or []), len(f['params']), ', '.join(p_['type'] for p_ in f['params']))
                elif win is False and (outer_sets or ress):
                    ok = False; why = 'the loser of the claim touches the future'
                if not ok and order_bad is None:
                    order_bad = (why, tr)
                res[key].append(tr)
                # verdict: returns in frames of set_value
                if f['nname'] == 'cocls::promise::set_value' and win is not None:
                    ret = [it for it in tr if it.k == 'return' and it.get('depth') == 0]
                    if ret:
                        v = _verdict(f, ret[-1])
                        if v is not None and bool(v) != bool(win) and verdict_bad is None:
                            verdict_bad = ('a %s path reports %s' % ('winner' if win else 'loser', 'true' if v else 'false'), tr)
            if not res['win'] or not res['lose']:
                if f['nname'] in ('cocls::promise::set_value', 'cocls::promise::set_exception'):
                    ctx.ob(r1, f, f['key'], False, 'resolver has both a winner and a loser edge on the claim result', desc='no branch on the claim result',
                           detail={'winner_paths': len(res['win']), 'loser_paths': len(res['lose'])})
                    continue
            ctx.ob(r1, f, f['key'], order_bad is None, 'winner: set<=1, resolve==1, set before resolve, receiver = claim(); loser: no trace' + ('' if order_bad is None else ' -- ' + order_bad[0]),
                   desc=(order_bad[0] if order_bad else None), trace=(fmt_trace(order_bad[1], limit=40) if order_bad else None))
            if f['nname'] == 'cocls::promise::set_value':
                ctx.ob(r2, f, f['key'], verdict_bad is None, 'reported bool equals the outcome of the claim' + ('' if verdict_bad is None else ' -- ' + verdict_bad[0]),
                       desc=(verdict_bad[0] if verdict_bad else None), trace=(fmt_trace(verdict_bad[1], limit=30) if verdict_bad else None))
    payload_forwarded(ctx, db, r1)


def payload_forwarded(ctx, db, rid):
    """the winner's payload is stored as the caller handed it in: a resolver (and the future's set it hands the payload to) takes its arguments
    as forwarding references; an argument bound to the caller's lvalue must arrive at the payload constructor as an lvalue (std::forward), so the
    stored result is a copy - std::move of such a parameter steals the caller's object (queue::push(lvalue) handing an item to a parked pop
    empties the producer's item)"""
    seen = {}; n = 0
    for f in db.all_instances():
        if norm(f.get('class') or '') not in ('cocls::promise', 'cocls::future', 'cocls::async_promise') or f.get('lambda'):
            continue
        fwd = {p_['name'] for p_ in (f.get('pattern_params') or []) if p_.get('name') and re.fullmatch(r'\w+\s*&&\s*(\.\.\.)?', (p_.get('type') or '').strip())}
        if not fwd:
            continue
        # the parameters of this instantiation that are bound to an lvalue of the caller (T& && collapses to T&)
        lv = {p_['name'] for p_ in f['params'] if re.sub(r'#\d+$', '', p_.get('name') or '') in fwd and re.search(r'[^&]&$', (p_.get('type') or '').strip())}
        n += 1
        st = seen.setdefault(f['key'], {'f': f, 'bad': None, 'lvalue_insts': 0})
        st['lvalue_insts'] += bool(lv)
        for e in f.events():
            if e.k == 'call' and norm(e.get('callee') or '') == 'std::move':
                m_ = re.fullmatch(r'param:(\w+(?:#\d+)?)', ((e.get('args') or [{}])[0].get('path') or ''))
                if m_ and m_.group(1) in lv and st['bad'] is None:
                    st['bad'] = (e, f.get('inst'), next(p_['type'] for p_ in f['params'] if p_['name'] == m_.group(1)))
    if n == 0:
        raise Broken('no resolver with forwarding-reference parameters found (promise::set_value(Args&&...))')
    for k_, st in sorted(seen.items()):
        f = st['f']; bad = st['bad']
        ctx.ob(rid, f, (bad[0].get('loc') if bad else None) or f['key'], bad is None,
               '%s hands its forwarding-reference arguments on with std::forward: an argument bound to the caller\'s lvalue is never moved from' % f['nname'].split('::', 1)[-1] +
               ('' if not bad else ' -- std::move of a parameter of type %s in %s' % (bad[2], bad[1])),
               desc=('the payload is moved out of the caller\'s lvalue: std::move applied to a forwarding-reference parameter instantiated as %s (the stored result is stolen from, not copied of, what the caller passed)' % bad[2]) if bad else None)


def _pointee(p):
    """the pointer behind a receiver path: a member called on *(p) (through a reference bound to *p, or handed as *p to a closure or helper
    that takes the future by reference) is called on the object p points to, exactly like p->member()"""
    p = p or ''
    for _ in range(4):
        m = re.fullmatch(r'\*\((.*)\)', p) or re.fullmatch(r'&\(\*\((.*)\)\)', p)
        if not m or m.group(1).count('(') != m.group(1).count(')') or _unbalanced(m.group(1)):
            break
        p = m.group(1)
    return p


def _unbalanced(t):
    d = 0
    for ch in t:
        d += ch == '('
        d -= ch == ')'
        if d < 0:
            return True
    return d != 0


def _verdict(f, ret):
    """constant bool handed to the suspend_point<bool> constructor that is returned; None when not constant"""
    e = f.ev(ret.get('ret_ev')) if ret.get('ret_ev') is not None else None
    if e is None or e.k != 'construct' or 'suspend_point<bool>' not in (e.get('type') or '').replace('_Bool', 'bool'):
        return None
    cs = [a.get('const') for a in e.get('args', []) if (a.get('type') or '') in ('_Bool', 'bool') and a.get('const') is not None]
    return cs[-1] if cs else None


def receivers(ctx, db, rid='C01.claim-guards'):
    """claim-guards, interprocedural: every call of future::set / set_ref / resolve anywhere in the library has a receiver that is
    the result of claim(), the async_promise's bound future, the owner pointer read in a destructor, or this future itself"""
    rid = ctx.rule(rid, 'WHO+PATHS', 'every call of future::set/set_ref/resolve has as receiver: the result of promise::claim(), '
                   'async_promise::_future, the owner pointer inside ~promise, or the future itself (its own members); parameters are followed to all call sites', floor=5)

    def classify(f, e):
        recv = e.get('recv') or ''
        o = f.ev(e.get('recv_ev')) if e.get('recv_ev') is not None else None
        return classify_value(f, o, recv, 0)

    def classify_value(f, o, recv, depth, hops=0, fld=None):
        cls = norm(f.get('class') or '')
        if o is None and _pointee(recv) != recv:
            return classify_value(f, None, _pointee(recv), depth, hops, fld)      # (*p).set() is p->set()
        if o is None and norm(fld or '') == FUT and re.search(r'(->|\.)_future$', recv or ''):
            return 'async-future'       # the bound future named as a member expression (handed on as *_future) rather than read into a local
        if recv == 'this' and cls in ('cocls::future', 'cocls::future_common'):
            # the future storing into itself: only the set family delegating to a sibling (set -> set_ref) and the tagged constructors do that;
            # any other member that stores a payload into *this does so without the claim and without releasing the waiters
            if f['nname'] in SET or f.get('kind') == 'ctor' or depth > 0:
                return 'self'
            return 'other:this (a payload stored by the future into itself outside the set family: nobody resolves it)'
        org = value_origin(f, o) if o is not None else value_origin(f, recv)
        path = recv
        if org is not None and org.k == 'call' and norm(org.get('callee')) == CLAIM:
            return 'claim'
        if org is not None and org.k == 'call' and atomic.is_atomic_call(org) and norm(org.get('field')) == OWNER and f.get('kind') == 'dtor':
            return 'owner-in-dtor'
        if org is not None and org.k == 'read' and norm(org.get('lfield') or '') == FUT:
            return 'async-future'
        if org is not None and org.k in ('use', 'read') and re.fullmatch(r'param:\w+', org.get('path') or ''):
            path = org['path']
        if org is not None and org.k == 'decl' and org.get('ref') and hops < 4 and _pointee(org.get('init') or '') != (org.get('init') or ''):
            # a reference local bound to the pointee (future<T> &target = *m;): the receiver is what the pointer is
            return classify_value(f, None, _pointee(org['init']), depth, hops + 1)
        m = re.fullmatch(r'capture:(\w+)', path or '')
        if m and f.get('lambda') and hops < 4:
            # a closure's capture is the value the creating function captured (its local / parameter, or the init-capture's initialiser)
            src = _capture_source(db, f, m.group(1))
            if src is not None:
                return classify_value(src[0], None, src[1], depth, hops + 1)
        m = re.fullmatch(r'param:(\w+)', path or '')
        if m and depth < 3:
            # a parameter (of a helper): every call site must pass a value that is itself an accepted receiver
            idx = next((i for i, p in enumerate(f['params']) if p['name'] == m.group(1)), None)
            sites = []
            for g in db.all_instances():
                for ce in g.events():
                    if ce.k == 'call' and ce.get('callee_key') == f['key'] and idx is not None and idx < len(ce.get('args') or []):
                        a = ce['args'][idx]
                        ao = g.ev(a.get('ev')) if a.get('ev') is not None else None
                        sites.append(classify_value(g, ao, a.get('path') or '', depth + 1, 0, a.get('field')))
            if sites and all(not s.startswith('other') and s != 'param-uncalled' for s in sites):
                return sorted(set(sites))[0] + '-via-param'
            if not sites:
                return 'param-uncalled'
        return 'other:' + (path or '?')
    seen = set()
    for f in db.all_instances():
        for e in f.events():
            if e.k == 'call' and norm(e.get('callee')) in SET + RES:
                k = (f['key'], e['loc'])
                if k in seen:
                    continue
                seen.add(k)
                c = classify(f, e)
                ctx.ob(rid, f, e['loc'], not c.startswith('other'), '%s is called on %s' % (norm(e['callee']).split('::')[-1], c), desc='%s on a receiver that is not the claim result' % norm(e['callee']))


def _capture_source(db, lf, name):
    """(creating function instance, path) of what the closure lf captured under `name`"""
    for pk in (lf.get('encl_key'), lf.get('parent_key')):
        pf = db.get(pk, lf.get('parent_inst')) if pk else None
        if pf is None:
            continue
        for e in pf.events():
            if e.k == 'lambda' and e.get('fn_key') == lf['key']:
                for c in e.get('captures', []):
                    if c.get('name') == name:
                        if c.get('init_capture') and c.get('init'):
                            return pf, c['init']
                        return pf, ('param:' if any(p_['name'] == name for p_ in pf['params']) else 'local:') + name
    return None


def dtor_and_assign(ctx, db, rid='C01.dtor-resolves'):
    rid = ctx.rule(rid, 'COUNT+ORDER', '~promise resolves the future exactly once when the owner pointer is non-null and not otherwise; '
                   'move-assignment drops the overwritten promise before it takes the new owner, and only self-assignment leaves the target untouched', floor=2)
    for f, trs in traces_of(db, 'cocls::promise::~promise', depth=0, per_instance=True):
        trs = [t for t in trs if live(t)]
        ctx.paths(rid, len(trs))
        one = 0; bad = None
        for tr in trs:
            rs = [c for c in calls(tr) if norm(c.get('callee')) in RES]
            if len(rs) > 1:
                bad = 'resolve called twice'
            elif len(rs) == 1:
                i = index_of(tr, lambda ev: ev is rs[0])
                if nonnull_on_trace(tr, i, rs[0].get('recv')) is not True:
                    bad = 'resolve on an untested pointer'
                else:
                    one += 1
            else:
                if not any(it.k == 'branch' and nullness(it) and nullness(it)[1] is False for it in tr):
                    bad = 'a path leaves the destructor without resolving and without having seen a null owner'
        if one == 0 and not bad:
            bad = 'no path resolves the future'
        ctx.ob(rid, f, f['key'], bad is None, 'a promise destroyed while it still owns a future resolves it (to no-value) exactly once' + ('' if not bad else ' -- ' + bad), desc=bad)
    for f, trs in traces_of(db, 'cocls::promise::operator=', depth=0, per_instance=True):
        trs = [t for t in trs if live(t)]
        ctx.paths(rid, len(trs))
        bad = None; n = 0
        for tr in trs:
            wi = index_of(tr, lambda ev: ev.k == 'call' and atomic.is_atomic_call(ev) and norm(ev.get('field')) == OWNER and atomic.opname(ev) in ('operator=', 'store', 'exchange'))
            if wi < 0:
                # the only assignment that may leave the target as it is is self-assignment: assigning an empty promise must still drop what the
                # target held (p = {} is how a promise is given up; its future would stay pending for ever)
                self_ = False
                for it in tr:
                    if it.k == 'branch':
                        m_ = re.fullmatch(r'\((this|&\(param:\w+\)) (==|!=) (this|&\(param:\w+\))\)', it.path or '')
                        if m_ and m_.group(1) != m_.group(3) and (m_.group(2) == '==') == bool(it.val):
                            self_ = True
                if not self_:
                    bad = bad or 'a move assignment that is not a self-assignment leaves the target untouched: the promise it held is neither dropped nor replaced'
                continue
            n += 1
            di = index_of(tr, lambda ev: ev.k == 'call' and norm(ev.get('callee')) in ('cocls::promise::set_value', 'cocls::promise::operator()') and ev.get('recv') == 'this')
            if di < 0 or di > wi:
                bad = bad or 'the owner pointer is overwritten without dropping the promise it held'
        if n == 0:
            bad = bad or 'move-assignment never takes the new owner'
        ctx.ob(rid, f, f['key'], bad is None, 'operator=(promise&&): set_value(drop) precedes the store of the new owner' + ('' if not bad else ' -- ' + bad), desc=bad)


def async_side(ctx, db):
    rid = ctx.rule('C01.async-resolver', 'COUNT', 'async_promise::resolve / unhandled_exception store into the bound future exactly once when it is non-null and never otherwise', floor=2)
    for name in ('cocls::async_promise::resolve', 'cocls::async_promise::unhandled_exception'):
        for f, trs in traces_of(db, name, depth=0, per_instance=True):
            trs = [t for t in trs if live(t)]
            ctx.paths(rid, len(trs))
            bad = None; one = 0
            for tr in trs:
                ss = [c for c in calls(tr) if norm(c.get('callee')) in SET]
                if len(ss) > 1:
                    bad = 'set called twice'
                elif len(ss) == 1:
                    i = index_of(tr, lambda ev: ev is ss[0])
                    if nonnull_on_trace(tr, i, _pointee(ss[0].get('recv'))) is not True:
                        bad = 'set on an untested bound-future pointer'
                    one += 1
            if one == 0 and not bad:
                bad = 'no path stores the result'
            ctx.ob(rid, f, f['key'], bad is None, 'the coroutine result is stored into the bound future once, only if one is bound' + ('' if not bad else ' -- ' + bad), desc=bad)
    rid2 = ctx.rule('C01.bound-future-writers', 'WHO', 'async_promise::_future is written only by async::start_promise (from promise::claim()) and async::co_awaiter::await_suspend (the awaiter\'s own private future)')
    is_write = lambda f, e: e.k == 'write' and field_of(e) == FUT and not e.get('init')
    found = who(db, is_write)
    allowed = {'cocls::async::start_promise', 'cocls::async::co_awaiter::await_suspend'}
    # a helper that contains the write is shared code: it may also be reached from a function outside the set as long as no feasible path of
    # that function performs the write (release_coro(attach = false, nullptr) called by start_coro never gets to the assignment)
    lenient = {fname: lst for fname, lst in found.items() if fname not in allowed and not who_ok(db, lst[0][0], allowed) and _writes_only_for(db, lst[0][0], allowed, is_write)}
    check_who(ctx, rid2, {k_: v_ for k_, v_ in found.items() if k_ not in lenient}, allowed, 'write of async_promise::_future', db=db)
    for fname, lst in sorted(lenient.items()):
        f, e = lst[0]
        ctx.ob(rid2, f, e.get('loc') or f['key'], True, '%s only from the allowed set (here: %s, on the paths of the allowed callers only)' % ('write of async_promise::_future', fname))
    for fname, lst in found.items():
        if fname == 'cocls::async::co_awaiter::await_suspend' or who_ok(db, lst[0][0], {'cocls::async::co_awaiter::await_suspend'}):
            continue          # the awaiter's own private future
        # start_promise, or the helper that stores on its behalf: what is stored is the claim result (a helper's parameter is followed to its
        # call sites; a caller that passes a literal null binds nothing)
        f, e = lst[0]
        o = f.ev(e.get('rhs_ev')) if e.get('rhs_ev') is not None else None
        what = _bound_value(db, f, o, e.get('rhs'))
        ctx.ob(rid2, f, e['loc'], what == 'claim', 'start_promise binds the future obtained from promise::claim()', desc='start_promise binds something else than claim()')


def _feasible(tr):
    """a path on which a branch tests a literal (a constant argument substituted for a helper's parameter) with the other outcome cannot run"""
    for it in tr:
        if it.k != 'branch':
            continue
        p = it.path or ''; v = bool(it.val)
        while p.startswith('!(') and p.endswith(')'):
            p = p[2:-1]; v = not v
        if (p in ('false', '0', 'nullptr') and v) or (p in ('true', '1') and not v):
            return False
    return True


def _writes_only_for(db, f, allowed, is_write):
    """f (a helper that contains the reserved write) is called by functions outside `allowed` as well: is the write nevertheless performed
    only on behalf of allowed functions - every other caller expands f on its paths (a helper of its class) and none of its feasible paths
    reaches the write"""
    cs = callers_of(db, f['nname'])
    if not cs:
        return False
    T = htracer(db)
    for c in sorted(cs):
        if c in allowed or only_reached_from(db, c, allowed):
            continue
        for g in db.fns(c, lambdas=True):
            trs = T.traces(g)
            if T.truncated:
                raise Broken('path bound exceeded in %s' % c)
            for tr in trs:
                if _feasible(tr) and any((it.k == 'write' and is_write(g, it)) or (it.k in ('call', 'construct') and not it.get('expanded') and norm(it.get('callee') or '') == f['nname'])
                                         for it in tr):
                    return False
    return True


def _bound_value(db, f, o, path, depth=0):
    """'claim' when the value (event o / path) is the result of promise::claim(), followed through locals and - for a helper's parameter - to
    every call site, where a literal null (nothing bound) is allowed next to at least one claim; otherwise a description of what it is"""
    org = (value_origin(f, o) if o is not None else value_origin(f, path)) or o
    if org is not None and org.k == 'call' and norm(org.get('callee')) == CLAIM:
        return 'claim'
    p = path
    if org is not None and org.k in ('use', 'read') and re.fullmatch(r'param:\w+', org.get('path') or ''):
        p = org['path']
    m = re.fullmatch(r'param:(\w+)', p or '')
    if m and depth < 3:
        idx = next((i for i, p_ in enumerate(f['params']) if p_['name'] == m.group(1)), None)
        sites = []
        for g in db.all_instances():
            for ce in g.events():
                if ce.k == 'call' and ce.get('callee_key') == f['key'] and idx is not None and idx < len(ce.get('args') or []):
                    a = ce['args'][idx]
                    if (a.get('path') or '') in ('nullptr', '0', 'ctor(nullptr)') or (a.get('const') == 0 and a.get('ev') is None):
                        sites.append('null')
                    else:
                        sites.append(_bound_value(db, g, g.ev(a['ev']) if a.get('ev') is not None else None, a.get('path'), depth + 1))
        if sites and 'claim' in sites and all(s_ in ('claim', 'null') for s_ in sites):
            return 'claim'
    return 'other:%s' % (p or '?')


STATE_FIELDS = ('cocls::future_common::_state', 'cocls::future::(anonymous)::_value', 'cocls::future::(anonymous)::_ptr_value', 'cocls::future::(anonymous)::_exception')
STATE_WRITERS = {'cocls::future::future', 'cocls::future_common::future_common', 'cocls::future::~future', 'cocls::future::set', 'cocls::future::set_ref'}


def who_writes(ctx, db):
    rid = ctx.rule('C01.who-writes', 'WHO', 'the state tag and the value union of a future (assignment, placement-new, explicit destructor call) are written only by '
                   'future\'s constructors, destructor, set and set_ref', floor=3)

    def pred(f, e):
        if e.k == 'write' and field_of(e) in STATE_FIELDS:
            return True
        if e.k == 'new' and e.get('placement') and norm(e['placement'][0].get('field') or '') .startswith('cocls::future::(anonymous)'):
            return True
        if e.k == 'call' and '::~' in (e.get('callee') or '') and norm(e.get('field') or '').startswith('cocls::future::(anonymous)'):
            return True
        return False
    check_who(ctx, rid, who(db, pred), STATE_WRITERS, 'write of the future\'s state/value', db=db)
    rid2 = ctx.rule('C01.resolve-one-way', 'WHO', 'awaiter::resume_chain_set_ready (the only way the slot becomes "ready") is called only by future::resolve')
    check_who(ctx, rid2, who(db, lambda f, e: e.k == 'call' and norm(e.get('callee')) == 'cocls::awaiter::resume_chain_set_ready'), {'cocls::future::resolve'}, 'call of resume_chain_set_ready', db=db)


def no_value(ctx, db):
    rid = ctx.rule('C01.no-value', 'PATHS', 'future::value(): the not-a-value state never returns normally; when the future is not pending it throws await_canceled_exception', floor=2)
    for f, trs in traces_of(db, 'cocls::future::value', depth=0, per_instance=False):
        ctx.paths(rid, len(trs))
        bad = None; seen_cancel = False
        for tr in trs:
            # which state tags are still possible at the end of this path (switch arms and ==/!= tests of the tag or of a local copy of it)
            possible = {'not_value', 'value', 'value_ref', 'exception'}
            names = {'this->_state'}; tested = False
            for it in tr:
                if it.k == 'decl' and (it.get('init') or '') in names:
                    names.add(it.get('var'))
                elif it.k == 'switch' and (it.path or '') in names:
                    tested = True
                    lab = it.label or {}
                    if not (lab.get('kind') == 'default' or (lab.get('kind') == 'case' and lab.get('const') == 0)):
                        possible.discard('not_value')
                elif it.k == 'branch':
                    m = re.fullmatch(r'\((.+) (==|!=) decl:cocls::future_common::State::(\w+)\)', it.path or '')
                    if m and m.group(1) in names:
                        tested = True
                        if (m.group(2) == '==') == bool(it.val):
                            possible &= {m.group(3)}
                        else:
                            possible.discard(m.group(3))
            if not tested or 'not_value' not in possible:
                continue
            thr = [it for it in tr if it.k == 'throw']
            if live(tr) or not thr:
                bad = 'the not-a-value arm can return normally'
                continue
            pend = [it for it in tr if it.k == 'branch' and 'pending' in (it.path or '') + (it.get('opath') or '')]
            if pend and (pend[-1].val if 'pending' in (pend[-1].path or '') else pend[-1].get('oval', pend[-1].val)) is False:
                if 'await_canceled_exception' in (thr[-1].get('type') or ''):
                    seen_cancel = True
                else:
                    bad = 'a resolved future without value throws %s instead of await_canceled_exception' % thr[-1].get('type')
        if not seen_cancel and not bad:
            bad = 'no path maps the resolved no-value state to await_canceled_exception'
        ctx.ob(rid, f, f['key'], bad is None, 'no-value is observed as await_canceled_exception' + ('' if not bad else ' -- ' + bad), desc=bad)


TAG_OF_MEMBER = {'_value': 'value', '_ptr_value': 'value_ref', '_exception': 'exception'}


def _inside(tr, item, fname):
    """is `item` of the trace between the enter and the leave marker of an expanded call of fname"""
    open_ = []
    for it in tr:
        if it is item:
            return bool(open_)
        if it.k == 'enter' and norm(it.ev.get('callee') or '') == fname:
            open_.append(it.ev.id)
        elif it.k == 'leave' and open_ and it.ev.id == open_[-1]:
            open_.pop()
    return False


def state_tag_agrees(ctx, db, rid='C01.state-tag-agrees'):
    """the future's payload is a tagged union: writers and readers must agree on which member belongs to which tag"""
    rid = ctx.rule(rid, 'SIBLINGS', 'the future\'s payload union is used consistently with its state tag in every instantiation: each set/set_ref overload constructs or assigns '
                   'one union member and then stores exactly the tag of that member (value / value_ref / exception) as its last write; the destructor destroys, and value() reads, '
                   'the member that belongs to the switch arm they are in', floor=4)
    T = Tracer(db, depth=0)
    Ts = htracer(db)          # set / set_ref: a payload constructed through a small helper of the class counts
    seen = set()
    if not db.fns('cocls::future::set_ref') and any('&>' in (c.get('inst') or '').replace(' ', '') for c in db.class_insts('cocls::future')):
        # future<T&> is instantiated but nothing instantiates set_ref any more: the reference form of set no longer goes through it
        f0 = db.need('cocls::future::set')[0]
        ctx.ob(rid, f0, f0['key'], False, 'set() of a future of references stores through set_ref (pointer member + value_ref tag)',
               desc='future<T&>::set does not call set_ref: a reference is stored under the tag of a plain value and read back as one')
        return
    for name in ('cocls::future::set', 'cocls::future::set_ref'):
        for f in db.need(name):
            inst_void = f.get('class_inst', '').startswith('cocls::future<void>')
            bad = None
            for tr in [t for t in Ts.traces(f) if live(t)]:
                members = []; built = []
                sub = [c for c in calls(tr) if norm(c.get('callee')) in ('cocls::future::set_ref',)]
                if sub and name.endswith('::set'):
                    # reference future: set() delegates to set_ref(), which is judged as a function of its own
                    tr = [it for it in tr if not _inside(tr, it, 'cocls::future::set_ref')]
                for it in tr:
                    m = None
                    if it.k == 'new' and it.get('placement'):
                        m = re.search(r'\._(value|ptr_value|exception)\b', it['placement'][0].get('path') or '')
                    elif it.k == 'write':
                        m = re.search(r'\._(value|ptr_value|exception)$', it.get('path') or '')
                    elif it.k == 'call' and norm(it.get('callee') or '') == 'std::construct_at' and it.get('args'):
                        m = re.search(r'(\.|->)_(value|ptr_value|exception)\b', it['args'][0].get('path') or '')
                        m = m and re.match(r'()(.*)', m.group(2))
                    if m:
                        members.append('_' + (m.group(2) if m.re.groups == 2 else m.group(1))); built.append(it)
                tags = [it for it in tr if it.k == 'write' and (it.get('path') or '') == 'this->_state']
                if sub and not tags and not members:
                    continue
                if len(tags) != 1:
                    bad = bad or 'the state tag is written %d times' % len(tags); continue
                tag = (tags[0].get('rhs') or '').split('::')[-1]
                if len(members) > 1:
                    bad = bad or 'more than one union member is written'
                elif name.endswith('::set_ref') and (members != ['_ptr_value'] or tag != 'value_ref'):
                    bad = bad or 'set_ref stores %s with tag %s: a reference result must use the pointer member and the value_ref tag, the only representation a future<T> and the future<T&> constructed inside it agree on' % (members, tag)
                elif members and TAG_OF_MEMBER[members[0]] != tag:
                    bad = bad or 'member %s is stored but the tag says %s: readers will interpret the bytes as another type' % (members[0], tag)
                elif not members and not (inst_void and tag == 'value'):
                    bad = bad or 'the tag %s is set without a payload member having been written' % tag
                if tags and pos(tr, tags[0]) < max([pos(tr, it) for it in built if it.k in ('new', 'call')] or [-1]):
                    bad = bad or 'the tag is stored before the payload is constructed (an exception thrown by the value constructor would leave a tag without payload)'
            k = (f['key'], bad)
            if k in seen:
                continue
            seen.add(k)
            ctx.ob(rid, f, f['key'], bad is None, '%s stores the tag of the member it wrote' % name.split('::')[-1] + ('' if not bad else ' -- ' + bad), desc=bad, inst=f['inst'])
    for name, kind in (('cocls::future::~future', 'destroys'), ('cocls::future::value', 'reads')):
        seen = set()
        for f in db.need(name):
            bad = None
            for tr in T.traces(f):
                sw = [it for it in tr if it.k == 'switch']
                if not sw:
                    continue
                lab = sw[0].label or {}
                arm = (lab.get('text') or '').split('::')[-1] if lab.get('kind') == 'case' else 'default'
                used = set()
                for it in tr[pos(tr, sw[0]):]:
                    p = (it.get('recv') or it.get('path') or '')
                    m = re.search(r'\._(value|ptr_value|exception)\b', p)
                    if m and it.k in ('call', 'read', 'write'):
                        used.add('_' + m.group(1))
                for mem in used:
                    if arm == 'default' or TAG_OF_MEMBER[mem] != arm:
                        bad = bad or 'arm %s %s member %s' % (arm, kind, mem)
            if kind == 'destroys' and not bad:
                # ... and the stored exception is released in every instantiation - future<void> stores no value, but it does store exceptions
                Th = htracer(db)
                rel = any(it.k == 'call' and ((re.search(r'(\.|->)_exception\b', it.get('recv') or '') and '~' in (it.get('callee') or '')) or
                                              (norm(it.get('callee') or '') in ('std::destroy_at', 'std::destroy') and any('_exception' in (a_.get('path') or '') for a_ in it.get('args', []))))
                          for tr in Th.traces(f) for it in tr)
                if not rel:
                    bad = 'the destructor of %s never releases a stored exception (the exception object leaks with every failed future)' % (f.get('class_inst') or 'future<T>')
            k = (f['key'], bad)
            if k in seen:
                continue
            seen.add(k)
            ctx.ob(rid, f, f['key'], bad is None, '%s %s only the member of its switch arm' % (name.split('::')[-1], kind) + ('' if not bad else ' -- ' + bad), desc=bad, inst=f['inst'])


def has_value_agrees(ctx, db, rid='C01.has-value-agrees'):
    """has_value(): the two ways to read the answer (co_await -> await_resume, conversion to bool) must both say "resolved with anything but no-value" """
    rid = ctx.rule(rid, 'SIBLINGS', 'future::awaitable_bool::await_resume and operator bool return exactly (_state != not_value) on every path: a value, a reference and an '
                   'exception all count as "has a value", only a dropped promise does not', floor=2)
    for name in ('cocls::future::awaitable_bool::await_resume', 'cocls::future::awaitable_bool::operator bool'):
        for f, trs in traces_of(db, name, per_instance=False):
            trs = [t for t in trs if live(t)]
            ctx.paths(rid, len(trs))
            bad = None
            for tr in trs:
                p = ret_expr(tr) or ''
                neg = False
                for _ in range(6):
                    while p.startswith('!(') and p.endswith(')') and not _unbalanced(p[2:-1]):
                        p = p[2:-1]; neg = not neg
                    # the answer may have a name (const bool empty = _state == not_value; return !empty;): judge the expression it names
                    q = origin_in_trace(tr, len(tr), p)[0] if re.fullmatch(r'local:\w+(#\d+)?', p) else None
                    if not q or q == p:
                        break
                    p = q
                m_ = re.fullmatch(r'\((.+) (!=|==) decl:cocls::future_common::State::not_value\)', p)
                src = (origin_in_trace(tr, len(tr), m_.group(1))[0] or m_.group(1)) if m_ else ''      # the state may be read into a local first
                if not (m_ and re.search(r'_owner(->|\.)_state$', src) and ((m_.group(2) == '!=') != neg)):
                    bad = bad or ('a path answers %s' % (ret_expr(tr) or '?')[:90], tr)
            ctx.ob(rid, f, f['key'], bad is None and len(trs) > 0, '%s answers _state != not_value' % name.split('::')[-1] + ('' if not bad else ' -- ' + bad[0]), desc=bad[0] if bad else None)


    # the blocking form of has_value() on a still pending future only synchronises: wait()/value() would turn "no value" and an exceptional
    # result into a throw, and polling must use ready() (the acquire load) - the relaxed pending() does not make the result visible
    for f, trs in traces_of(db, 'cocls::future::awaitable_bool::operator bool', per_instance=False, helpers=False):
        trs = [t for t in trs if live(t)]
        bad = None
        for tr in trs:
            thr = [c for c in calls(tr) if norm(c.get('callee')) in ('cocls::future::wait', 'cocls::future::join', 'cocls::future::force_wait', 'cocls::future::value', 'cocls::co_awaiter::wait', 'cocls::future::operator*')]
            poll = [c for c in calls(tr) if norm(c.get('callee')) in ('cocls::future_common::pending', 'cocls::future_common::initialized')]
            rdy = [c for c in calls(tr) if norm(c.get('callee')) == 'cocls::future_common::ready']
            if thr:
                bad = bad or ('the blocking has_value() reads the result through %s: a dropped promise or an exceptional result is thrown instead of being answered false / true' % norm(thr[0].get('callee')).split('::')[-1], tr)
            elif poll and not rdy:
                bad = bad or ('the blocking has_value() decides "already resolved" by %s (relaxed) instead of ready() (acquire): the state tag it then reads may not be visible yet' % norm(poll[0].get('callee')).split('::')[-1], tr)
        ctx.ob(rid, f, f['key'], bad is None and len(trs) > 0, 'awaitable_bool::operator bool: ready() ? answer : sync() then answer' + ('' if not bad else ' -- ' + bad[0]), desc=bad[0] if bad else None)
    # the future's own bool conversion and negation are the blocking forms of the same question: both must go through has_value() and the
    # waiting conversion of what it returns; answering from the state tag of a still pending future says "no value" while the value is on its way
    for name in ('cocls::future::operator bool', 'cocls::future::operator!'):
        for f, trs in traces_of(db, name, per_instance=False, helpers=False):
            if norm(f.get('class') or '') != 'cocls::future':
                continue
            trs = [t for t in trs if live(t)]
            ctx.paths(rid, len(trs))
            bad = None
            for tr in trs:
                hv = [c for c in calls(tr) if norm(c.get('callee')) == 'cocls::future::has_value']
                cv = [c for c in calls(tr) if norm(c.get('callee')) == 'cocls::future::awaitable_bool::operator bool']
                st = [it for it in tr if it.k == 'read' and (it.get('path') or '').endswith('_state')]
                ob_ = [c for c in calls(tr) if norm(c.get('callee')) == 'cocls::future::operator bool' and c.get('recv') in ('this', '*this')]
                if name.endswith('operator!') and len(ob_) == 1 and not hv and not cv and not st:
                    continue          # negation of the future's own bool conversion, which is judged as a sibling of its own
                if len(hv) != 1 or len(cv) != 1 or st:
                    bad = bad or ('%s does not answer through has_value() (%s)' % (name.split('::')[-1], 'reads the state tag directly: a pending future is reported as having no value' if st else 'has_value %d, waiting conversion %d' % (len(hv), len(cv))), tr)
            ctx.ob(rid, f, f['key'], bad is None and len(trs) > 0, '%s waits and answers through has_value()' % name.split('::')[-1] + ('' if not bad else ' -- ' + bad[0]), desc=bad[0] if bad else None)


PAYLOAD = ('cocls::future::_value', 'cocls::future::_exception', 'cocls::future::_ptr_value')


def result_immutable(ctx, db, rid_='C01.result-immutable'):
    """the result never changes after the resolution: the accessors only read the payload.  Moving out of a payload member (std::move(_exception),
    std::move(_value)) inside an accessor empties it for the next reader while the state tag still says it is there"""
    rid = ctx.rule(rid_, 'WHO', 'future::value() (both forms), operator*, wait and the awaiters\' await_resume do not move from or assign to the payload members '
                   '(_value, _exception, _ptr_value); only set/set_ref, the constructors and the destructor write them', floor=2)
    n = 0; seen = set()
    for name in ('cocls::future::value', 'cocls::future::operator*', 'cocls::future::wait', 'cocls::co_awaiter::await_resume', 'cocls::future::awaitable_bool::await_resume'):
        for f in db.fns(name):
            if f['key'] in seen:
                continue
            seen.add(f['key'])
            bad = None
            pay = lambda p_: bool(re.search(r'^this(->|\.)+_(value|exception|ptr_value)$', p_ or ''))      # members of the anonymous payload union
            for e in f.events():
                if e.k == 'call' and norm(e.get('callee') or '') in ('std::move', 'std::exchange', 'std::swap') and any(pay(a.get('path')) for a in e.get('args', [])):
                    bad = e
                if e.k == 'write' and pay(e.get('path')):
                    bad = e
                if e.k == 'call' and pay(e.get('recv')) and norm(e.get('callee') or '').endswith(('operator=', '::reset', '::swap')):
                    bad = e
            n += 1
            ctx.ob(rid, f, (bad or {}).get('loc') or f['key'], bad is None, '%s only reads the payload' % name.split('::')[-1], desc='%s modifies the stored result' % name.split('::')[-1])
    if n < 2:
        raise Broken('future::value not instantiated')


def resolved_constructors(ctx, db, rid='C01.resolved-constructors'):
    """future<T>::set_value / set_exception / set_not_value hand out futures that are born resolved: their slot must hold the ready marker,
    or every waiter is accepted and nobody ever releases it"""
    rid = ctx.rule(rid, 'SIBLINGS', 'every tagged constructor of future<T> behind the static factories (set_value, set_exception, set_not_value - value, reference, exception and no-value '
                   'forms) initialises the base with the ready marker &awaiter::disabled and with the state tag of what it stores; only the default constructor uses the '
                   '"no promise yet" marker', floor=3)
    seen = set(); n = 0
    want = {'__SetValueTag': ('value',), '__SetReferenceTag': ('value', 'value_ref'), '__SetExceptionTag': ('exception',), '__SetNoValueTag': ('not_value',)}
    for f in db.fns('cocls::future::future'):
        tag = next((t for t in want if f['params'] and t in (f['params'][0].get('type') or '')), None)
        if tag is None or (f['key'], tag) in seen:
            continue
        seen.add((f['key'], tag)); n += 1
        base = [e for e in f.events() if e.k == 'construct' and norm(e.get('callee') or '') == 'cocls::future_common::future_common']
        deleg = [e for e in f.events() if e.k == 'construct' and norm(e.get('callee') or '') == 'cocls::future::future']
        ok = len(base) == 1 and not deleg
        why = None
        if not ok:
            why = 'the resolved-state constructor does not initialise the base directly (%s)' % ('delegates to another constructor' if deleg else 'no base initialiser')
        else:
            a = base[0].get('args') or []
            marker = (a[0].get('path') if a else '') or ''
            state = (a[1].get('path') if len(a) > 1 else '') or ''
            if 'awaiter::disabled' not in marker:
                ok = False; why = 'the slot of a future born resolved is %s, not the ready marker: waiters are accepted and never released' % (marker or '?')
            elif not any(state.endswith('::' + w) for w in want[tag]):
                ok = False; why = 'the state tag %s does not say what the constructor stores' % state
        ctx.ob(rid, f, f['key'], ok, 'future(%s): ready marker + matching state tag' % tag + ('' if ok else ' -- ' + why), desc=why)
    if n < 3:
        raise Broken('tagged constructors of future<T> instantiated: %d (expected the value, exception and no-value forms)' % n)
