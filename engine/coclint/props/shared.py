# rule instances used by more than one property
import re
from ..core import norm, relloc, live, calls, evs, Broken, value_origin, Tracer, fmt_trace, rooted, pos
from .. import atomic
from ..rules import *

CLAIM = 'cocls::promise::claim'
SET = ('cocls::future::set', 'cocls::future::set_ref')
RES = ('cocls::future::resolve',)
FUT = 'cocls::async_promise::_future'


def final_awaiter(ctx, db, rid):
    """async_promise::final_awaiter::await_suspend: resolve exactly once iff a future is bound, before destroy; destroy exactly once;
    nothing of the frame touched after destroy"""
    ctx.rule(rid, 'COUNT+NO-TOUCH', 'final awaiter of an async coroutine: the bound future is resolved exactly once iff one is bound, before the frame is destroyed; the frame is '
             'destroyed exactly once; nothing of the frame (promise object, its fields) is accessed after destroy()', floor=1)
    for f, trs in traces_of(db, 'cocls::async_promise::final_awaiter::await_suspend', depth=0, per_instance=False):
        trs = [t for t in trs if live(t)]
        ctx.paths(rid, len(trs))
        bad = None; nres = 0
        for tr in trs:
            rs = all_indices(tr, callee_is(*RES))
            ds = all_indices(tr, lambda ev: ev.k == 'call' and norm(ev.get('callee')) == 'std::coroutine_handle::destroy')
            if len(ds) != 1:
                bad = bad or ('the frame is destroyed %d times on a path' % len(ds), tr)
                continue
            if len(rs) > 1:
                bad = bad or ('resolve called %d times' % len(rs), tr)
            if len(rs) == 1:
                nres += 1
                ev = tr[rs[0]]
                recv = ev.get('recv')
                org = value_origin(f, f.ev(ev.get('recv_ev'))) if ev.get('recv_ev') is not None and f.ev(ev.get('recv_ev')) is not None else None
                if org is None or norm(org.get('lfield') or '') != FUT:
                    # through a helper / a local: follow the value along the trace
                    op_, _ = origin_in_trace(tr, rs[0], recv)
                    if not re.search(r'(\.|->)_future$', op_ or ''):
                        bad = bad or ('resolve is not called on the bound future (_future)', tr)
                if nonnull_on_trace(tr, rs[0], recv) is not True:
                    bad = bad or ('resolve on an untested _future pointer', tr)
                if rs[0] > ds[0]:
                    bad = bad or ('the frame is destroyed before the bound future is resolved', tr)
            else:
                # no resolve: must be the null edge
                if not any(it.k == 'branch' and nullness(it) and nullness(it)[1] is False for it in tr):
                    bad = bad or ('a path destroys the frame without resolving a possibly bound future', tr)
            for it in tr[ds[0] + 1:]:
                p = it.get('path') or it.get('recv') or ''
                if it.k in ('read', 'write', 'call') and ('coroutine_handle::promise' in p or norm(it.get('callee') or '') == 'std::coroutine_handle::promise' or norm(it.get('field') or '').startswith('cocls::async_promise::')):
                    bad = bad or ('%s of %s after the frame was destroyed' % (it.k, p or norm(it.get('callee'))), tr)
        if nres == 0 and not bad:
            bad = ('no path resolves the bound future', trs[0] if trs else [])
        ctx.ob(rid, f, f['key'], bad is None, 'resolve-once-then-destroy-once' + ('' if not bad else ' -- ' + bad[0]), desc=(bad[0] if bad else None), trace=fmt_trace(bad[1]) if bad else None)


def set_then_resolve_min(ctx, db, rid):
    """no waiter is released before the result is stored: in every resolver, resolve never precedes set"""
    ctx.rule(rid, 'ORDER', 'no waiter is released before the result is set: on every path of every resolver (promise::set_value overloads, async_promise), no call of '
             'future::resolve precedes a call of future::set', floor=2)
    for root in ('cocls::promise::set_value',):
        for f, trs in traces_of(db, root, depth=1, inline=inline_only('cocls::promise::set', 'cocls::promise::resolve')):
            trs = [t for t in trs if live(t)]
            ctx.paths(rid, len(trs))
            bad = None
            for tr in trs:
                si = all_indices(tr, callee_is(*SET)); ri = all_indices(tr, callee_is(*RES))
                if si and ri and min(ri) < max(si):
                    bad = tr
            ctx.ob(rid, f, f['key'], bad is None, 'set precedes resolve', desc='resolve() precedes set()', trace=fmt_trace(bad) if bad else None)
    # the coroutine side: the value is stored by return_value/return_void (async_promise::resolve) which runs before final_suspend by the language;
    # the final awaiter only resolves
    for f in db.fns('cocls::async_promise::final_awaiter::await_suspend')[:1]:
        sets = [e for e in f.events() if e.k == 'call' and norm(e.get('callee')) in SET]
        ctx.ob(rid, f, f['key'], not sets, 'the final awaiter only releases; the payload was stored by co_return / unhandled_exception before final_suspend', desc='final awaiter stores a payload')


def claimed_promise(ctx, db, rid):
    """async::start_promise: the coroutine is started only when claim() handed out the future"""
    ctx.rule(rid, 'COUNT', 'async::start_promise: the coroutine handle leaves the async object (start_coro / exchange of _h) only on the edge where the future obtained from '
             'promise::claim() is non-null; on the null edge the coroutine stays unstarted and null is returned', floor=1)
    from . import C04
    C04._find_unrolled_takes(db)
    for f, trs in traces_of(db, 'cocls::async::start_promise', depth=1, inline=inline_only('cocls::async::start_coro'), per_instance=False):
        # (a path that goes against a constant handed to an expanded helper - release(true, p.claim()) not taking `if (attach)` - does not exist)
        trs = [t for t in trs if live(t) and C04.feasible(t)]
        ctx.paths(rid, len(trs))
        bad = None; started = 0; refused = 0
        for tr in trs:
            ci = index_of(tr, callee_is(CLAIM))
            # the handle leaves: std::exchange(_h, null), or the exchange written out (copy, then reset to null at once on every path)
            ex = all_indices(tr, lambda ev: (ev.k == 'call' and norm(ev.get('callee')) == 'std::exchange' and any(norm(a.get('field') or '') == 'cocls::async::_h' for a in ev.get('args', []))) or C04.is_take(ev))
            win = None
            for it in tr[max(ci, 0):]:
                if it.k == 'branch':
                    n = nullness(it)
                    if n and ('_future' in n[0] or 'claim' in n[0]):
                        win = n[1]; break
            if ci < 0:
                bad = bad or ('start_promise does not claim the promise', tr)
            if ex:
                started += 1
                if win is not True:
                    bad = bad or ('the coroutine is started on a path that did not see a successful claim', tr)
                if len(ex) > 1:
                    bad = bad or ('the handle is taken twice', tr)
            else:
                refused += 1
                ret = [it for it in tr if it.k == 'return' and it.get('depth') == 0]
                if win is not False:
                    bad = bad or ('a path neither starts the coroutine nor saw a lost claim', tr)
                elif ret and ret[-1].get('const') != 0 and re.sub(r'^(?:ctor\(|move\()+|\)+$', '', origin_in_trace(tr, pos(tr, ret[-1]), resolve_select(ret[-1].get('path') or '', tr) or '')[0] or '') not in ('nullptr', '{}', '', '0'):
                    bad = bad or ('a lost claim does not report null', tr)
        if started == 0 or refused == 0:
            bad = bad or ('start_promise lost its started/refused outcomes', trs[0] if trs else [])
        ctx.ob(rid, f, f['key'], bad is None, 'started iff claimed' + ('' if not bad else ' -- ' + bad[0]), desc=(bad[0] if bad else None), trace=fmt_trace(bad[1]) if bad else None)


# ---------------------------------------------------------------------------------------------------------------------------------
# "built on": the generic machinery a feature is made of.  A feature's property cannot hold when an invariant of the machinery it is
# built on is broken (a queue's pop IS a future; a mutex request IS an awaiter pushed by the lock-free push; a released ownership travels in
# a suspend point), so the rules that decide those invariants are claimed under the feature's property too - once, under an id that says so.
# Rules the property already claims under a name of its own are skipped (same rule text = same rule).
# (coro_queue = the per-thread ready queue and the coroutine-mode discipline of C05: every feature that resumes waiting coroutines does it
#  through coro_queue::resume / a suspend point flushed into it, or installs a queue itself)
BUILT_ON = {
    'C01': ('awaiter',), 'C02': ('future', 'suspend_point', 'coro_queue'), 'C03': ('future', 'awaiter'),
    'C04': ('future', 'awaiter', 'suspend_point', 'coro_queue', 'storage'), 'C05': ('suspend_point', 'awaiter'), 'C06': ('coro_queue',),
    'C07': ('awaiter', 'suspend_point', 'coro_queue'), 'C08': ('awaiter', 'suspend_point', 'coro_queue'),
    'C09': ('future', 'awaiter', 'suspend_point', 'coro_queue'), 'C10': ('future', 'awaiter', 'suspend_point', 'coro_queue', 'queue'),
    'C11': ('future', 'awaiter', 'suspend_point', 'coro_queue', 'async'), 'C12': ('future', 'awaiter', 'suspend_point', 'coro_queue', 'generator', 'async'),
    'C13': ('future', 'awaiter', 'suspend_point', 'coro_queue'), 'C14': ('future', 'awaiter', 'suspend_point', 'generator', 'queue', 'coro_queue'),
    'C15': ('awaiter', 'suspend_point'), 'C16': ('awaiter', 'suspend_point'),
    'C17': ('future', 'awaiter', 'suspend_point'), 'C18': ('future', 'awaiter', 'suspend_point', 'storage'),
}


def built_on(ctx, db, pid):
    from . import C01, C02, C06
    from .. import publish
    from ..report import DuplicateRule
    comps = BUILT_ON.get(pid, ())
    items = []
    if 'future' in comps:
        items += [('future', 'claim-is-one-exchange', lambda r: C01.claim_rmw(ctx, db, r)),
                  ('future', 'payload-before-ready', lambda r: C01.resolvers(ctx, db, r, r + '-verdict')),
                  ('future', 'loser-leaves-no-trace', lambda r: C01.receivers(ctx, db, r)),
                  ('future', 'abandoned-promise-resolves', lambda r: C01.dtor_and_assign(ctx, db, r)),
                  ('future', 'born-resolved-is-ready', lambda r: C01.resolved_constructors(ctx, db, r)),
                  ('future', 'has-value-forms-agree', lambda r: C01.has_value_agrees(ctx, db, r)),
                  ('future', 'result-immutable', lambda r: C01.result_immutable(ctx, db, r)),
                  ('future', 'payload-matches-tag', lambda r: C01.state_tag_agrees(ctx, db, r)),
                  ('future', 'ready-by-one-exchange', lambda r: C02.resolve_one_rmw(ctx, db, r)),
                  ('future', 'result-visible-to-the-released', lambda r: atomic.check_roles(ctx, db, r, only_functions=C02.RESULT_VISIBILITY_FUNCTIONS, floor=8))]
    if 'awaiter' in comps:
        items += [('awaiter', 'walker-leaves-resumed-nodes-alone', lambda r: C02.walk(ctx, db, r)),
                  ('awaiter', 'late-registration-refused', lambda r: C02.subscribe_protocol(ctx, db, r)),
                  ('awaiter', 'push-links-current-top', lambda r: C02.link_current(ctx, db, r)),
                  ('awaiter', 'await-suspend-forms-agree', lambda r: C02.await_suspend_siblings(ctx, db, r)),
                  ('awaiter', 'blocking-wait-iff-registered', lambda r: C02.sync_waits(ctx, db, r)),
                  ('awaiter', 'complete-before-published', lambda r: C02.init_before_publish(ctx, db, publish.Summaries(db), r)),
                  ('awaiter', 'registration-answer-used', lambda r: C02.result_used(ctx, db, r, C02.SUBSCRIBE_FAMILY))]
    if 'suspend_point' in comps:
        items += [('suspend-point', 'storage-typestate', lambda r: C06.typestate(ctx, db, r)),
                  ('suspend-point', 'moved-from-is-empty', lambda r: C06.source_reset(ctx, db, r)),
                  ('suspend-point', 'handles-consumed-once', lambda r: C06.consumers_clear(ctx, db, r)),
                  ('suspend-point', 'awaiter-queued-once', lambda r: C06.self_inclusion(ctx, db, r)),
                  ('suspend-point', 'listed-handles-queued-once', lambda r: C06.listed_queued_once(ctx, db, r)),
                  ('suspend-point', 'collected-is-removed', lambda r: C06.collected_is_removed(ctx, db, r)),
                  ('suspend-point', 'growth', lambda r: C06.growth(ctx, db, r)),
                  ('suspend-point', 'handles-leave-in-arrival-order', lambda r: __import__('coclint.props.C05', fromlist=['x']).order_kept(ctx, db, r))]
    if 'coro_queue' in comps:
        from . import C05
        items += [('coro-queue', 'mode-split', lambda r: C05.mode_split(ctx, db, r)),
                  ('coro-queue', 'install-only-inactive', lambda r: C05.install_only_inactive(ctx, db, r)),
                  ('coro-queue', 'direct-resume', lambda r: C05.direct_resume(ctx, db, r)),
                  ('coro-queue', 'drain-before-restore', lambda r: C05.drain_before_restore(ctx, db, r)),
                  ('coro-queue', 'who-writes-instance', lambda r: C05.who_writes_instance(ctx, db, r)),
                  ('coro-queue', 'fifo-ops', lambda r: C05.fifo_ops(ctx, db, r)),
                  ('coro-queue', 'yield-round-robin', lambda r: C05.pause_rule(ctx, db, r))]
    if 'async' in comps:
        from . import C04
        items += [('async', 'handle-linear', lambda r: C04.handle_linear(ctx, db, r)),
                  ('async', 'start-once', lambda r: C04.entries(ctx, db, r)),
                  ('async', 'claimed-promise', lambda r: claimed_promise(ctx, db, r)),
                  ('async', 'refused-start-empty', lambda r: C04.refused_start_empty(ctx, db, r)),
                  ('async', 'co-await-wiring', lambda r: C04.co_await_wiring(ctx, db, r)),
                  ('async', 'final-awaiter', lambda r: final_awaiter(ctx, db, r)),
                  ('async', 'dtor-destroys-unstarted', lambda r: C04.dtor(ctx, db, r)),
                  ('async', 'bound-party-writers', lambda r: C04.bound_writers(ctx, db, r)),
                  ('async', 'join-delivers', lambda r: C04.join_delivers(ctx, db, r)),
                  ('async', 'start-is-eager', lambda r: C04.start_is_eager(ctx, db, r)),
                  ('async', 'detached-delivers-to-nobody', lambda r: C04.bound_party_optional(ctx, db, r))]
    if 'generator' in comps:
        from . import C13
        items += [('generator', 'ask-forms-agree', lambda r: C13.ask_siblings(ctx, db, r)),
                  ('generator', 'coroutine-hooks', lambda r: C13.hooks(ctx, db, r)),
                  ('generator', 'asker-woken-once', lambda r: C13.wake_asker_once(ctx, db, r)),
                  ('generator', 'future-completion', lambda r: C13.unblock_future(ctx, db, r)),
                  ('generator', 'blocking-step', lambda r: C13.sync_block(ctx, db, r)),
                  ('generator', 'one-step-per-advance', lambda r: C13.one_step(ctx, db, r)),
                  ('generator', 'step-recorded', lambda r: C13.state_recorded(ctx, db, r)),
                  ('generator', 'done-means-returned', lambda r: C13.done_means_returned(ctx, db, r))]
    if 'queue' in comps:
        from . import C09
        from .. import locks
        from .tables import GUARDED
        items += [('queue', 'item-to-one-sink', lambda r: C09.push_linear(ctx, db, r, 'cocls::queue::push')),
                  ('queue', 'pop-parks-or-delivers', lambda r: C09.pop_linear(ctx, db, r, 'cocls::queue::pop')),
                  ('queue', 'resolve-outside-lock', lambda r: C09.resolve_outside_lock(ctx, db, r, ['cocls::queue::push', 'cocls::queue::unblock_pop'])),
                  ('queue', 'never-empty-access', lambda r: C09.nonempty(ctx, db, r, ['cocls::queue'])),
                  ('queue', 'locks', lambda r: locks.check_guarded(ctx, db, r, {k: v for k, v in GUARDED.items() if k.startswith('cocls::queue::')}, ['cocls::queue'], per_instance=True, floor=5)),
                  ('queue', 'waiters-held-by-value', lambda r: C09.held_by_value(ctx, db, r))]
    if 'storage' in comps:
        # the frame of a with_allocator<Storage, async<T>> coroutine lives in the block the policy hands out: a block that is shared by two live
        # frames, too small, or never released breaks "body runs once, frame and locals destroyed once" for those coroutines
        from . import C19
        C19._DB[0] = db
        items += [('storage', 'trailer-inside-the-block', lambda r: C19.trailers(ctx, db, r)),
                  ('storage', 'fallback-released-by-its-marker', lambda r: C19.pairing(ctx, db, r)),
                  ('storage', 'shared-block-exclusive', lambda r: C19.reuse(ctx, db, r)),
                  ('storage', 'frame-memory-routed-through-the-policy', lambda r: C19.routing(ctx, db, r))]
    for comp, name, fn in items:
        rid = '%s.built-on-%s.%s' % (pid, comp, name)
        ctx.dedupe = True
        try:
            fn(rid)
        except DuplicateRule:
            pass
        finally:
            ctx.dedupe = False
