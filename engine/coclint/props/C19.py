# C19 - coroutine storage policies give every frame exclusive, correctly freed memory
import re
from ..core import norm, relloc, live, calls, evs, Broken, value_origin, Tracer, fmt_trace, rooted, has_back_edge, cond_event, tests
from .. import atomic, witness
from ..rules import *

EXPLANATION = ('Static analysis of the storage policies with sizes and offsets as linear forms in the requested size sz: every policy that keeps a trailer behind the frame '
               '(reusable_storage_mtsafe: owner pointer; stack_storage: heap flag byte; promise_extra_storage: the extra object) requests sz plus at least the trailer from the '
               'underlying allocator on every path, writes the trailer at offset sz in alloc and reads it at offset sz in dealloc, and hands the same enlarged size back on '
               'release; the in-place branch of stack_storage is guarded by a comparison that implies sz + 1 <= region size; the size learned by stack_storage is the size it '
               'allocated; every heap allocation of a policy is paired with exactly one release selected by the same marker (null owner, flag byte, capacity growth), the extra '
               'object is constructed once in alloc and destroyed once before the release in dealloc; reusable_storage allocates only when sz exceeds the capacity and records '
               'exactly the allocated size; the thread-safe variant claims its block by a single atomic exchange(true) and uses it only on the edge where the exchange returned '
               'false, with acquire/release orders; the promise-level operator new/delete route the unchanged size to the storage; all seven policies satisfy the Storage '
               'concept and a with_allocator coroutine without the allocator argument does not compile. Undecided: exclusivity of reusable_storage under concurrent frames '
               '(documented user obligation), alignment of trailers.')
ASSUMPTIONS = ['::operator new(n) returns at least n usable bytes', 'the compiler passes the same frame size to operator new and operator delete of a coroutine promise']


def _canon(a):
    a = re.sub(r'^sizeof\(.*\)$', 'SIZEOF', a)
    a = re.sub(r'^param:sz$', 'SZ', a)
    return a


def lf(expr):
    return linform(expr or '', _canon)


def run(ctx, db, tier):
    _DB[0] = db
    trailers(ctx, db)
    pairing(ctx, db)
    reuse(ctx, db)
    routing(ctx, db)
    buffer_storage(ctx, db)
    move_keeps_block(ctx, db)
    atomic.check_roles(ctx, db, 'C19.orders', only_functions={'cocls::reusable_storage_mtsafe::alloc', 'cocls::reusable_storage_mtsafe::dealloc'}, floor=2)
    if ctx.cfg == 'assert':
        witness.positive(ctx, 'C19.concept', 'C19_pos.cpp', 'all seven policies model Storage; with_allocator coroutines compile for each; promise-level operator delete is the sized form')
        witness.negative(ctx, 'C19.concept-neg', 'C19_neg.cpp', 'a with_allocator coroutine whose first parameter is not the allocator must not compile (plain operator new is private)')


def move_keeps_block(ctx, db):
    """reusable_storage owns one block.  Move assignment that frees the target's block and then takes the source's is only right for two
    different objects: assigned to itself (in-place compaction loops do that) the storage frees its own block and keeps the dangling pointer"""
    rid = ctx.rule('C19.move-assign-keeps-own-block', 'PATHS', 'reusable_storage::operator=(reusable_storage&&): the target\'s block is released (operator delete) only on a path that '
                   'established this != &other; every path that released it takes the source\'s block and capacity and leaves the source empty', floor=1)
    T = _ptracer(db)
    fs = [f for f in db.fns('cocls::reusable_storage::operator=') if any('&&' in p_['type'] for p_ in f['params'])]
    if not fs:
        raise Broken('reusable_storage::operator=(reusable_storage&&) not instantiated')
    for f in fs[:1]:
        src = 'param:' + f['params'][0]['name']
        trs = [t for t in T.traces(f) if live(t)]
        ctx.paths(rid, len(trs))
        bad = None
        for tr in trs:
            dl = [i for i, it in enumerate(tr) if it.k == 'call' and norm(it.get('callee') or '') == 'operator delete']
            if not dl:
                continue
            notself = False
            for it in tr[:dl[0]]:
                if it.k == 'branch':
                    m_ = re.fullmatch(r'\((this|&\(param:\w+\)) (==|!=) (this|&\(param:\w+\))\)', it.path or '')
                    if m_ and m_.group(1) != m_.group(3):
                        notself = (m_.group(2) == '!=') == bool(it.val)
            if not notself:
                bad = bad or ('the target\'s block is freed on a path that did not rule out self-assignment: the storage keeps a pointer to the block it just released', tr)
            took = [it for it in tr[dl[0]:] if it.k == 'write' and it.get('path') == 'this->_ptr']
            if len(took) != 1:
                bad = bad or ('after releasing its block the target does not take the source\'s block exactly once', tr)
        ctx.ob(rid, f, f['key'], bad is None, 'release only when not self, then take over' + ('' if not bad else ' -- ' + bad[0]), desc=bad[0] if bad else None, trace=fmt_trace(bad[1]) if bad else None)


def _ptracer(db):
    """helpers of a storage policy expanded in place, but not the allocation entry points of this or another policy (they are the anchors)"""
    return htracer(db, extra=None) if False else Tracer(db, depth=3, inline_filter=lambda c, e, callee: is_helper(db, c, callee) and not re.search(r'::(alloc|dealloc)$', callee['nname']), maxvisit=2)


def _feasible(db, tr):
    """a bool local that is defined once has one value per activation of its frame: a trace that leaves `if (!on_stack)` one way and
    `on_stack ? 0 : 1` the other way is not a path of the program (the path enumerator does not correlate repeated tests of one flag)"""
    from ..core import bool_locals
    known = {}
    for it in tr:
        if it.k == 'decl' and (it.get('type') or '').replace('const ', '').strip() in ('_Bool', 'bool'):
            # the flag is (re)computed: what was known about the flags of that frame belongs to an earlier activation / iteration
            for k in [k for k in known if k[0] == it.get('fn') and k[1] == it.get('depth')]:
                del known[k]
        elif it.k == 'branch':
            m = re.fullmatch(r'local:(\w+)', it.get('opath') or '')
            g = db.get(it.get('fn')) if m and it.get('fn') else None
            if g is None or m.group(1) not in bool_locals(g):
                continue
            k = (it.get('fn'), it.get('depth'), m.group(1))
            v = bool(it.get('oval', it.val))
            if k in known and known[k] != v:
                return False
            known[k] = v
    return True


def _traces(db, T, f, dead=False):
    """the feasible (and, by default, live) traces of f"""
    return [t for t in T.traces(f) if (dead or live(t)) and _feasible(db, t)]


_PTR = r'(?:local:\w+(?:#\d+)?|param:\w+|call\([^()]*\))'


def _sub_index(tr, i):
    """index of the subscript access tr[i] (a read / write of `base[]`: the extractor's access paths drop the index).  Every sub-expression is
    one CFG element and events are numbered by element: the access is preceded by the subscript expression itself and that by the element
    that computes the index, so the index is known exactly when that element is a plain load of a variable; None otherwise (arithmetic,
    a literal, a cast - nothing the facts keep)"""
    it = tr[i]
    if it.k == 'write' and (it.get('op') or '=') != '=' or it.get('id') is None:
        return None
    for x in reversed(tr[max(0, i - 16):i]):
        if x.k in ('enter', 'leave', 'branch', 'switch'):
            break
        if x.get('fn') == it.get('fn') and x.get('depth') == it.get('depth') and x.get('id') == it['id'] - 2:
            return x.get('path') if x.k in ('use', 'read') and re.fullmatch(r'(?:param|local):\w+(?:#\d+)?|\(.*\)|\d+', x.get('path') or '') else None
    return None


def _sub_address(tr, i, p):
    """`base[]` accessed at tr[i] as the address expression (base + index); raises Broken when the facts do not say what the index is"""
    idx = _sub_index(tr, i)
    if idx is None:
        raise Broken('%s: the index of the subscript access %s is not a plain variable - the extracted access path drops it, the offset cannot be decided' % (tr[i].get('fname') or '?', p))
    return '(%s + %s)' % (p[:-2], idx)


def _val(tr, i, p):
    """the value of expression p at position i of the trace: through locals, helper returns and the arm of a conditional expression that
    the branches of this path selected (owner = acquired ? this : nullptr)"""
    for _ in range(6):
        q, j = origin_in_trace(tr, i, p)
        q2 = resolve_select(q, tr[:j + 1]) if q else q
        if q2 == p or q2 is None:
            return q2 if q2 is not None else p
        p, i = q2, j
    return p


UNDER_ALLOC = re.compile(r'^(operator new|cocls::\w+::alloc)$')
UNDER_FREE = re.compile(r'^(operator delete|cocls::\w+::dealloc)$')


_DB = [None]


def _size_arg(e, free=False, f=None):
    a = e.get('args') or []
    p = (a[1].get('path') if len(a) > 1 else None) if free else (a[0].get('path') if a else None)
    if _DB[0] is not None:
        p = const_subst(_DB[0], p)          # static constexpr std::size_t trailer_size = sizeof(owner *);
    if f is not None and p:
        from ..core import local_env, subst_path
        p = subst_path(p, local_env(f))        # const std::size_t total = sz + sizeof(T);
    return p


def trailers(ctx, db, rid_='C19.trailer'):
    rid = ctx.rule(rid_, 'LINEAR+SIBLINGS', 'policies with a trailer: requested size = sz + k with k >= size of the trailer on every allocating path; the trailer lives at offset sz in alloc '
                   'and is read at offset sz in dealloc; an in-place write of the trailer is guarded by a comparison implying sz + 1 <= region size; sizes handed back equal sizes '
                   'requested; the learned size equals the allocated size', floor=6)
    T = _ptracer(db)
    for cls in ('cocls::reusable_storage_mtsafe', 'cocls::stack_storage', 'cocls::promise_extra_storage'):
        allocs = db.need(cls + '::alloc')
        deallocs = db.need(cls + '::dealloc')
        seen = set()
        for f in allocs:
            if f['key'] in seen and cls != 'cocls::promise_extra_storage':
                continue
            seen.add(f['key'])
            trs = _traces(db, T, f)
            ctx.paths(rid, len(trs))
            bad = None if trs else ('alloc has no feasible path that returns', [])
            for tr in trs:
                req = [it for it in tr if it.k == 'call' and UNDER_ALLOC.match(norm(it.get('callee') or '')) and norm(it.get('callee')) != cls + '::alloc']
                tw = [(i, it) for i, it in enumerate(tr) if it.k in ('write', 'new') and _is_trailer_write(f, tr, i)]
                if not tw:
                    bad = bad or ('a path of alloc writes no trailer (dealloc would read garbage)', tr); continue
                for e in req:
                    form = lf(_size_arg(e))
                    if form is None or form.get('SZ') != 1:
                        bad = bad or ('the size requested from %s is not sz + k' % norm(e['callee']), tr)
                    elif not (form.get('SIZEOF', 0) >= 1 or form.get('', 0) >= 1):
                        bad = bad or ('the size requested from %s leaves no room for the trailer: it is written past the end of the block' % norm(e['callee']), tr)
                if not req:
                    # in-place: the write must be guarded
                    g = [b for b in tr if b.k == 'branch' and re.search(r'param:sz', b.path or '') and re.search(r'_alloc_size|_capacity|adjspace', b.path or '')]
                    ok = False
                    for b in g:
                        m = re.fullmatch(r'\((.+) (<=|<|>=|>) (.+)\)', b.path or '')
                        if not m:
                            continue
                        L, o, R = lf(m.group(1)), m.group(2), lf(m.group(3))
                        if L is None or R is None:
                            continue
                        if R.get('SZ'):
                            L, R = R, L
                            o = {'<=': '>=', '<': '>', '>=': '<=', '>': '<'}[o]
                        k = L.get('', 0) - R.get('', 0)
                        # sz + k  o  region
                        if (o == '<=' and b.val is True and k >= 1) or (o == '<' and b.val is True and k >= 0) or (o == '>' and b.val is False and k >= 1) or (o == '>=' and b.val is False and k >= 0):
                            ok = True
                    if not ok:
                        bad = bad or ('the in-place trailer at offset sz is not guarded by a test implying sz + 1 <= region size: the flag byte is written one past the region', tr)
                for i, w in tw:
                    off = _offset_of(f, tr, i)
                    if off is None or off.get('SZ') != 1 or off.get('', 0) != 0 or off.get('SIZEOF', 0) != 0:
                        bad = bad or ('the trailer is not written at offset sz', tr)
                # learned size
                st = [it for it in tr if it.k == 'write' and (it.get('path') or '') == 'this->_state']
                for s_ in st:
                    if req and lf(s_.get('rhs')) != lf(_size_arg(req[0])):
                        bad = bad or ('the size remembered for the next call (%s) is not the size that was needed (%s): the block never fits and every call allocates' % (s_.get('rhs'), _size_arg(req[0])), tr)
            ctx.ob(rid, f, f['key'], bad is None, '%s::alloc: sz + trailer requested, trailer at offset sz' % cls.split('::')[-1] + ('' if not bad else ' -- ' + bad[0]), desc=(bad[0][:110] if bad else None),
                   trace=fmt_trace(bad[1]) if bad else None, inst=f['inst'])
        seen = set()
        dforms = {}
        for f in deallocs:
            if f['key'] in seen and cls != 'cocls::promise_extra_storage':
                continue
            seen.add(f['key'])
            forms = []
            for tr in _traces(db, T, f, dead=True):
                for i_, e in enumerate(tr):
                    # every address computed from the size: initialisers, values returned by helpers, dereferenced expressions, arguments of
                    # anything but the underlying release (which legitimately gets sz + trailer as a size)
                    cands = []
                    if e.k == 'decl':
                        cands.append(e.get('init'))
                    elif e.k == 'return' and e.get('depth', 0) > 0:
                        cands.append(e.get('path'))
                    elif e.k in ('read', 'use'):
                        cands.append(e.get('path'))
                        if e.k == 'read' and re.fullmatch(_PTR + r'\[\]', e.get('path') or ''):
                            # reinterpret_cast<char *>(ptr)[sz]: the byte at ptr + sz read in index syntax
                            cands.append('*(%s)' % _sub_address(tr, i_, _val(tr, i_, e['path'][:-2]) + '[]'))
                    elif e.k == 'cmp':
                        cands += [e.get('lhs'), e.get('rhs')]
                    elif e.k == 'call' and not UNDER_FREE.match(norm(e.get('callee') or '')):
                        cands += [a.get('path') for a in e.get('args', [])] + [e.get('recv')]
                    for p_ in cands:
                        if not p_ or 'param:sz' not in p_:
                            continue
                        for q_ in {p_} | set(re.findall(r'\*\((\(.*?param:sz.*?\))\)', p_)):
                            m_ = re.fullmatch(r'\*\((.*)\)', q_)
                            q_ = m_.group(1) if m_ else q_
                            try:
                                l_ = lf(q_)
                            except ValueError:
                                l_ = None
                            if l_ is not None and l_.get('SZ') and set(l_) - {'SZ', 'SIZEOF', ''}:
                                forms.append(l_)          # an address: some base plus something of the size
            dforms.setdefault(f['key'], []).append((f, forms))
        for key_, lst_ in dforms.items():
            for f, forms in lst_:
                if not forms:
                    # an instantiation in which the trailer access leaves no event (the explicit destructor call of a trivially destructible
                    # extra object is a no-op: `reinterpret_cast<int *>(bytes + sz)->~T()`): the address expression is the one of the pattern,
                    # it is judged on the instantiations of the same source text that do access the trailer
                    forms = [l_ for g_, fs_ in lst_ if g_ is not f for l_ in fs_]
                pn_ = 'param:' + (f['params'][0]['name'] if f.get('params') else 'ptr')
                ok = len(forms) >= 1 and all(l_.get('SZ') == 1 and l_.get('', 0) == 0 and l_.get('SIZEOF', 0) == 0 and l_.get(pn_) == 1 for l_ in forms)
                ctx.ob(rid, f, f['key'], ok, '%s::dealloc reads the trailer at ptr + sz' % cls.split('::')[-1], desc='dealloc reads the trailer at another offset than alloc wrote it', inst=f['inst'])
    # promise_extra_storage: size handed back == size requested
    for f in db.need('cocls::promise_extra_storage::alloc'):
        a = [e for e in f.events() if e.k == 'call' and UNDER_ALLOC.match(norm(e.get('callee') or '')) and not norm(e['callee']).startswith('cocls::promise_extra_storage')]
        cls_inst = f.get('class_inst')
        g = next((x for x in db.fns('cocls::promise_extra_storage::dealloc') if x.get('class_inst') == cls_inst), None)
        if g is None:
            continue
        d = [e for e in g.events() if e.k == 'call' and UNDER_FREE.match(norm(e.get('callee') or '')) and not norm(e['callee']).startswith('cocls::promise_extra_storage')]
        ok = len(a) == 1 and len(d) == 1 and lf(_size_arg(a[0], f=f)) is not None and lf(_size_arg(a[0], f=f)) == lf(_size_arg(d[0], free=True, f=g))
        ctx.ob(rid, g, g['key'], ok, 'promise_extra_storage hands back the size it requested (%s vs %s)' % (_size_arg(a[0], f=f) if a else None, _size_arg(d[0], True, f=g) if d else None),
               desc='promise_extra_storage::dealloc passes a different size than alloc requested', inst=g['inst'])


def _is_trailer_write(f, tr, i):
    it = tr[i]
    if it.k == 'write' and re.fullmatch(r'\*\((local:\w+(#\d+)?|call\([^()]*\))\)', it.get('path') or ''):
        return True
    if it.k == 'write' and re.fullmatch(_PTR + r'\[\]', it.get('path') or ''):
        return True           # reinterpret_cast<char *>(block)[sz] = flag: the same store in index syntax
    if it.k == 'new' and it.get('placement'):
        return True
    return False


def _offset_of(f, tr, i):
    """linear form (relative to the block base) of the address a trailer write goes to"""
    it = tr[i]
    var = None
    if it.k == 'write' and (it.get('path') or '').endswith('[]'):
        # index syntax: base[idx] is *(base + idx); the base through locals and helper returns
        base = it['path'][:-2]
        var = _sub_address(tr, i, _val(tr, i, base) + '[]')
        addr = var
    elif it.k == 'write':
        var = re.fullmatch(r'\*\((.*)\)', it.get('path') or '').group(1)
    elif it.k == 'new':
        var = (it['placement'][0].get('path') or '')
    # the address written to: follow locals and values returned by expanded helpers (owner_slot(p, sz) { return (char*)p + sz; })
    addr, _ = origin_in_trace(tr, i, var)
    if not addr or addr == var and not re.search(r'[-+]', addr):
        return None
    form = lf(addr)
    if form is None:
        return None
    form = dict(form)
    # drop the base pointer atom
    for k in list(form):
        if k not in ('SZ', 'SIZEOF', ''):
            form.pop(k)
    return form


def pairing(ctx, db, rid_='C19.pairing'):
    rid = ctx.rule(rid_, 'COUNT', 'allocation/release pairing selected by the policy\'s own marker: mtsafe - heap fallback stores a null owner, dealloc deletes exactly on the null-owner edge '
                   'and releases the busy flag exactly on the other; stack_storage - flag 1 with ::operator new, flag 0 in place, dealloc deletes exactly on the flag-set edge; '
                   'reusable_storage - the old block is deleted before a larger one is allocated, and in the destructor and move-assignment; promise_extra_storage - one placement '
                   'construction in alloc, one explicit destructor call before the release in dealloc', floor=6)
    T = _ptracer(db)
    # mtsafe
    for f in db.need('cocls::reusable_storage_mtsafe::alloc')[:1]:
        bad = None; outcomes = set()
        for tr in _traces(db, T, f):
            heap = any(it.k == 'call' and norm(it.get('callee')) == 'operator new' for it in tr)
            outcomes.add(heap)
            own = [(i_, it) for i_, it in enumerate(tr) if it.k == 'write' and _is_trailer_write(f, tr, i_)]
            marker = None
            if own:
                # what is stored: through the local it was put in (declared, or assigned in both arms), a helper's parameter, and the arm of a
                # conditional expression this path selected (owner = acquired ? this : nullptr)
                i_, w_ = own[-1]
                m_ = _val(tr, i_, w_.get('rhs')) if w_.get('rhs') else None
                marker = 'null' if (w_.get('const') == 0 or (m_ or '') in NULLS) else m_
            if heap and marker != 'null':
                bad = bad or 'a heap fallback block is tagged with an owner: dealloc would mark the shared block free instead of deleting this one'
            if not heap and marker != 'this':
                bad = bad or 'the shared block is not tagged with its owner'
        if not bad and outcomes != {True, False}:
            bad = 'alloc lost its shared-block / heap-fallback outcomes'
        ctx.ob(rid, f, f['key'], bad is None, 'mtsafe alloc: null owner iff heap fallback' + ('' if not bad else ' -- ' + bad), desc=bad)
    for f in db.need('cocls::reusable_storage_mtsafe::dealloc')[:1]:
        bad = None; n = 0
        for tr in _traces(db, T, f):
            owner = None
            for it in tr:
                if it.k == 'branch':
                    nl = nullness(it)
                    if nl:
                        owner = nl[1]
            dels = [it for it in tr if it.k == 'call' and norm(it.get('callee')) == 'operator delete']
            rel = [it for it in tr if it.k == 'call' and atomic.is_atomic_call(it) and atomic.opname(it) in ('store', 'operator=') and (it.get('args') or [{}])[0].get('const') == 0]
            n += 1
            if owner is True and (dels or len(rel) != 1):
                bad = bad or 'an owned (shared) block is deleted / its busy flag is not released exactly once'
            if owner is False and (len(dels) != 1 or rel):
                bad = bad or 'a heap fallback block is not deleted exactly once'
            if owner is None:
                bad = bad or 'dealloc does not test the owner marker'
        ctx.ob(rid, f, f['key'], bad is None and n >= 2, 'mtsafe dealloc: delete iff null owner, release busy flag otherwise' + ('' if not bad else ' -- ' + bad), desc=bad)
    # stack storage
    for f in db.need('cocls::stack_storage::alloc')[:1]:
        bad = None; outcomes = set()
        for tr in _traces(db, T, f):
            heap = any(it.k == 'call' and norm(it.get('callee')) == 'operator new' for it in tr)
            outcomes.add(heap)
            fl = [(i_, it) for i_, it in enumerate(tr) if it.k == 'write' and _is_trailer_write(f, tr, i_)]
            fv = None
            if fl:
                i_, w_ = fl[-1]
                fv = w_.get('const')
                if fv is None:
                    # the value through a local / a helper's parameter / the arm of `on_stack ? 0 : 1` selected on this path
                    v_ = _val(tr, i_, w_.get('rhs')) if w_.get('rhs') else ''
                    fv = int(v_) if re.fullmatch(r'\d+', v_ or '') else None
            if not fl or fv != (1 if heap else 0):
                bad = bad or 'the flag byte does not say whether the block came from the heap'
        if not bad and outcomes != {True, False}:
            bad = 'alloc lost its in-place / heap outcomes'
        ctx.ob(rid, f, f['key'], bad is None, 'stack_storage alloc: flag = 1 iff ::operator new' + ('' if not bad else ' -- ' + bad), desc=bad)
    for f in db.need('cocls::stack_storage::dealloc')[:1]:
        bad = None; outcomes = set()
        for tr in _traces(db, T, f):
            flag = None
            for i_, it in enumerate(tr):
                nt = null_test(tr, i_) if it.k == 'branch' else None
                if nt and (re.fullmatch(r'\*\((local:\w+(#\d+)?|call\([^()]*\)|\(.*param:sz.*\))\)', nt[0] or '') or re.fullmatch(_PTR + r'\[\]', nt[0] or '')):
                    flag = bool(nt[1])         # if (*flag), if (*heap_flag(ptr, sz)), if (bytes[sz] != 0)
            dels = [it for it in tr if it.k == 'call' and norm(it.get('callee')) == 'operator delete']
            outcomes.add(flag)
            if flag is None or (flag and len(dels) != 1) or (not flag and dels):
                bad = bad or 'delete does not happen exactly on the flag-set edge'
        if not bad and outcomes != {True, False}:
            bad = 'dealloc lost its flag-set / flag-clear outcomes'
        ctx.ob(rid, f, f['key'], bad is None, 'stack_storage dealloc: delete iff flag' + ('' if not bad else ' -- ' + bad), desc=bad)
    # reusable_storage
    for f in db.need('cocls::reusable_storage::alloc')[:1]:
        bad = None
        for tr in _traces(db, T, f):
            nw = all_indices(tr, lambda ev: ev.k == 'call' and norm(ev.get('callee')) == 'operator new')
            dl = all_indices(tr, lambda ev: ev.k == 'call' and norm(ev.get('callee')) == 'operator delete' and norm((ev.get('args') or [{}])[0].get('field') or '') == 'cocls::reusable_storage::_ptr')
            if nw and (len(dl) != 1 or dl[0] > nw[0]):
                bad = bad or 'the old block is not released before the larger one replaces it (leak)'
            if not nw and dl:
                bad = bad or 'the block is released on a reuse path'
        ctx.ob(rid, f, f['key'], bad is None, 'reusable_storage alloc: delete old before new' + ('' if not bad else ' -- ' + bad), desc=bad)
    for name in ('cocls::reusable_storage::~reusable_storage', 'cocls::reusable_storage::operator='):
        for f in db.need(name)[:1]:
            dl = [e for g_ in helper_bodies(db, f) if not re.search(r'::(alloc|dealloc)$', g_['nname']) for e in g_.events() if e.k == 'call' and norm(e.get('callee')) == 'operator delete' and norm((e.get('args') or [{}])[0].get('field') or '') == 'cocls::reusable_storage::_ptr']
            ctx.ob(rid, f, f['key'], len(dl) == 1, '%s releases the owned block once' % name.split('::')[-1], desc='%s does not release the owned block exactly once' % name)
    # a moved-from reusable_storage owns nothing: pointer AND capacity are reset together (a capacity left behind makes the next alloc of
    # the moved-from object skip its allocation and hand out the null block)
    nmv = 0
    for name in ('cocls::reusable_storage::reusable_storage', 'cocls::reusable_storage::operator='):
        for f in db.fns(name)[:4]:
            if not (f['params'] and '&&' in f['params'][0]['type']):
                continue
            src = 'param:' + f['params'][0]['name']
            reset = set()
            for e in [it for tr in T.traces(f) for it in tr]:
                if e.k == 'call' and norm(e.get('callee') or '') == 'std::exchange' and (e.get('args') or [{}])[0].get('path', '').startswith(src + '.'):
                    reset.add(e['args'][0]['path'].split('.')[-1])
                if e.k == 'write' and (e.get('path') or '').startswith(src + '.') and e.get('const') in (0,) or (e.k == 'write' and (e.get('path') or '').startswith(src + '.') and e.get('rhs') == 'nullptr'):
                    reset.add(e['path'].split('.')[-1])
                if e.k == 'call' and norm(e.get('callee') or '') == 'std::swap':
                    for a in e.get('args', []):
                        if (a.get('path') or '').startswith(src + '.'):
                            reset.add(a['path'].split('.')[-1])
            nmv += 1
            miss = {'_ptr', '_capacity'} - reset
            ctx.ob(rid, f, f['key'], not miss, 'the moved-from storage gives up its block and its capacity together' + ('' if not miss else ' -- %s of the source is left behind' % ', '.join(sorted(miss))),
                   desc='moved-from reusable_storage keeps %s' % ', '.join(sorted(miss)) if miss else None)
    if nmv == 0:
        raise Broken('move operations of reusable_storage not instantiated')
    # promise_extra_storage
    seen = set()
    for f in db.need('cocls::promise_extra_storage::alloc'):
        trs_ = [t for t in T.traces(f) if live(t)]
        ok = bool(trs_) and not any(has_back_edge(g_) for g_ in [f] + [h_ for h_ in helper_bodies(db, f) if not re.search(r'::(alloc|dealloc)$', h_['nname'])])
        for tr in trs_:
            nw = [e for e in tr if e.k == 'new' and e.get('placement')]
            fac = [e for e in tr if e.k == 'call' and (e.get('recv') or '') == 'this->_factory']
            ok = ok and len(nw) == 1 and len(fac) == 1
        # the policy's own dealloc destroys the extra object: alloc must never clean up through it (when the factory throws, nothing was constructed)
        if any(e.k == 'call' and norm(e.get('callee') or '') == 'cocls::promise_extra_storage::dealloc' for g_ in [f] + [h_ for h_ in helper_bodies(db, f) if not re.search(r'::(alloc|dealloc)$', h_['nname'])] for e in g_.events()):
            ok = False
        if (f['key'], ok) in seen:
            continue
        seen.add((f['key'], ok))
        ctx.ob(rid, f, f['key'], ok, 'extra object constructed exactly once, in place, from the factory', desc='promise_extra_storage::alloc does not construct the extra object exactly once', inst=f['inst'])
    seen = set()
    for f in db.need('cocls::promise_extra_storage::dealloc'):
        ok = True
        trs_ = [t for t in T.traces(f) if live(t)]
        for evl in trs_ or [[]]:
            # x->~T(), std::destroy_at(x)
            dt = [i for i, e in enumerate(evl) if e.k == 'call' and ('::~' in (e.get('callee') or '') or norm(e.get('callee') or '') in ('std::destroy_at', 'std::destroy'))]
            fr = [i for i, e in enumerate(evl) if e.k == 'call' and UNDER_FREE.match(norm(e.get('callee') or '')) and not norm(e['callee']).startswith('cocls::promise_extra_storage')]
            triv = not dt and any('int' == (p or '') for p in re.findall(r'promise_extra_storage<(\w+)', f.get('class_inst') or ''))
            ok = ok and bool(evl) and ((len(dt) == 1 and len(fr) == 1 and dt[0] < fr[0]) or (triv and len(fr) == 1))
        if (f['key'], ok) in seen:
            continue
        seen.add((f['key'], ok))
        ctx.ob(rid, f, f['key'], ok, 'extra object destroyed exactly once before the block is released', desc='promise_extra_storage::dealloc does not destroy the extra object once before the release', inst=f['inst'])


def reuse(ctx, db, rid_='C19.reuse'):
    rid = ctx.rule(rid_, 'GUARDED+ATOMIC', 'reusable_storage::alloc allocates exactly on the edge sz > capacity (equal sizes reuse: no allocation after warm-up) and records the allocated size as '
                   'the capacity; reusable_storage_mtsafe::alloc claims the shared block with one atomic exchange(true) on the busy flag and uses the block exactly on the edge where '
                   'the exchange returned false', floor=3)
    T = _ptracer(db)
    for f in db.need('cocls::reusable_storage::alloc')[:1]:
        bad = None
        for tr in _traces(db, T, f):
            nw = [it for it in tr if it.k == 'call' and norm(it.get('callee')) == 'operator new']
            grow = None
            for b in tr:
                if b.k == 'branch':
                    pn_ = re.escape('param:' + (f['params'][0]['name'] if f.get('params') else 'sz'))
                    m = re.fullmatch(r'\(%s (>|<=|>=|<) this->_capacity\)' % pn_, b.path or '')
                    m2 = re.fullmatch(r'\(this->_capacity (>|<=|>=|<) %s\)' % pn_, b.path or '')
                    if m or m2:
                        o = m.group(1) if m else {'<': '>', '>': '<', '<=': '>=', '>=': '<='}[m2.group(1)]
                        if (o == '>' and b.val) or (o == '<=' and not b.val):
                            grow = True
                        elif (o == '>' and not b.val) or (o == '<=' and b.val):
                            grow = False
                        else:
                            grow = 'shape'
            if grow == 'shape' or grow is None:
                bad = bad or 'the growth test is not "sz > capacity" (equal-sized frames would re-allocate, or a too small block would be reused)'
            elif grow and len(nw) != 1:
                bad = bad or 'a too small block is reused'
            elif grow is False and nw:
                bad = bad or 'a sufficient block is re-allocated'
            if nw:
                cap = [it for it in tr if it.k == 'write' and (it.get('path') or '') == 'this->_capacity']
                if len(cap) != 1 or lf(cap[0].get('rhs')) != lf(_size_arg(nw[0])):
                    bad = bad or 'the recorded capacity is not the allocated size'
        ctx.ob(rid, f, f['key'], bad is None, 'allocate iff sz > capacity, capacity := allocated size' + ('' if not bad else ' -- ' + bad), desc=bad)
    for f in db.need('cocls::reusable_storage_mtsafe::alloc')[:1]:
        # the claim may sit in a helper of the class (bool try_lock_block() { return !_busy.exchange(true, acquire); }): every atomic operation
        # on the busy flag in alloc and the helpers it reaches, and the operations each path executes
        bodies = [g_ for g_ in helper_bodies(db, f) if g_ is f or not re.search(r'::(alloc|dealloc)$', g_['nname'])]
        ops = [(g_, e) for g_ in bodies for e in g_.events() if e.k == 'call' and atomic.is_atomic_call(e) and norm(e.get('field') or '') == 'cocls::reusable_storage_mtsafe::_busy']
        ok = len(ops) == 1 and atomic.opname(ops[0][1]) == 'exchange' and (ops[0][1].get('args') or [{}])[0].get('const') == 1
        cas = False
        if not ok and len(ops) == 1 and atomic.opname(ops[0][1]) == 'compare_exchange_strong' and len(ops[0][1].get('args') or []) >= 2 and ops[0][1]['args'][1].get('const') == 1:
            # the same claim spelled as a strong compare-exchange false -> true: it succeeds exactly when the flag was clear
            g_, o_ = ops[0]
            exp_ = o_['args'][0].get('path') or ''
            d_ = [e for e in g_.events() if e.k == 'decl' and e.get('var') in (exp_, exp_.replace('local:', ''))]
            w_ = [e for e in g_.events() if e.k == 'write' and e.get('path') == exp_]
            cas = ok = len(d_) == 1 and d_[0].get('const') == 0 and not w_
        trs = _traces(db, T, f)
        # ... and executed exactly once on every path
        def claims(tr):
            return [it for it in tr if it.k == 'call' and atomic.is_atomic_call(it) and norm(it.get('field') or '') == 'cocls::reusable_storage_mtsafe::_busy']
        ok = ok and bool(trs) and all(len(claims(tr)) == 1 for tr in trs)
        ctx.ob(rid, f, f['key'], ok, 'the busy flag is claimed by a single exchange(true) (found %s)' % [atomic.opname(o[1]) for o in ops], desc='busy flag not claimed by a single atomic exchange(true)')
        bad = None
        for tr in trs:
            was_busy = None
            cl = claims(tr)
            for it in tr:
                # the branch that tests what the claim returned: directly, through a flag local, or through the helper that returned (the negation of) it
                if it.k == 'branch' and cl and tests(it, cl[-1]):
                    was_busy = bool(it.val) != cas
            shared = any(it.k == 'call' and norm(it.get('callee')) == 'cocls::reusable_storage::alloc' for it in tr)
            if was_busy is None:
                bad = bad or 'the outcome of the claim is not tested'
            elif was_busy and shared:
                bad = bad or 'the shared block is handed out although it is busy'
            elif not was_busy and not shared:
                bad = bad or 'a claimed block is not used (it stays busy forever)'
        ctx.ob(rid, f, f['key'], bad is None, 'shared block iff the exchange returned false' + ('' if not bad else ' -- ' + bad), desc=bad)


def routing(ctx, db, rid_='C19.routing'):
    rid = ctx.rule(rid_, 'SIBLINGS', 'custom_allocator_base: both placement operator new forms return storage.alloc(sz) with the unchanged size, operator delete calls '
                   'Allocator::dealloc(ptr, sz) with the unchanged pointer and size', floor=2)
    seen = set()
    for f in db.need('cocls::custom_allocator_base::operator new'):
        cs = [e for e in f.events() if e.k == 'call' and norm(e.get('callee') or '').endswith('::alloc')]
        rets = [e for e in f.events() if e.k == 'return']
        alloc_param = next(('param:' + p_['name'] for p_ in f['params'] if 'Allocator' in p_['type'] or p_['type'].rstrip().endswith('&') and p_['name'] in ('storage', 'allocator', 'alloc')), None)
        def _from_alloc(r):
            o = value_origin(f, f.ev(r['ret_ev'])) if r.get('ret_ev') is not None and f.ev(r['ret_ev']) is not None else value_origin(f, r.get('path') or '')
            return o is not None and cs and o.get('id') == cs[0].get('id')
        ok = len(cs) == 1 and (cs[0].get('args') or [{}])[0].get('path') == 'param:sz' and (cs[0].get('recv') is None or re.fullmatch(r'param:\w+', cs[0].get('recv') or '')) and \
            (cs[0].get('use') == 'return' or (len(rets) == 1 and _from_alloc(rets[0])))
        if not cs:
            # through a helper of the class (alloc_frame(storage, sz) { return storage.alloc(sz); })
            trs_ = [t for t in htracer(db).traces(f) if live(t)]
            ok = bool(trs_)
            for tr in trs_:
                al = [it for it in tr if it.k == 'call' and norm(it.get('callee') or '').endswith('::alloc')]
                ok = ok and len(al) == 1 and (al[0].get('args') or [{}])[0].get('path') == 'param:sz' and (al[0].get('recv') is None or bool(re.fullmatch(r'param:\w+', al[0].get('recv') or ''))) and \
                    (origin_in_trace(tr, len(tr), ret_expr(tr))[0] or '').startswith('call(') and norm(al[0].get('callee')) in (origin_in_trace(tr, len(tr), ret_expr(tr))[0] or '')
        k = (f['key'], ok)
        if k in seen:
            continue
        seen.add(k)
        ctx.ob(rid, f, f['key'], ok, 'operator new returns storage.alloc(sz)', desc='promise operator new does not return storage.alloc(sz)', inst=f['inst'])
    seen = set()
    for f in db.need('cocls::custom_allocator_base::operator delete'):
        cs = [e for e in f.events() if e.k == 'call' and norm(e.get('callee') or '').endswith('::dealloc')]
        ok = len(cs) == 1 and [a.get('path') for a in cs[0].get('args', [])] == ['param:' + p_['name'] for p_ in f['params'][:2]] and len(f['params']) >= 2
        k = (f['key'], ok)
        if k in seen:
            continue
        seen.add(k)
        ctx.ob(rid, f, f['key'], ok, 'operator delete calls Allocator::dealloc(ptr, sz)', desc='promise operator delete does not call dealloc(ptr, sz)', inst=f['inst'])


def _ceil_div_item(e):
    """the item size K when the expression is ceil(sz / K) for one item size K (a constant local, a sizeof, a literal); None otherwise"""
    e = re.sub(r'\s+', '', e or '')
    K = r'(local:\w+(?:#\d+)?|global:[\w:<>,*&]+|sizeof\(.*?\)|\d+)'
    m = re.fullmatch(r'\(\(\(param:sz\+%s\)-1\)/%s\)' % (K, K), e) or re.fullmatch(r'\(\(param:sz\+\(%s-1\)\)/%s\)' % (K, K), e)
    if m:
        return m.group(1) if m.group(1) == m.group(2) else None
    m = re.fullmatch(r'\(\(param:sz\+(\d+)\)/(\d+)\)', e)
    return m.group(2) if m and int(m.group(1)) == int(m.group(2)) - 1 else None


def _is_ceil_div(e):
    """is the expression ceil(sz / K) for one item size K (a constant local, a sizeof, a literal)?"""
    return _ceil_div_item(e) is not None


# sizes of the fundamental types on the analysed target (x86-64 Linux, LP64) - what the extractor's compiler evaluated sizeof with
_SIZEOF = {'char': 1, 'signed char': 1, 'unsigned char': 1, 'bool': 1, '_Bool': 1, 'std::byte': 1, 'char8_t': 1, 'short': 2, 'unsigned short': 2, 'char16_t': 2, 'int': 4, 'unsigned int': 4,
           'unsigned': 4, 'char32_t': 4, 'wchar_t': 4, 'float': 4, 'long': 8, 'unsigned long': 8, 'long long': 8, 'unsigned long long': 8, 'double': 8, 'long double': 16,
           'std::size_t': 8, 'size_t': 8, 'std::uint8_t': 1, 'std::int8_t': 1, 'std::uint16_t': 2, 'std::int16_t': 2, 'std::uint32_t': 4, 'std::int32_t': 4, 'std::uint64_t': 8,
           'std::int64_t': 8, 'std::uintptr_t': 8, 'std::max_align_t': 32}


def _element_size(buffer_type):
    """(element type, its size) of a contiguous standard buffer type (std::vector<T>, std::basic_string<T>, std::array<T, n>, std::span<T>): the
    first template argument is what data() points to"""
    t = re.sub(r'\b(class|struct|const)\b', ' ', buffer_type or '')
    t = re.sub(r'\s+', ' ', t).strip().rstrip('&').strip()
    m = re.match(r'std::(?:__cxx11::)?(vector|basic_string|array|span|basic_string_view)<(.*)>$', t)
    if not m:
        return None, None
    depth = 0; arg = ''
    for ch in m.group(2):
        if ch == ',' and depth == 0:
            break
        depth += ch == '<'; depth -= ch == '>'
        arg += ch
    arg = arg.strip()
    if arg.endswith('*'):
        return arg, 8
    return arg, _SIZEOF.get(arg)


def _item_value(db, tr, i, K):
    """the compile-time value of the item size K as used at tr[i]: a literal, a constant of the library, a sizeof of a fundamental type, or a
    constant local / helper local whose initialiser the compiler evaluated"""
    if re.fullmatch(r'\d+', K):
        return int(K)
    if K.startswith('global:'):
        v = db.consts.get(K[7:])
        return v if isinstance(v, int) else None
    m = re.fullmatch(r'sizeof\((.*)\)', K)
    if m:
        return _SIZEOF.get(re.sub(r'\b(const|volatile)\b', '', m.group(1)).strip())
    for x in reversed(tr[:i]):
        if x.k == 'decl' and (x.get('var') or '') in (K, K.replace('local:', '')):
            return x.get('const') if isinstance(x.get('const'), int) and not isinstance(x.get('const'), bool) else None
    return None


def buffer_storage(ctx, db):
    rid = ctx.rule('C19.buffer-large-enough', 'GUARDED', 'reusable_buffer_storage::alloc: the buffer is grown to the computed item count exactly on the edge where its size is smaller than that '
                   'count (size() < items), the count is a ceiling division of sz by the item size, and the buffer\'s data() is what is handed out', floor=1)
    T = htracer(db)
    for c_ in db.class_insts('cocls::reusable_buffer_storage')[:1]:
        fl = next((x for x in c_['fields'] if x['name'] == '_buff'), None) or next((x for x in c_['fields'] if 'Buffer' in (x.get('type') or '')), None)
        t_ = (fl or {}).get('type') or ''
        ctx.ob(rid, 'cocls::reusable_buffer_storage', c_['loc'], fl is not None and t_.rstrip().endswith('&'), 'the adapter refers to the caller\'s buffer (%s)' % t_,
               desc='reusable_buffer_storage keeps a private copy of the buffer: the caller\'s buffer never warms up and frames live in an object that dies with the adapter')
    rid2 = ctx.rule('C19.buffer-item-is-element', 'LINEAR', 'reusable_buffer_storage::alloc, in every instantiation: the item size K that the item count ceil(sz / K) divides by is the size of one '
                    'ELEMENT of the buffer (the pointee of data()): resize(items) then provides items * sizeof(element) >= sz bytes. A larger divisor (the size of the pointer, of the '
                    'buffer object ...) makes the buffer smaller than the frame placed in it', floor=1)
    for f in db.need('cocls::reusable_buffer_storage::alloc'):
        c_ = next((c for c in db.class_insts('cocls::reusable_buffer_storage') if c.get('inst') == f.get('class_inst')), None)
        fl = c_ and (next((x for x in c_['fields'] if x['name'] == '_buff'), None) or next((x for x in c_['fields'] if re.search(r'std::', x.get('canon_type') or x.get('type') or '')), None))
        if not fl:
            raise Broken('reusable_buffer_storage::alloc (%s): the buffer member of its class is not in the facts' % f.get('inst'))
        et, es = _element_size(fl.get('canon_type') or fl.get('type'))
        if es is None:
            raise Broken('reusable_buffer_storage<%s>: the size of the buffer element type (%s) is not known to the rule' % (fl.get('type'), et))
        bad = None; seen_k = 0
        for tr in [t for t in T.traces(f) if live(t)]:
            # every value the path computes that has the ceiling-division form: the initialiser of the count, what a helper returns
            for i, it in enumerate(tr):
                e_ = it.get('init') if it.k == 'decl' else it.get('path') if it.k == 'return' and it.get('depth', 0) > 0 else None
                K = _ceil_div_item(e_) or _ceil_div_item(re.sub(r'^\((.*)\)$', r'\1', re.sub(r'\s+', '', e_ or '')))
                if not K:
                    continue
                v = _item_value(db, tr, i, K)
                if v is None:
                    raise Broken('reusable_buffer_storage::alloc: the item size %s is not a compile-time constant the facts carry' % K)
                seen_k += 1
                if v != es:
                    bad = bad or ('the item count divides by %d bytes but one element of the buffer (%s) has %d: %s' % (v, et, es, 'the buffer is resized to fewer bytes than the frame needs' if v > es
                                                                                                                      else 'the buffer is grown to a multiple of what is needed'), tr[:i + 1])
        if not seen_k:
            continue        # no ceiling division at all: that is the older clause's finding (buffer-large-enough judges the count itself), not a lost anchor of this one
        ctx.ob(rid2, f, f['key'], bad is None, 'item size = sizeof(%s) = %d' % (et, es) + ('' if not bad else ' -- ' + bad[0]), desc=bad[0] if bad else None, trace=fmt_trace(bad[1]) if bad else None, inst=f['inst'])
    for f in db.need('cocls::reusable_buffer_storage::alloc')[:1]:
        bad = None; ng = nk = 0
        for tr in [t for t in T.traces(f) if live(t)]:
            small = None; cnt = None
            for i, it in enumerate(tr):
                if it.k == 'branch':
                    m = re.fullmatch(r'\(call\(std::vector::size\) (<|>=|<=|>) (.+)\)', it.path or '')
                    mr = re.fullmatch(r'\((.+) (<|>=|<=|>) call\(std::vector::size\)\)', it.path or '')
                    if m or mr:
                        o = m.group(1) if m else {'<': '>', '>': '<', '<=': '>=', '>=': '<='}[mr.group(2)]
                        cnt = m.group(2) if m else mr.group(1)
                        small = (o == '<' and it.val) or (o == '>=' and not it.val)
                        if o in ('<=', '>'):
                            small = 'shape'
                        # what the count is: through the local it was stored in and the helper that computed it
                        o_ = origin_in_trace(tr, i, cnt)[0] or cnt
                        val = inline_returns(tr, i, o_)
                        if not _is_ceil_div(val) and not _is_ceil_div(re.sub(r'^\((.*)\)$', r'\1', re.sub(r'\s+', '', val or ''))):
                            bad = bad or 'the item count is not ceil(sz / itemsize): %s' % val
            rs = [c for c in calls(tr) if norm(c.get('callee') or '').endswith('::resize')]
            if small == 'shape' or small is None:
                bad = bad or 'the growth test is not size() < items'
            elif small:
                ng += 1
                if len(rs) != 1 or (rs[0].get('args') or [{}])[0].get('path') != cnt:
                    bad = bad or 'a too small buffer is not grown to the item count'
            else:
                nk += 1
                if rs:
                    bad = bad or 'a sufficient buffer is resized'
            ret = [it for it in tr if it.k == 'return' and it.get('depth', 0) == 0]
            if not ret or 'data' not in (ret[-1].get('path') or ''):
                bad = bad or 'the frame is not placed at the buffer\'s data()'
        if not bad and (ng == 0 or nk == 0):
            bad = 'alloc lost its grow / keep outcomes'
        ctx.ob(rid, f, f['key'], bad is None, 'grow iff size() < ceil(sz/itemsize), return data()' + ('' if not bad else ' -- ' + bad), desc=bad)
