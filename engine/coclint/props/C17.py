# C17 - shared_future: one result for all copies; state lives exactly as long as needed
import re
from ..core import norm, relloc, live, calls, evs, Broken, value_origin, Tracer, fmt_trace, rooted, has_back_edge, cond_event, tests
from .. import atomic, publish
from ..rules import *

EXPLANATION = ('Static analysis of shared_future: the members documented to work on a default-constructed object (get_promise, init_if_needed, ready, value) never dereference the '
               'state pointer on a path where it may be null, and init_if_needed leaves it non-null on every path and replaces it only when it was null (copies taken earlier stay '
               'attached); get_promise initialises through init_if_needed only; the state pointer is assigned only by constructors and init_if_needed; resolve_cb::charge stores the '
               'self-reference before it subscribes the tracer, clears it on the refused edge and touches nothing on the registered edge (the tracer may already have fired and '
               'dropped the last reference); the tracer\'s resume function drops exactly the self-reference; every constructor / get_promise path that can leave the future pending '
               'charges the tracer before the object is handed to the caller (so the tracer is the first subscriber, released last); the readiness poll acquires. Undecided: '
               'lifetime under interleavings of copy / drop / resolve as executions.')
ASSUMPTIONS = ['std::shared_ptr reference counting is thread-safe', 'the chain is LIFO: the first subscriber is released last (awaiter::resume_chain_lk walk order)']

def _nullarg(ev):
    a = (ev.get('args') or [{}])[0]
    return a.get('path') in ('nullptr', 'ctor(nullptr)', '{}', 'ctor()') or a.get('const') == 0


PTR = 'this->_ptr'
SF = 'cocls::shared_future'


def run(ctx, db, tier):
    default_state(ctx, db)
    ptr_writers(ctx, db)
    charge(ctx, db)
    tracer_first(ctx, db)
    from . import C02
    C02.walk(ctx, db, 'C17.tracer-may-free-the-state')
    # every copy's awaiter and the tracer register on the one shared future: a registration that arrives after (or races with) the resolution
    # must be refused, never parked on top of the ready marker
    C02.subscribe_protocol(ctx, db, 'C17.late-awaiter-refused')
    from . import C01
    # all copies read the same stored result: the accessors must leave it in place for the next reader
    C01.result_immutable(ctx, db, 'C17.result-stays-for-every-copy')
    # a promise handle that is overwritten while it still owns the shared state must drop it (resolve to no-value), or the state, its
    # awaiters and the tracer's self-reference stay for ever
    C01.dtor_and_assign(ctx, db, 'C17.overwritten-promise-dropped')
    ready_means_resolved(ctx, db)
    atomic.check_roles(ctx, db, 'C17.ready-acquires', only_functions={'cocls::future_common::ready', 'cocls::awaiter::resume_chain_set_ready', 'cocls::awaiter::subscribe_check_ready'}, floor=3)


def ready_means_resolved(ctx, db):
    """shared_future::ready() is the polling form every copy uses: it must answer "resolved" (future_common::ready(), the acquire load of the
    ready marker) - "not pending" is also true for a shared state whose promise has not been handed out yet, and is a relaxed read"""
    rid = ctx.rule('C17.ready-means-resolved', 'PATHS+SIBLINGS', 'shared_future::ready(): false without a shared state, otherwise exactly the answer of future_common::ready() of the shared future '
                   '(never derived from pending() / initialized(): a state that is initialised but not yet charged is not pending and not resolved)', floor=1)
    T = htracer(db)
    seen = set()
    for f in db.need('cocls::shared_future::ready'):
        if f['key'] in seen:
            continue
        seen.add(f['key'])
        trs = [t for t in T.traces(f) if live(t)]
        ctx.paths(rid, len(trs))
        bad = None; nr = 0
        for tr in trs:
            rd = [c for c in calls(tr) if norm(c.get('callee')) == 'cocls::future_common::ready' and c.get('depth', 0) == 0]
            other = [c for c in calls(tr) if norm(c.get('callee')) in ('cocls::future_common::pending', 'cocls::future_common::initialized', 'cocls::future_common::dormant') and c.get('depth', 0) == 0]
            r_ = next((it for it in reversed(tr) if it.k == 'return' and it.get('depth', 0) == 0), None)
            rp_ = (ret_expr(tr) or (r_.get('path') if r_ is not None else '') or '')
            if other:
                bad = bad or ('ready() is derived from %s(): a shared state that exists but was not yet connected to its promise reports "ready", and the load does not acquire the result' % norm(other[0].get('callee')).split('::')[-1], tr)
            elif rd:
                nr += 1
                rv_ = ret_value(tr)
                e_ = (origin_in_trace(tr, len(tr), rv_[1])[0] or rv_[1]) if rv_ is not None and rv_[0] == 'expr' else ''
                if len(rd) != 1 or rv_ is None or rv_[0] != 'expr' or rv_[2] or 'future_common::ready' not in e_:
                    bad = bad or ('the answer of future_common::ready() is not what ready() returns', tr)
            elif r_ is None or (r_.get('const') != 0 and ret_bool(tr) is not False):
                bad = bad or ('a path without a shared state does not answer false', tr)
        if nr == 0 and not bad:
            bad = ('no path asks the shared future', trs[0] if trs else [])
        ctx.ob(rid, f, f['key'], bad is None, 'ready() is the shared future\'s ready()' + ('' if not bad else ' -- ' + bad[0]), desc=bad[0] if bad else None, trace=fmt_trace(bad[1]) if bad else None)


def _ptr_fact(tr, i):
    it = tr[i]
    ce = cond_event(tr, i)
    if ce is not None and ce.k == 'call' and ce.get('recv') == PTR and norm(ce.get('callee')) in ('std::__shared_ptr::operator bool', 'std::shared_ptr::operator bool'):
        return bool(it.val)
    if ce is not None and ce.k == 'call' and re.search(r'std::operator(==|!=)$', norm(ce.get('callee') or '')):
        # shared_ptr compared with nullptr: operator==(const shared_ptr&, nullptr_t) is a function call
        ps = [a.get('path') or '' for a in ce.get('args', [])]
        if len(ps) == 2 and PTR in ps and (set(ps) - {PTR}) <= set(NULLS):
            eq = norm(ce['callee']).endswith('==')
            return (not it.val) if eq else bool(it.val)
    n = null_test(tr, i)
    if n and n[0] == PTR:
        return n[1]
    return None


def _fresh_state(tr, i, a):
    """is the value `a` assigned at position i of the trace a freshly allocated state: make_shared / allocate_shared written in place, kept
    in a local first, or returned on this path by an expanded factory helper of the class (return std::make_shared<future_internal>(...))"""
    for _ in range(4):
        if 'make_shared' in (a or '') or 'allocate_shared' in (a or ''):
            return True
        o, j = origin_in_trace(tr, i, a)
        if not o or o == a:
            return False
        a, i = o, j
    return False


def default_state(ctx, db):
    rid = ctx.rule('C17.default-state', 'GUARDED (nullness)', 'get_promise, init_if_needed, ready and value of shared_future are analysed from the entry state "_ptr may be null": no dereference '
                   'of _ptr (operator->, operator*) is reachable while it may be null; facts come from branches on _ptr and from assignment of make_shared; init_if_needed ends '
                   'with _ptr non-null on every path', floor=4)
    # helpers of shared_future itself are expanded (init_if_needed, and whatever a maintainer extracts: an accessor that returns *_ptr, a
    # factory that returns make_shared, the statement that charges the tracer); the charge and the shared future's own members are not
    T = htracer(db, extra=None)
    T.inline_filter = (lambda flt: (lambda c, e, callee: callee['nname'] != 'cocls::shared_future::resolve_cb::charge' and class_of(db, callee) == SF and flt(c, e, callee)))(T.inline_filter)
    for name in ('cocls::shared_future::get_promise', 'cocls::shared_future::init_if_needed', 'cocls::shared_future::ready', 'cocls::shared_future::value'):
        fns = db.need(name)
        seen = set()
        for f in fns:
            if f['key'] in seen:
                continue
            seen.add(f['key'])
            trs = T.traces(f)
            ctx.paths(rid, len(trs))
            bad = None; end_null = None
            for tr in trs:
                nn = False
                for i, it in enumerate(tr):
                    if it.k == 'abort':
                        break
                    if it.k == 'branch':
                        v = _ptr_fact(tr, i)
                        if v is not None:
                            nn = v
                        continue
                    ev = it
                    if it.k in ('enter', 'leave'):
                        continue
                    if ev.k == 'call' and ev.get('recv') == PTR:
                        c = norm(ev.get('callee') or '')
                        if c.endswith('operator='):
                            a = (ev.get('args') or [{}])[0].get('path') or ''
                            nn = _fresh_state(tr, i, a)
                        elif c.endswith('::reset'):
                            nn = bool(ev.get('args'))
                        elif re.search(r'operator->|operator\*', c) or c.endswith('::get') and False:
                            if not nn:
                                bad = bad or ('%s dereferences _ptr on a path where it may still be null (default-constructed object)' % name.split('::')[-1], tr, i)
                    elif ev.k in ('call', 'read', 'write') and re.match(r'\*\(\*?\(?this->_ptr', (ev.get('recv') or ev.get('path') or '')) and not nn:
                        bad = bad or ('%s uses *_ptr on a path where it may be null' % name.split('::')[-1], tr, i)
                if live(tr) and name.endswith('init_if_needed') and not nn:
                    end_null = tr
            ctx.ob(rid, f, f['key'], bad is None, '%s never dereferences a possibly null state pointer' % name.split('::')[-1] + ('' if not bad else ' -- ' + bad[0]), desc=bad[0] if bad else None,
                   trace=short_trace(bad[1], bad[2]) if bad else None)
            if name.endswith('init_if_needed'):
                ctx.ob(rid, f, f['key'], end_null is None, 'init_if_needed leaves _ptr non-null on every path', desc='init_if_needed may leave _ptr null', trace=fmt_trace(end_null) if end_null else None)


def ptr_writers(ctx, db):
    rid = ctx.rule('C17.state-pointer-writers', 'WHO+GUARDED', 'shared_future::_ptr is assigned by constructors / assignment operators, and by any other member only on the edge where it tested null '
                   '(lazy initialisation; replacing a live state would detach earlier copies); that get_promise cannot meet a null state is C17.default-state', floor=1)

    def pred(f, e):
        if norm(f.get('class') or '') != SF:
            return False
        if e.k == 'call' and e.get('recv') == PTR and (norm(e.get('callee') or '').endswith(('operator=', '::reset', '::swap'))):
            return True
        if e.k == 'write' and (e.get('path') or '') == PTR and not e.get('init'):
            return True
        return False
    found = who(db, pred)
    CTORS = {'cocls::shared_future::shared_future', 'cocls::shared_future::operator='}
    T = htracer(db)
    n = 0
    for fname, lst in sorted(found.items()):
        f = lst[0][0]
        if fname in CTORS:
            ctx.ob(rid, f, lst[0][1].get('loc') or f['key'], True, 'assignment of shared_future::_ptr in a constructor / assignment operator (a new object, or an explicit re-seat by the user)')
            continue
        # any other member: it may only install a state where there is none (replacing a live state would detach earlier copies)
        n += 1
        bad = None
        for tr in T.traces(f):
            nn = None
            for i, it in enumerate(tr):
                if it.k == 'branch':
                    v = _ptr_fact(tr, i)
                    if v is not None:
                        nn = v
                elif ((it.k == 'call' and it.get('recv') == PTR and norm(it.get('callee') or '').endswith(('operator=', '::reset', '::swap'))) or (it.k == 'write' and (it.get('path') or '') == PTR and not it.get('init'))) and nn is not False and it.get('fname') == f['nname']:
                    bad = tr
        ctx.ob(rid, f, f['key'], bad is None, '%s assigns _ptr only on the edge where it is null' % fname.split('::')[-1], desc='%s replaces a live state' % fname.split('::')[-1], trace=fmt_trace(bad) if bad else None)
    if n == 0:
        raise Broken('no lazy initialisation of shared_future::_ptr found: anchor changed')


def charge(ctx, db):
    rid = ctx.rule('C17.charge', 'ORDER+NO-TOUCH', 'resolve_cb::charge: the resume function is set and the self-reference stored before the tracer is subscribed; on the refused edge the self-reference '
                   'is cleared; on the registered edge nothing of the tracer is touched any more; the tracer\'s resume function clears exactly the self-reference', floor=2)
    for f, trs in traces_of(db, 'cocls::shared_future::resolve_cb::charge', depth=0, per_instance=False):
        trs = [t for t in trs if live(t)]
        ctx.paths(rid, len(trs))
        bad = None; nreg = nref = 0
        for tr in trs:
            si = index_of(tr, lambda ev: ev.k == 'call' and norm(ev.get('callee')) in ('cocls::co_awaiter::subscribe', 'cocls::future_common::subscribe', 'cocls::awaiter::subscribe_check_ready'))
            st = all_indices(tr, lambda ev: ev.k == 'call' and ev.get('recv') == PTR and norm(ev.get('callee') or '').endswith('operator='))
            fn = index_of(tr, callee_is('cocls::awaiter::set_resume_fn'))
            if si < 0:
                bad = bad or ('the tracer is not subscribed', tr); continue
            before = [i for i in st if i < si and not _nullarg(tr[i])]
            if not before:
                bad = bad or ('the self-reference is stored only after the tracer was subscribed: a resolution in between leaves the state referencing itself forever', tr)
            if fn < 0 or fn > si:
                bad = bad or ('the tracer is subscribed before its resume function is set', tr)
            reg = None
            for i, it in enumerate(tr[si:]):
                if it.k == 'branch' and (it.cond_ev == tr[si].get('id') or tests(it, tr[si])):
                    reg = it.val; break
            after = [i for i in st if i > si]
            if reg is True:
                nreg += 1
                for it in tr[si + 1:]:
                    if it.k in ('read', 'write') and rooted(it.get('path') or '', 'this') and it.get('path') != 'this':
                        bad = bad or ('the tracer is touched after it was registered', tr)
                    if it.k == 'call' and rooted(it.get('recv') or '', 'this') and it.get('recv') != 'this' and not atomic.is_atomic_call(it):
                        bad = bad or ('the tracer is touched after it was registered', tr)
            elif reg is False:
                nref += 1
                if not any(_nullarg(tr[i]) for i in after) and not any(null_store(it, '_ptr') and rooted(it.get('recv') or it.get('path') or (it.get('args') or [{}])[0].get('path') or '', 'this') for it in tr[si + 1:]):
                    bad = bad or ('a refused registration keeps the self-reference (the state never dies)', tr)
            else:
                bad = bad or ('the result of the subscription is not tested', tr)
        if not bad and (nreg == 0 or nref == 0):
            bad = ('charge lost its outcomes', [])
        ctx.ob(rid, f, f['key'], bad is None, 'store self-reference, then subscribe; clear iff refused' + ('' if not bad else ' -- ' + bad[0]), desc=bad[0] if bad else None, trace=fmt_trace(bad[1]) if bad and bad[1] else None)
    lams = resume_bodies(db, 'cocls::shared_future::resolve_cb::charge')
    if not lams:
        raise Broken('tracer resume function not found')
    lf = lams[0]
    # x->_ptr = nullptr;  x->_ptr.reset();  std::exchange(x->_ptr, nullptr) ...  (x may be a local alias of the converted awaiter pointer)
    st = [e for e in lf.events() if null_store(e, '_ptr')]
    stores = [e for e in lf.events() if e.k == 'call' and re.search(r'(->|\.)_ptr$', e.get('recv') or '') and norm(e.get('callee') or '').endswith('operator=') and not _nullarg(e)]
    other = [e for e in lf.events() if e.k in ('call',) and not norm(e.get('callee') or '').endswith('operator=') and norm(e.get('callee') or '').startswith('cocls::') and e.k == 'call' and norm(e.get('callee')) != 'cocls::suspend_point::suspend_point']
    ctx.ob(rid, lf, lf['key'], len(st) == 1 and not stores and not other,
           'the tracer\'s resume function drops the self-reference and does nothing else', desc='tracer resume function does not just drop the self-reference')


def tracer_first(ctx, db):
    rid = ctx.rule('C17.tracer-first', 'COUNT', 'every constructor of shared_future that can leave the future pending, and get_promise, charge the tracer exactly once before returning the object '
                   'to the caller (on the pending edge when the state may already be resolved)', floor=3)
    # helpers of the class, but not the charge itself (the anchor)
    T = htracer(db, extra=None)
    T.inline_filter = (lambda flt: (lambda c, e, callee: callee['nname'] != 'cocls::shared_future::resolve_cb::charge' and norm(callee.get('class') or '') == SF and flt(c, e, callee)))(T.inline_filter)
    seen = set()
    for name in ('cocls::shared_future::shared_future', 'cocls::shared_future::get_promise'):
        for f in db.fns(name):
            if f['key'] in seen or norm(f.get('class') or '') != SF:
                continue
            # a constructor that allocates a state - itself or through a factory helper of the class (_ptr(make_state(...)))
            creates = any(e.k == 'call' and norm(e.get('callee')) in ('std::make_shared', 'std::allocate_shared') for g in helper_bodies(db, f) for e in g.events()) or name.endswith('get_promise')
            if not creates:
                continue
            seen.add(f['key'])
            trs = [t for t in T.traces(f) if live(t)]
            ctx.paths(rid, len(trs))
            bad = None
            for tr in trs:
                ch = all_indices(tr, callee_is('cocls::shared_future::resolve_cb::charge'))
                pend = None
                for i, it in enumerate(tr):
                    if it.k == 'branch':
                        ce = cond_event(tr, i)
                        if ce is not None and ce.k == 'call' and norm(ce.get('callee')) == 'cocls::future_common::pending':
                            pend = bool(it.val)
                if pend is False:
                    if ch:
                        bad = bad or ('the tracer is charged although the future is already resolved', tr)
                elif len(ch) != 1:
                    bad = bad or ('a path that may leave the future pending charges the tracer %d times' % len(ch), tr)
                elif (tr[ch[0]].get('args') or [{}])[0].get('path') not in (PTR, 'ctor(this->_ptr)'):
                    bad = bad or ('the tracer is not charged with this object\'s own state', tr)
                else:
                    # whatever (re)initialises the future's awaiter slot - get_promise() exchanges it, result_of / operator<< construct into it -
                    # comes before the charge: a slot reset afterwards silently unsubscribes the tracer and its self-reference is never dropped
                    init = all_indices(tr, lambda ev: ev.k == 'call' and norm(ev.get('callee') or '') in ('cocls::future::get_promise', 'cocls::future::result_of', 'cocls::future::operator<<'))
                    if init and init[-1] > ch[0]:
                        bad = bad or ('the tracer is charged before %s re-initialises the awaiter slot: the registration is wiped, the state keeps referencing itself and is never freed' % norm(tr[init[-1]].get('callee')).split('::')[-1], tr)
            ctx.ob(rid, f, f['key'], bad is None, '%s charges the tracer on every possibly-pending path' % f['nname'].split('::')[-1] + ('' if not bad else ' -- ' + bad[0]), desc=bad[0] if bad else None,
                   trace=fmt_trace(bad[1]) if bad and bad[1] else None)
