# C15 - signal: every waiting listener gets every value; disconnect wakes all
import re
from ..core import norm, relloc, live, calls, evs, Broken, value_origin, Tracer, fmt_trace, rooted, has_back_edge, cond_event, pos
from .. import atomic, publish
from ..rules import *
from . import C02

EXPLANATION = ('Static analysis of signal<T>: every collector overload stores the value / points the current-value pointer at it on every path before it releases the listeners, releases '
               'them exactly once through the whole-chain exchange, and returns that suspend point; the state\'s destructor clears the value pointer and then releases the chain once '
               '(disconnect wakes all, who then fail); emitter::await_suspend registers and suspends exactly on the edge where the shared state is alive, with its handle set before '
               'it is published and untouched afterwards; await_resume throws await_canceled_exception on every path that did not read a non-null current value; the self-owning '
               'connect() awaiter does exactly one of re-subscribe / delete itself on every path and touches nothing afterwards; hook_up marks itself hooked before the user\'s '
               'registration function can fire. Undecided: "every waiting listener gets every value" as behaviour over histories; miss-free re-await.')
ASSUMPTIONS = ['awaiter::resume_chain releases every awaiter of the detached chain (C02.walk)', 'std::weak_ptr::lock is atomic w.r.t. the last shared_ptr release']

CUR = 'cocls::signal::state::_cur_val'


def _flag_at(tr, idx, path, steps=6):
    """truth value a bool local holds at position idx of one trace: the constant its latest definition before idx stored (declaration with an
    initialiser or plain assignment: bool done = false; if (..) { ..; done = true; } return done;), another local it copies, or an
    expression whose outcome a branch of this path has fixed.  None when not decided (compound assignment, unknown expression)"""
    neg = False
    for _ in range(steps):
        p = path or ''
        while p.startswith('!(') and p.endswith(')'):
            p = p[2:-1]; neg = not neg
        if re.fullmatch(r'!(local|param):\w+(#\d+)?', p):
            p = p[1:]; neg = not neg
        if p in ('true', 'false'):
            return (p == 'true') != neg
        if not re.fullmatch(r'local:\w+(#\d+)?', p):
            for it in reversed(tr[:idx]):
                if it.k == 'branch':
                    if p == it.get('path'):
                        return bool(it.val) != neg
                    if p == it.get('opath'):
                        return bool(it.get('oval', it.val)) != neg
                    if p in (it.get('forms') or {}):
                        return bool(it['forms'][p]) != neg
            return None
        j = next((j for j in range(idx - 1, -1, -1) if (tr[j].k == 'decl' and tr[j].get('var') == p) or (tr[j].k == 'write' and tr[j].get('path') == p)), None)
        if j is None:
            return None
        d = tr[j]
        if d.k == 'write' and (d.get('op') or '=') != '=':
            return None
        if isinstance(d.get('const'), (int, bool)):
            return bool(d['const']) != neg
        path, idx = (d.get('init') if d.k == 'decl' else d.get('rhs')), j
        if not path:
            return None
    return None


def _ret_truth(tr):
    """truth value the root function returns on this trace: ret_bool (constant / expression decided by a branch), or a flag local that the
    path has assigned (bool suspended = false; if (s) {...; suspended = true;} return suspended;)"""
    rv = ret_bool(tr)
    if rv is not None:
        return rv
    v = ret_value(tr)
    if v is None or v[0] != 'expr':
        return None
    d0 = min((it.get('depth', 0) for it in tr if it.k not in ('enter', 'leave', 'abort')), default=0)
    r = next((i for i in range(len(tr) - 1, -1, -1) if tr[i].k == 'return' and tr[i].get('depth', 0) == d0), None)
    if r is None:
        return None
    t = _flag_at(tr, r, v[1])
    return None if t is None else (t != bool(v[2]))


def _stores_true(it, path):
    """does trace item `it` set the bool at `path`: x = true; std::exchange(x, true) (the old value is the caller's business); x |= true"""
    if it.k == 'write' and (it.get('path') or '') == path and (it.get('op') or '=') in ('=', '|=') and (it.get('const') == 1 or (it.get('rhs') or '') == 'true'):
        return True
    if it.k == 'call' and norm(it.get('callee') or '') == 'std::exchange':
        a = it.get('args') or []
        return len(a) > 1 and (a[0].get('path') or '') == path and (a[1].get('const') == 1 or (a[1].get('path') or '') == 'true')
    return False


def run(ctx, db, tier):
    value_before_notify(ctx, db)
    alive_or_fail(ctx, db)
    self_owning(ctx, db)
    whole_chain(ctx, db)
    hook_up(ctx, db)
    emitter_always_suspends(ctx, db)
    listeners_hold_weak(ctx, db)
    summ = publish.Summaries(db)
    publish.check_no_touch(ctx, db, 'C15.publish-discipline', summ, functions=None, per_instance=False, floor=12)
    C02.init_before_publish(ctx, db, summ, 'C15.init-before-publish')
    # listeners push themselves onto the signal's chain concurrently: none of them may be cut off by another one's retry
    C02.link_current(ctx, db, 'C15.no-listener-cut-off')


def value_before_notify(ctx, db):
    rid = ctx.rule('C15.value-before-notify', 'ORDER+COUNT', 'every collector::operator() overload: on every path the current-value pointer is written (to the stored copy or to the caller\'s lvalue) '
                   'before notify_awaiters(), which is called exactly once and whose suspend point is returned; ~state writes null to the pointer and then notifies exactly once', floor=3)
    # helpers of the shared state other than the anchor notify_awaiters() are expanded (state::broadcast(ptr) { _cur_val = ptr; return notify_awaiters(); })
    T = htracer(db, extra=lambda c, e, callee: norm(callee['nname']).startswith('cocls::signal::state::') and not callee.get('lambda') and
                norm(callee['nname']).split('::')[-1] not in ('notify_awaiters', 'state', '~state'))
    fns = db.need('cocls::signal::collector::operator()')
    seen = {}
    for f in fns:
        trs = [t for t in T.traces(f) if live(t)]
        ctx.paths(rid, len(trs))
        bad = None
        for tr in trs:
            w = all_indices(tr, lambda ev: ev.k == 'write' and field_of(ev) == CUR)
            n = all_indices(tr, callee_is('cocls::signal::state::notify_awaiters'))
            em = all_indices(tr, lambda ev: ev.k == 'call' and norm(ev.get('callee') or '').split('::')[-1] in ('emplace', 'operator=') and (ev.get('recv') or '').endswith('_value_storage'))
            if len(n) != 1:
                bad = bad or ('listeners are released %d times' % len(n), tr); continue
            if not w or w[-1] > n[0]:
                bad = bad or ('on some path listeners are released before (or without) the current-value pointer being set to this call\'s value: they read a stale or previous value', tr)
            elif [i for i in w if i > n[0]]:
                bad = bad or ('the current-value pointer is changed after the listeners were released', tr)
            else:
                rhs = tr[w[-1]].get('rhs') or ''
                if not rhs.startswith('&('):
                    rhs = origin_in_trace(tr, w[-1], rhs)[0] or rhs        # the pointer came through a helper / local
                lval = bool(re.fullmatch(r'&\(param:\w+\)', rhs)) and not em
                if lval:
                    # only the overload that takes an lvalue reference may broadcast the caller's object: a temporary bound to an rvalue reference /
                    # forwarding parameter is gone when listeners queued in the returned suspend point are resumed later
                    pn = rhs[len('&(param:'):-1]
                    pt = next((q.get('ctype') or q.get('type') or '' for q in f['params'] if q.get('name') == pn), '')
                    if pt.rstrip().endswith('&&') or not pt.rstrip().endswith('&'):
                        bad = bad or ('the pointer is aimed at a temporary / by-value argument (%s) instead of the stored copy: listeners resumed after the call read a dead object' % pt.strip(), tr)
                if not lval:
                    if not em or em[-1] > w[-1]:
                        bad = bad or ('the value is not stored before the pointer is aimed at the storage', tr)
                    elif '_value_storage' not in rhs:
                        # &storage.emplace(...) / auto &ref = storage.emplace(...); ... = &ref: emplace returns a reference to the stored copy
                        inner = rhs[2:-1] if rhs.startswith('&(') and rhs.endswith(')') else rhs
                        o = origin_in_trace(tr, w[-1], inner)[0] or inner
                        if not ('_value_storage' in o or (re.fullmatch(r'call\(std::optional::emplace\)', o) and em)):
                            bad = bad or ('the pointer is not aimed at the stored copy', tr)
                ret = [it for it in tr if it.k == 'return']
                if not ret or 'notify_awaiters' not in (ret[-1].get('path') or ''):
                    o = value_origin(f, f.ev(ret[-1].get('ret_ev'))) if ret and ret[-1].get('ret_ev') is not None and f.ev(ret[-1].get('ret_ev')) is not None else None
                    if (o is None or norm(o.get('callee') or '') != 'cocls::signal::state::notify_awaiters') and not re.search(r'notify_awaiters|cocls::awaiter::resume_chain', origin_in_trace(tr, len(tr), ret_expr(tr))[0] or ''):
                        bad = bad or ('the suspend point of the released listeners is not returned to the caller', tr)
        k = f['key']
        if k in seen and not bad:
            continue
        seen[k] = 1
        ctx.ob(rid, f, f['key'], bad is None, 'store value, aim pointer, notify once, return it' + ('' if not bad else ' -- ' + bad[0]), desc=(bad[0][:110] if bad else None), trace=fmt_trace(bad[1]) if bad else None)
    for f, trs in traces_of(db, 'cocls::signal::state::~state', depth=0, per_instance=False):
        trs = [t for t in trs if live(t)]
        bad = None
        for tr in trs:
            w = all_indices(tr, lambda ev: ev.k == 'write' and field_of(ev) == CUR and (ev.get('const') == 0 or (ev.get('rhs') or '') in NULLS))
            # released through notify_awaiters() (counted by the detach inside it when it was expanded) or directly by detaching the chain (awaiter::resume_chain(_chain))
            n = all_indices(tr, lambda ev: ev.k == 'call' and ((norm(ev.get('callee')) == 'cocls::signal::state::notify_awaiters' and not ev.get('expanded')) or
                                                                (norm(ev.get('callee')) == 'cocls::awaiter::resume_chain' and any(norm(a.get('field') or '') == 'cocls::signal::state::_chain' for a in ev.get('args', [])))))
            if len(n) != 1 or not w or w[0] > n[0]:
                bad = tr
        ctx.ob(rid, f, f['key'], bad is None, '~state: pointer cleared, then every waiting listener released once', desc='~state does not clear the value and then release the chain once')


def alive_or_fail(ctx, db):
    rid = ctx.rule('C15.alive-or-fail', 'COUNT', 'emitter::await_suspend subscribes to the chain and answers true exactly on the edge where weak_ptr::lock() is non-null, answers false (resume at '
                   'once) otherwise; emitter::await_resume returns the current value only on a path that read it non-null from a live state, every other path throws '
                   'await_canceled_exception', floor=2)
    for f, trs in traces_of(db, 'cocls::signal::emitter::await_suspend', depth=0, per_instance=False):
        trs = [t for t in trs if live(t)]
        ctx.paths(rid, len(trs))
        bad = None; ny = nn = 0
        for tr in trs:
            alive = None
            for i, it in enumerate(tr):
                if it.k == 'branch':
                    nt = null_test(tr, i)
                    if nt and re.match(r'local:\w+|call\(std::weak_ptr::lock\)', nt[0] or ''):
                        alive = bool(nt[1])
            sub = all_indices(tr, callee_is('cocls::awaiter::subscribe'))
            rv = _ret_truth(tr)
            rv = None if rv is None else int(rv)
            if alive is True:
                ny += 1
                if len(sub) != 1 or rv != 1:
                    bad = bad or ('a live signal is not subscribed to exactly once / the coroutine does not suspend', tr)
            elif alive is False:
                nn += 1
                if sub or rv != 0:
                    bad = bad or ('a disconnected emitter suspends the coroutine (it would wait forever)', tr)
            else:
                bad = bad or ('liveness of the shared state is not tested', tr)
        if not bad and (ny == 0 or nn == 0):
            bad = ('await_suspend lost its outcomes', [])
        ctx.ob(rid, f, f['key'], bad is None, 'subscribe+suspend iff alive' + ('' if not bad else ' -- ' + bad[0]), desc=bad[0] if bad else None)
    T = Tracer(db, depth=0)
    seenk = set()
    for f in db.need('cocls::signal::emitter::await_resume'):
        trs = T.traces(f)
        ctx.paths(rid, len(trs))
        bad = None; nthrow = nret = 0
        for tr in trs:
            thr = [it for it in tr if it.k == 'throw']
            # what each pointer local holds at each point of the path: the current-value pointer, null, or something else
            holds = {}; infeasible = False; got = False
            for i_, it in enumerate(tr):
                src = None
                if it.k == 'decl' and it.get('init'):
                    src = (it.get('var'), resolve_select(it['init'], tr[:i_]) or '')
                elif it.k == 'write' and re.fullmatch(r'local:\w+(#\d+)?', it.get('path') or '') and (it.get('op') or '=') == '=':
                    src = (it['path'], resolve_select(it.get('rhs') or '', tr[:i_]) or ('nullptr' if it.get('const') == 0 else ''))
                if src:
                    o = origin_in_trace(tr, i_, src[1])[0] or src[1]
                    holds[src[0]] = 'cur' if o.endswith('_cur_val') else ('null' if (o in NULLS or (it.k == 'write' and it.get('const') == 0) or (it.k == 'decl' and it.get('const') == 0)) else (holds.get(o) if o in holds else 'other'))
                elif it.k == 'branch':
                    nt = null_test(tr, i_)
                    if nt:
                        h = holds.get(nt[0])
                        if h == 'null' and nt[1]:
                            infeasible = True      # a local that is null on this path tested non-null
                        if nt[1] and ('_cur_val' in (nt[0] or '') or h == 'cur'):
                            got = True
            if infeasible:
                continue
            if live(tr):
                nret += 1
                if not got:
                    bad = bad or ('await_resume returns normally on a path that did not see a non-null current value (disconnect not reported)', tr)
            elif thr:
                nthrow += 1
                if 'await_canceled_exception' not in (thr[-1].get('type') or ''):
                    bad = bad or ('a disconnected emitter reports %s instead of await_canceled_exception' % thr[-1].get('type'), tr)
        if not bad and (nthrow == 0 or nret == 0):
            bad = ('await_resume lost its outcomes', [])
        if f['key'] in seenk and not bad:
            continue
        seenk.add(f['key'])
        ctx.ob(rid, f, f['key'], bad is None, 'value iff read non-null, else await_canceled_exception' + ('' if not bad else ' -- ' + bad[0]), desc=bad[0] if bad else None)


def _heap_awaiter_entries(db):
    """connect()'s self-owning listener, found by what the code does rather than by its name: the class is what signal::connect allocates
    with `new` (a class local to connect() or a nested class of signal); its entry points are (first) the members connect() calls on the
    fresh object - the initial registration - and (later) the members its resume function - the closure or named function the constructor
    installs - calls on the converted awaiter pointer.  Returns (first, later) as lists of function instances"""
    first, later = [], []
    seen = set()

    def add(lst, g):
        if g is not None and not g.get('lambda') and (id(lst), g['key'], g.get('inst')) not in seen:
            seen.add((id(lst), g['key'], g.get('inst'))); lst.append(g)
    for f in db.fns('cocls::signal::connect'):
        ctors = [db.resolve(f, e['callee_key'], e.get('callee_inst')) for e in f.events() if e.k == 'construct' and e.get('use') == 'arg:new' and e.get('callee_key')]
        ctors = [c for c in ctors if c is not None]
        classes = {class_of(db, c) for c in ctors} - {''}
        via_smart = False
        if not classes:
            # the object may be created by std::make_unique<X>(...) (and released into self-ownership later): X is named by the result type
            for e in f.events():
                if e.k == 'call' and norm(e.get('callee') or '') in ('std::make_unique', 'std::make_unique_for_overwrite'):
                    m_ = re.match(r'std::make_unique(?:_for_overwrite)?<\s*(?:class |struct )?([\w:]+)', e.get('callee_inst') or '')
                    nm = m_.group(1).split('::')[-1] if m_ else None
                    for c in db.all_instances():
                        cls = class_of(db, c)
                        # a constructor of a class of that name that is local to connect() or nested in signal
                        if nm and cls and cls.split('::')[-1] == nm and c['nname'] == cls + '::' + nm and cls.startswith('cocls::signal'):
                            ctors.append(c)
            classes = {class_of(db, c) for c in ctors} - {''}
            via_smart = bool(classes)
        if not classes:
            continue
        if via_smart:
            for e in f.events():
                if e.k == 'call' and e.get('callee_key'):
                    g = db.resolve(f, e['callee_key'], e.get('callee_inst'))
                    if g is not None and class_of(db, g) in classes and g['nname'].rsplit('::', 1)[-1] != g['nname'].rsplit('::', 2)[-2:][0]:
                        add(first, g)
        for e in f.events():
            if e.k == 'call' and e.get('callee_key') and e.get('recv_ev') is not None and f.ev(e['recv_ev']) is not None:
                o = value_origin(f, f.ev(e['recv_ev']))
                if o is not None and o.k == 'new':
                    g = db.resolve(f, e['callee_key'], e.get('callee_inst'))
                    if g is not None and class_of(db, g) in classes:
                        add(first, g)
        for rb in resume_bodies(db, ctors):
            for e in rb.events():
                if e.k == 'call' and e.get('callee_key') and e.get('recv'):
                    g = db.resolve(rb, e['callee_key'], e.get('callee_inst'))
                    if g is not None and class_of(db, g) in classes and not g.get('static'):
                        add(later, g)
    return first, later


def self_owning(ctx, db):
    rid = ctx.rule('C15.self-owning', 'COUNT+NO-TOUCH', 'connect()\'s heap awaiter: every path of resume() and initial_reg() performs exactly one of re-subscribe to the chain or delete this, and '
                   'touches nothing of the object afterwards (after re-subscription another thread may already have resumed and deleted it)', floor=2)
    # the members of the awaiter's class they call (a re-subscribe / delete tail, the callback invocation) are expanded as helpers
    T = htracer(db)
    first, later = _heap_awaiter_entries(db)
    if not first or not later:
        raise Broken('connect()::Awt::resume / initial_reg not instantiated')
    targets = []
    for g in later + first:
        if (g['key'], g.get('inst')) not in {(t['key'], t.get('inst')) for t in targets}:
            targets.append(g)
    resume_names = {g['nname'] for g in later}
    seen = {}
    for f in targets:
        trs = [t for t in T.traces(f) if live(t)]
        ctx.paths(rid, len(trs))
        bad = None
        for tr in trs:
            acts = all_indices(tr, lambda ev: (ev.k == 'call' and norm(ev.get('callee')) == 'cocls::awaiter::subscribe') or (ev.k == 'delete' and ev.get('path') == 'this'))
            if len(acts) != 1:
                bad = bad or ('a path re-subscribes/deletes %d times (leak or double free / double registration)' % len(acts), tr); continue
            after = acts[0] + 1
            if tr[acts[0]].get('expanded'):
                # the publishing call was expanded in place: its own body (the CAS retry loop) is not "after" it
                after = next((j + 1 for j in range(acts[0] + 1, len(tr)) if tr[j].k == 'leave' and tr[j].ev.get('id') == tr[acts[0]].get('id') and tr[j].get('depth') == tr[acts[0]].get('depth', 0)), after)
            for it in tr[after:]:
                p = it.get('path') or it.get('recv') or ''
                if it.k in ('read', 'write') and rooted(p, 'this') and p != 'this':
                    bad = bad or ('the awaiter is touched after it was re-subscribed / deleted', tr)
                if it.k == 'call' and it.get('recv') and rooted(it['recv'], 'this') and norm(it.get('callee') or '').startswith('cocls::') and norm(it.get('callee') or '') not in resume_names:
                    bad = bad or ('the awaiter is used after it was re-subscribed / deleted', tr)
        k = (f['key'])
        if k in seen and not bad:
            continue
        seen[k] = 1
        ctx.ob(rid, f, f['key'], bad is None, '%s: re-subscribe xor delete, nothing after' % f['nname'].split('::')[-1] + ('' if not bad else ' -- ' + bad[0]), desc=bad[0] if bad else None, trace=fmt_trace(bad[1]) if bad else None)


def whole_chain(ctx, db):
    rid = ctx.rule('C15.whole-chain', 'ATOMIC', 'notify_awaiters releases the whole chain at once: awaiter::resume_chain, one exchange with null, result handed to the walker', floor=2)
    for f in db.need('cocls::signal::state::notify_awaiters')[:1]:
        cs = [e for e in f.events() if e.k == 'call' and norm(e.get('callee')) == 'cocls::awaiter::resume_chain']
        ok = len(cs) == 1 and (cs[0].get('args') or [{}])[0].get('path') == 'this->_chain' and cs[0].get('use') == 'return'
        ctx.ob(rid, f, f['key'], ok, 'notify_awaiters returns resume_chain(_chain)', desc='notify_awaiters does not return resume_chain(_chain)')
    from . import C02
    for f in db.need('cocls::awaiter::resume_chain')[:1]:
        ops = [e for e in f.events() if e.k == 'call' and atomic.is_atomic_call(e)]
        ok = len(ops) == 1 and atomic.opname(ops[0]) == 'exchange' and (ops[0].get('args') or [{}])[0].get('const') == 0 and flows_only_into(f, ops[0], 'cocls::awaiter::resume_chain_lk') and atomic.acq(atomic.success_order(ops[0]))
        if not ok and not ops:
            # the exchange may live in a helper (one exchange primitive shared with resume_chain_set_ready): judged on the helper-expanded paths -
            # one atomic operation on the chain per path, an exchange installing null, acquiring, whose result goes to the walker
            trs = [t for t in htracer(db).traces(f) if live(t)]
            ok = bool(trs)
            for tr in trs:
                aops = [it for it in tr if it.k == 'call' and atomic.is_atomic_call(it)]
                if len(aops) != 1 or atomic.opname(aops[0]) != 'exchange' or not atomic.acq(atomic.success_order(aops[0])):
                    ok = False; break
                a0 = (aops[0].get('args') or [{}])[0]
                val = a0.get('const')
                if val is None:
                    o = origin_in_trace(tr, pos(tr, aops[0]), a0.get('path') or '')[0] or a0.get('path') or ''
                    val = 0 if o in ('nullptr', '0', 'NULL') else None
                walker = [c for c in tr if c.k == 'call' and norm(c.get('callee')) == 'cocls::awaiter::resume_chain_lk']
                if val != 0 or len(walker) != 1 or pos(tr, walker[0]) < pos(tr, aops[0]):
                    ok = False; break
        ctx.ob(rid, f, f['key'], ok, 'resume_chain: exchange(nullptr, >= acquire) feeding resume_chain_lk', desc='resume_chain is not one acquiring exchange(nullptr)')


def emitter_always_suspends(ctx, db):
    """the liveness of the signal is decided in await_suspend (which registers or refuses) and reported by await_resume.  hook_up_emitter
    re-exports the emitter's await_ready and starts without a state: its first co_await must reach await_suspend, where the hook-up happens"""
    rid = ctx.rule('C15.emitter-always-suspends', 'PATHS', 'signal::emitter::await_ready (also used by hook_up_emitter) answers false on every path: whether there is something to wait for is '
                   'decided by await_suspend, and the very first await of a hook-up emitter - which has no state yet - must get there', floor=1)
    for f, trs in traces_of(db, 'cocls::signal::emitter::await_ready', per_instance=False):
        trs = [t for t in trs if live(t)]
        ctx.paths(rid, len(trs))
        bad = next((t for t in trs if ret_const(t) != 0), None)
        ctx.ob(rid, f, f['key'], bad is None and bool(trs), 'await_ready is constant false' + ('' if bad is None else ' -- it answers %s' % (ret_expr(bad) or ret_const(bad))),
               desc='emitter::await_ready may answer true: a hook-up emitter (no state yet) skips the suspension in which it registers itself, and is cancelled at once' if bad is not None else None,
               trace=fmt_trace(bad) if bad else None)


def hook_up(ctx, db):
    rid = ctx.rule('C15.hook-up-once', 'ORDER', 'hook_up_emitter::await_suspend: the emitter marks itself hooked and is registered with the private signal before the user\'s registration function '
                   'is called (that function may fire the collector at once, and the resumed listener re-awaits)', floor=1)
    fns = [f for f in db.all_instances() if f['nname'] == 'cocls::signal::hook_up_emitter::await_suspend']
    if not fns:
        raise Broken('hook_up_emitter::await_suspend not instantiated')
    T = htracer(db, extra=lambda c, e, callee: False)
    T = Tracer(db, depth=2, inline_filter=lambda c, e, callee: is_helper(db, c, callee) and callee['nname'] != 'cocls::signal::emitter::await_suspend')
    f = fns[0]
    trs = [t for t in T.traces(f) if live(t)]
    ctx.paths(rid, len(trs))
    bad = None; n = 0
    for tr in trs:
        call = index_of(tr, lambda ev: ev.k == 'call' and (ev.get('recv') or '') == 'this->_fn')
        if call < 0:
            # already hooked up: this is a plain re-registration with the private signal, which is refused once the generator has dropped
            # the collector - the refusal (false = do not suspend, await_resume reports the disconnect) must reach the language
            ss_ = all_indices(tr, callee_is('cocls::signal::emitter::await_suspend'))
            if len(ss_) != 1:
                bad = bad or ('the already hooked path registers %d times' % len(ss_), tr)
            else:
                rp_ = origin_in_trace(tr, len(tr), ret_expr(tr) or '')[0] or ''
                if 'emitter::await_suspend' not in rp_:
                    bad = bad or ('on the already hooked path the answer of the re-registration is not returned: a refused registration (signal disconnected) leaves the coroutine suspended for ever', tr)
            continue
        n += 1
        w = index_of(tr, lambda ev: _stores_true(ev, 'this->_hooked'))
        s = index_of(tr, callee_is('cocls::signal::emitter::await_suspend'))
        if w < 0 or w > call:
            bad = bad or ('the emitter is marked hooked only after the registration function ran: a listener resumed meanwhile hooks up a second private signal and loses values', tr)
        if s < 0 or s > call:
            bad = bad or ('the emitter is registered only after the registration function ran', tr)
    if n == 0 and not bad:
        bad = ('no path calls the registration function', [])
    ctx.ob(rid, f, f['key'], bad is None, 'hooked+registered before the registration function' + ('' if not bad else ' -- ' + bad[0]), desc=bad[0] if bad else None, trace=fmt_trace(bad[1]) if bad and bad[1] else None)


def listeners_hold_weak(ctx, db):
    """the shared state owns the chain of registered listeners; a listener that keeps a strong reference to the state in a member closes an
    ownership cycle (state -> chain -> listener -> state): dropping the last signal/collector no longer destroys the state, so waiting
    coroutines are never cancelled and connected callbacks never released"""
    rid = ctx.rule('C15.listeners-hold-weak', 'TYPE', 'every listener class of signal (emitter, hook_up_emitter, the awaiter created by connect(), anything derived from them) refers to the shared '
                   'state through weak_ptr only: no data member of type shared_ptr<signal::state> (only signal and collector, the handles, own the state)', floor=2)
    n = 0; seen = set()
    for c in db.classes.values():
        nm = norm(c['name'])
        if not nm.startswith('cocls::signal::') or nm in ('cocls::signal::state', 'cocls::signal::collector'):
            continue
        listener = any('awaiter' in b or 'emitter' in b for b in c.get('bases', []))
        if not listener:
            continue
        k = (nm.split('(')[0] + nm.rsplit(')', 1)[-1], c.get('loc'))
        if k in seen:
            continue
        seen.add(k); n += 1
        strong = [x['name'] for x in c.get('fields', []) if 'shared_ptr<' in (x.get('canon_type') or x.get('type') or '') and 'state' in (x.get('canon_type') or x.get('type') or '')]
        ctx.ob(rid, nm, c.get('loc'), not strong, 'listener class %s holds the state weakly' % k[0] + ('' if not strong else ' -- member(s) %s keep it alive' % ', '.join(strong)),
               desc='signal listener owns the shared state (ownership cycle)')
    if n == 0:
        raise Broken('no listener class of signal found')
