# C16 - publisher: subscribers see a gap-free, ordered, duplicate-free stream
import re
from ..core import norm, relloc, live, calls, evs, Broken, value_origin, Tracer, fmt_trace, rooted, has_back_edge, cond_event, efield, pos
from .. import locks
from ..rules import *
from .tables import GUARDED

EXPLANATION = ('Static analysis of publisher::queue: a subscriber\'s step is advance_lk (ready?) -> advance_suspend_lk (park?) -> get_value_lk; every path of advance_lk that answers '
               '"ready" and every path of advance_suspend_lk that answers "do not suspend" advances the registration\'s position or lies on the kicked edge - otherwise the '
               'previous value is read again (duplicates); a path that parks stores the awaiter and advanced first; the window retained by push_lk and the index computed by '
               'get_value_lk agree as linear forms (retained length per subscriber = index + 1, so a waiting subscriber never finds its next value trimmed away); a recycled '
               'registration slot is re-initialised in every field that a fresh slot initialises; push_lk collects the parked awaiter of every used registration in a loop '
               'without early exit, clears it, and resumes the collected awaiters only after the lock is released; kick marks and wakes outside the lock; close sets the flag '
               'once and wakes through push_lk, every publish overload and the destructor go through push_lk/close; all state is accessed under the mutex. Undecided: '
               'gap-freedom and the skipping modes as values, lag cut-off arithmetic beyond the retained-window/index agreement.')
ASSUMPTIONS = ['std::deque::push_front/resize keep the most recent values at the front', 'std::vector of registrations is only indexed with handles it issued']

PQ = 'cocls::publisher::queue'
REGPOS = 'cocls::publisher::queue::subreg_t::_pos'


# ---- function objects of library classes handed to std algorithms --------------------------------------------------------------------------
# The engine expands a lambda (and a closure class local to a function) that is passed to a std entry point which calls it at once
# (std::for_each, std::find_if ...).  A maintainer may equally write the callable as a small *member* class of the queue with an
# operator() (struct resume_awaiter { void operator()(awaiter *a) const { a->resume(); } };  std::for_each(b, e, resume_awaiter());).
# The helpers below give the rules of this module the same view of such a function object: its call operator is expanded where the
# algorithm is called (_FTracer), and it belongs to "the bodies behind f" (_bodies_behind).

def _functor_ops(db, caller, arg):
    """call operators (function instances) of the library class an argument of a std algorithm is an object of; [] when it is none"""
    t = re.sub(r'\b(const|volatile|struct|class)\b', ' ', (arg or {}).get('type') or '').replace('&', ' ').strip()
    t = re.sub(r'\s+', ' ', t)
    if not t.startswith('cocls::') or (arg.get('opath') or arg.get('path') or '').startswith('lambda@'):
        return []
    fns = db.fns(norm(t) + '::operator()')
    same = [f for f in fns if (f.get('class_inst') or '') == t]
    return (same or fns)[:1]


def _functor_calls(db, g):
    """[(event, call operator)] for the std algorithm calls of body g that are handed a function object of a library class"""
    from ..core import STD_IMMEDIATE
    out = []
    for e in g.events():
        if e.k == 'call' and not e.get('callee_key'):
            idx = STD_IMMEDIATE.get(norm(e.get('callee') or ''))
            a = e.get('args') or []
            if idx is not None and idx < len(a):
                out += [(e, op) for op in _functor_ops(db, g, a[idx])]
    return out


class _FTracer(Tracer):
    """the path enumerator of the engine, which additionally expands the call operator of a library function object handed to a std entry
    point that invokes it immediately - exactly as it expands a lambda in that position.  Members of the function object read as
    functor@<event>-><member>"""

    def expand(self, caller, ee, d, stack):
        from ..core import STD_IMMEDIATE
        r = Tracer.expand(self, caller, ee, d, stack)
        if r is not None or ee.k != 'call' or ee.get('callee_key') or d >= self.depth:
            return r
        idx = STD_IMMEDIATE.get(norm(ee.get('callee') or ''))
        a = ee.get('args') or []
        if idx is None or idx >= len(a):
            return r
        out = None
        for op in _functor_ops(self.db, caller, a[idx]):
            if any(fr[0] == op['key'] for fr in stack) or not self.inline_filter(caller, ee, op):
                continue
            p_ = a[idx].get('path') or ''
            env = {'this': p_ if re.fullmatch(r'(local|param):\w+(#\d+)?', p_) else 'functor@%s' % ee.get('id')}
            out = (out or []) + self.traces(op, d + 1, env, stack)
        return out


def _htracer(db, extra=None, exc=None, maxvisit=2, limit=20000, depth=4):
    """rules.htracer (helpers of the class and local lambdas expanded in place) on the enumerator that also expands function objects"""
    T = _FTracer(db, depth=depth, inline_filter=lambda caller, ev, callee: bool(extra and extra(caller, ev, callee)) or is_helper(db, caller, callee),
                 exc_edges=exc, maxvisit=maxvisit, limit=limit)
    T.closures_on_stack = True
    return T


def _traces_of(db, name, depth=0, per_instance=True, limit=20000, need=1, maxvisit=2):
    """rules.traces_of (helper-expanded paths of every instance of `name`) on the enumerator that also expands function objects"""
    per_instance = per_instance or THOROUGH[0]
    T = _htracer(db, maxvisit=maxvisit, limit=limit, depth=max(depth, 4))
    fns = db.fns(name)
    if len(fns) < need:
        raise Broken('anchor vanished: no instantiated body of %s' % name)
    out = []; seen = set()
    for f in fns:
        if not per_instance:
            if f['key'] in seen:
                continue
            seen.add(f['key'])
        trs = T.traces(f)
        if T.truncated:
            raise Broken('path bound exceeded in %s' % name)
        out.append((f, trs))
    return out


def _bodies_behind(db, f):
    """f, the helpers of its class it reaches, the closures defined in any of them, and the call operators of library function objects they
    hand to std algorithms: all the code a maintainer may have moved statements of f into"""
    out = list(helper_bodies(db, f)); seen = {(g['key'], g.get('inst')) for g in out}
    i = 0
    while i < len(out) and i < 200:
        g = out[i]; i += 1
        more = [lf for e in g.events() if e.k == 'lambda' for lf in db.closure_instances(g, e['fn_key'])] + [op for _e, op in _functor_calls(db, g)]
        for h in more:
            for h2 in ([h] if (h['key'], h.get('inst')) in seen else helper_bodies(db, h)):
                if (h2['key'], h2.get('inst')) not in seen:
                    seen.add((h2['key'], h2.get('inst'))); out.append(h2)
    return out


def run(ctx, db, tier):
    advance_before_read(ctx, db)
    window_agreement(ctx, db)
    slot_reinit(ctx, db)
    wake_outside_lock(ctx, db)
    close_wakes_all(ctx, db)
    locks.check_guarded(ctx, db, 'C16.locks', {k: v for k, v in GUARDED.items() if k.startswith(PQ)}, [PQ, 'cocls::publisher', 'cocls::subscriber'], per_instance=False, floor=15)
    subscriber_protocol(ctx, db)
    end_of_stream(ctx, db)
    every_access_style_fetches(ctx, db)
    delivered_matches_position(ctx, db)
    copy_continues(ctx, db)
    failed_publish_consistent(ctx, db)
    wake_means_news(ctx, db)
    kick_finds_live(ctx, db)
    wake_only_live(ctx, db)
    free_list_link(ctx, db)


def advance_before_read(ctx, db):
    rid = ctx.rule('C16.advance-before-read', 'PATHS', 'every path of advance_lk returning true and of advance_suspend_lk returning false ("go and read") has advanced the registration\'s '
                   'position or is on the kicked edge (where get_value_lk reports end without consulting the position); a path of advance_suspend_lk returning true stored the '
                   'awaiter after advancing. A verdict returned through a non-constant expression is treated as the stricter one', floor=2)
    for name, goread in (('cocls::publisher::queue::advance_lk', 1), ('cocls::publisher::queue::advance_suspend_lk', 0)):
        for f, trs in _traces_of(db, name, depth=0, per_instance=False):
            trs = [t for t in trs if live(t)]
            ctx.paths(rid, len(trs))
            bad = None; n = 0
            for tr in trs:
                ret = [it for it in tr if it.k == 'return']
                if not ret:
                    continue
                rv = ret[-1].get('const')
                if rv is None and ret_bool(tr) is not None:
                    rv = int(ret_bool(tr))      # return flag;  with the flag branched on earlier on this path
                if rv is None and _ret_flag(tr) is not None:
                    rv = int(_ret_flag(tr))     # bool flag = false; ... if (a) if (!c) { ...; flag = true; } return flag;  - what was last stored in the flag on this path
                wrote = [i for i, it in enumerate(tr) if it.k == 'write' and field_of(it) == REGPOS]
                kicked = any(it.k == 'branch' and re.search(r'\._kicked\b', it.path or '') and it.val for it in tr)
                park = [i for i, it in enumerate(tr) if it.k == 'write' and (it.get('path') or '').endswith('._awt') and it.get('rhs') not in ('nullptr',)]
                if rv == goread or rv is None:
                    n += 1
                    if not wrote and not kicked:
                        if name.endswith('advance_lk') and not wrote:
                            bad = bad or ('a path answers "a value is ready" without advancing the read position: the previous value is delivered again', tr)
                        elif not name.endswith('advance_lk'):
                            bad = bad or ('a path answers "do not suspend, read now" without advancing the read position: the previous value is delivered again', tr)
                if name.endswith('advance_suspend_lk') and (rv == 1 or rv is None) and rv != goread:
                    if len(park) != 1 or not wrote or wrote[0] > park[0]:
                        bad = bad or ('a path answers "suspended" without having advanced and parked the awaiter', tr)
                if name.endswith('advance_suspend_lk') and rv == 0 and park:
                    bad = bad or ('an awaiter is parked on a path that tells the caller not to suspend', tr)
                if name.endswith('advance_suspend_lk') and park and not any(it.k == 'branch' and re.search(r'(^|->|\.)_closed$', it.path or '') and it.val is False for it in tr[:park[0]]):
                    # the publisher may have been closed between await_ready and await_suspend: nobody will ever wake a subscriber parked now
                    bad = bad or ('an awaiter is parked on a path that did not establish the stream is still open: close() has already woken everybody, this subscriber sleeps for ever', tr)
            if n == 0 and not bad:
                bad = ('no go-and-read path', [])
            ctx.ob(rid, f, f['key'], bad is None, '%s: position advanced on every go-and-read path' % name.split('::')[-1] + ('' if not bad else ' -- ' + bad[0]), desc=bad[0] if bad else None,
                   trace=fmt_trace(bad[1]) if bad and bad[1] else None)
    # every advance moves forward: the new position is provably greater than the old one (++, += c, or max(old + c, ...) with c >= 1)
    for f, trs in _traces_of(db, 'cocls::publisher::queue::advance_lk', depth=0, per_instance=False):
        bad = None; nw = 0
        for tr in trs:
            if not live(tr):
                continue
            env = {}; env_c = {}
            for i, it in enumerate(tr):
                if it.k == 'decl' and it.get('init') is not None and re.fullmatch(r'local:\w+(#\d+)?', it.get('var') or '') and not it.get('ref'):
                    env[it['var']] = _lin(it['init'], env)
                if it.k in ('write', 'decl') and re.fullmatch(r'local:\w+(#\d+)?', (it.get('path') if it.k == 'write' else it.get('var')) or '') and (it.get('op') or '=') == '=':
                    # std::size_t new_pos; ... new_pos = max(old + 1, ...); ... l._pos = new_pos;  - the local stands for what was stored in it on this path
                    v_ = it.get('path') if it.k == 'write' else it.get('var')
                    r0_ = (it.get('rhs') if it.k == 'write' else it.get('init')) or ''
                    mx0_ = next((c for c in reversed(tr[:i]) if c.k == 'call' and norm(c.get('callee') or '') == 'std::max'), None)
                    env_c[v_] = [a.get('path') or '' for a in mx0_.get('args', [])] if ('std::max' in r0_ and mx0_ is not None) else [r0_]
                    if it.k == 'write':
                        env[v_] = _lin(r0_, env)
                if it.k == 'write' and field_of(it) == REGPOS:
                    nw += 1
                    op_ = it.get('op') or '='
                    fwd = op_ == '++' or (op_ == '+=' and (it.get('const') or 0) >= 1)
                    if op_ == '=':
                        rhs = it.get('rhs') or ''
                        upto = i
                        m_ = re.fullmatch(r'call\(([^()]*)\)', rhs)
                        if m_ and m_.group(1) != 'std::max':
                            # the new position is computed by an expanded helper: take what it returned on this path
                            j_ = next((j for j in range(i - 1, -1, -1) if tr[j].k == 'leave' and norm(tr[j].ev.get('callee') or '') == norm(m_.group(1))), None)
                            r_ = next((k for k in range(j_ - 1, -1, -1) if tr[k].k == 'return' and tr[k].get('depth') == tr[j_].get('depth', 0) + 1), None) if j_ is not None else None
                            if r_ is not None and tr[r_].get('path'):
                                rhs, upto = tr[r_]['path'], r_
                        cands = [rhs]
                        mx = next((c for c in reversed(tr[:upto]) if c.k == 'call' and norm(c.get('callee') or '') == 'std::max'), None)
                        if 'std::max' in rhs and mx is not None:
                            cands = [a.get('path') or '' for a in mx.get('args', [])]
                        elif rhs in env_c:
                            cands = env_c[rhs]
                        for c_ in cands:
                            l_ = _lin(c_, env)
                            if l_ is not None and l_.get('REG') == 1 and l_.get('', 0) >= 1 and set(l_) <= {'REG', ''}:
                                fwd = True
                    if not fwd:
                        bad = bad or ('the position is set to %s, which is not provably ahead of the old position: a skipping subscriber can stand still or move backwards (it never steps onto end-of-stream after close)' % (it.get('rhs') or op_), tr)
        if nw == 0:
            raise Broken('advance_lk never writes the position: anchor changed')
        ctx.ob(rid, f, f['key'], bad is None, 'every advance moves the position strictly forward', desc='advance_lk sets a position that is not provably ahead of the old one', trace=fmt_trace(bad[1]) if bad else None)
    # advance_lk "not ready" must not change the position
    for f, trs in _traces_of(db, 'cocls::publisher::queue::advance_lk', depth=0, per_instance=False):
        bad = None
        for tr in trs:
            if not live(tr):
                continue
            ret = [it for it in tr if it.k == 'return']
            if ret and ret[-1].get('const') == 0 and any(it.k == 'write' and field_of(it) == REGPOS for it in tr):
                bad = tr
        ctx.ob(rid, f, f['key'], bad is None, 'advance_lk answering "not ready" leaves the position alone (the awaited step will advance it)', desc='advance_lk advances although it reports not ready',
               trace=fmt_trace(bad) if bad else None)


def _ret_flag(tr):
    """truth value the root function returns through a flag local (bool must_wait = false; ... must_wait = true; ... return must_wait;): the
    value last stored in the local on this path - a constant, or an expression the branches of the path decide.  None when not decided"""
    from ..core import eval_logic
    d0 = min((it.get('depth', 0) for it in tr if it.k not in ('enter', 'leave', 'abort')), default=0)
    r = next((i for i in range(len(tr) - 1, -1, -1) if tr[i].k == 'return' and tr[i].get('depth', 0) == d0), None)
    if r is None:
        return None
    p = ret_expr(tr) if tr[r].get('ret_ev') is not None else tr[r].get('path')
    p = p or ''; neg = False; upto = r
    for _ in range(6):
        while p.startswith('!(') and p.endswith(')'):
            p = p[2:-1]; neg = not neg
        if re.fullmatch(r'!(local:\w+(#\d+)?)', p):
            p = p[1:]; neg = not neg
        if not re.fullmatch(r'local:\w+(#\d+)?', p):
            break
        j = next((j for j in range(upto - 1, -1, -1) if (tr[j].k == 'decl' and tr[j].get('var') == p) or (tr[j].k == 'write' and tr[j].get('path') == p)), None)
        if j is None:
            return None
        st = tr[j]
        if st.k == 'write' and (st.get('op') or '=') != '=':
            return None
        if isinstance(st.get('const'), (int, bool)):
            return bool(st['const']) != neg
        p = (st.get('init') if st.k == 'decl' else st.get('rhs')) or ''
        upto = j
    if not p:
        return None
    known = {}
    for it in tr[:upto]:
        if it.k == 'branch':
            for k_, v_ in (it.get('forms') or {}).items():
                known[k_] = bool(v_)
            if it.get('opath'):
                known[it['opath']] = bool(it.get('oval', it.val))
            if it.get('path'):
                known[it['path']] = bool(it.val)
    try:
        v = eval_logic(deep_resolve_select(p, tr[:upto]), known)
    except Exception:
        return None
    return (v[1] != neg) if v and v[0] == 'const' else None


def _canon(a):
    a = re.sub(r'^((local|param):\w+(#\d+)?|this->_regs\[\]|\*\((local:\w+(#\d+)?|call\(std::vector::begin\))\))(\.|->)_pos$', 'REG._pos', a)
    a = re.sub(r'^this->_pos$', 'POS', a)
    return a


_NEG_REL = {'<': '>=', '<=': '>', '>': '<=', '>=': '<', '==': '!=', '!=': '=='}
_SWAP_REL = {'<': '>', '<=': '>=', '>': '<', '>=': '<=', '==': '==', '!=': '!='}


def _branch_rel(it):
    """(lhs, op, rhs) that HOLDS on the edge a branch item took, when the branch tests a relational expression (a negation in front of it
    and the false edge flip the operator); None otherwise"""
    if it.k != 'branch':
        return None
    for p_, v_ in [(it.get('path'), it.val)] + list((it.get('forms') or {}).items()) + [(it.get('opath'), it.get('oval', it.val))]:
        p_ = p_ or ''; v_ = bool(v_)
        while p_.startswith('!(') and p_.endswith(')'):
            p_ = p_[2:-1]; v_ = not v_
        sc = split_cmp(p_ if p_.startswith('(') else '(%s)' % p_)
        if sc and sc[1] in _NEG_REL:
            return (sc[0], sc[1] if v_ else _NEG_REL[sc[1]], sc[2])
    return None


def _window_entries(tr):
    """positions of one trace at which the distance of a registration, (_pos - reg._pos) + k, has entered the running maximum that becomes
    the retained length: [(index, linear form of the distance)].  Two spellings of "acc = max(acc, d)":
      * a call of std::max one of whose arguments is the distance (directly or through a local that names it);
      * compare-and-assign on an accumulator local: a branch that compares the accumulator with the distance - on the edge where the
        accumulator is already >= the distance nothing has to happen, on the edge where it is smaller (or not greater) the distance must be
        stored in the accumulator before the walk moves on (if (acc < d) acc = d;  acc = acc < d ? d : acc;)"""
    out = []; env = {}
    def lf(p_):
        try:
            l_ = linform(p_ or '', _canon)
        except ValueError:
            return None
        return _lsub(l_, env) if l_ is not None else None
    def is_dist(l_):
        return bool(l_) and l_.get('POS') == 1 and l_.get('REG._pos') == -1 and set(l_) <= {'POS', 'REG._pos', ''}
    pending = None
    for i, it in enumerate(tr):
        if it.k == 'decl' and it.get('init') is not None and re.fullmatch(r'local:\w+(#\d+)?', it.get('var') or '') and not it.get('ref'):
            env[it['var']] = lf(resolve_select(it['init'], tr[:i]))
        elif it.k == 'call' and norm(it.get('callee')) == 'std::max':
            for a in it.get('args', []):
                l_ = lf(a.get('path'))
                if is_dist(l_):
                    out.append((i, l_))
        elif it.k == 'branch' and (it.term in ('ForStmt', 'CXXForRangeStmt', 'WhileStmt', 'DoStmt') or re.search(r'(\.|->)_used$', it.path or '')):
            pending = None
        elif it.k == 'branch':
            rel = _branch_rel(it)
            if rel:
                a_, op_, b_ = rel
                if re.fullmatch(r'local:\w+(#\d+)?', b_) and not is_dist(lf(b_)):
                    a_, op_, b_ = b_, _SWAP_REL[op_], a_
                l_ = lf(b_)
                if re.fullmatch(r'local:\w+(#\d+)?', a_) and is_dist(l_) and not is_dist(lf(a_)):
                    if op_ in ('>=', '>', '=='):
                        out.append((i, l_))             # the accumulator already covers this registration
                    elif op_ in ('<', '<='):
                        pending = (a_, l_)
        elif it.k == 'write' and re.fullmatch(r'local:\w+(#\d+)?', it.get('path') or ''):
            v_ = it['path']
            if (it.get('op') or '=') == '=':
                l_ = lf(resolve_select(it.get('rhs') or '', tr[:i]))
                acc_ = bool(pending and pending[0] == v_)
                if acc_ and l_ is not None and l_ == pending[1]:
                    out.append((i, l_))
                pending = None if acc_ else pending
                # (the accumulator stays opaque: in the next round of the walk it is compared with the distance of another registration)
                env[v_] = None if acc_ or v_ in (it.get('rhs') or '') else l_
            else:
                env[v_] = None
    return out


def window_agreement(ctx, db):
    rid = ctx.rule('C16.window-agreement', 'LINEAR+SIBLINGS', 'writer and reader of the retained window agree: push_lk keeps, for every used registration, at least (_pos - reg._pos) + k_w values, '
                   'get_value_lk reads index (_pos - reg._pos) + k_r and reports end when the index is >= size: k_w - k_r must be exactly 1 (index < retained length for a subscriber '
                   'that has not fallen behind the maximum)', floor=1)
    w = None; r = None; wf = rf = None
    def _lf(p):
        try:
            return linform(p or '', _canon)
        except ValueError:
            return None
    H = _htracer(db)
    for f in db.need('cocls::publisher::queue::push_lk')[:1]:
        wf = f
        for tr in H.traces(f):
            for _i, lf_ in _window_entries(tr):
                w = lf_ if w is None or w == 'conflict' or lf_ == w else 'conflict'
    # ... for EVERY used registration: a parked subscriber stands on the position of the value it waits for and reads it from the window
    # when it is woken - leaving it out of the maximum trims away the values of the very publish that wakes it
    skipped = None
    for f in db.need('cocls::publisher::queue::push_lk')[:1]:
        bodies_ = [f] + [lf_ for lf_ in lambdas_of(db, 'cocls::publisher::queue::push_lk')] + [g for g in helper_bodies(db, f) if g is not f]
        for g in bodies_:
            for tr in H.traces(g):
                used = False
                entered = {i_ for i_, _l in _window_entries(tr)}
                for n_, it in enumerate(tr):
                    if n_ in entered:
                        used = False
                    elif it.k == 'branch' and re.search(r'(\.|->)_used$', it.path or ''):
                        if used and skipped is None:
                            skipped = tr
                        used = bool(it.val)
                    elif it.k == 'branch' and it.term in ('ForStmt', 'CXXForRangeStmt', 'WhileStmt', 'DoStmt'):
                        if used and skipped is None:
                            skipped = tr
                        used = False
                    elif it.k == 'call' and norm(it.get('callee')) == 'std::max' and any((_lf(a.get('path')) or {}).get('REG._pos') == -1 for a in it.get('args', [])):
                        used = False
                if used and live(tr) and skipped is None:
                    skipped = tr
    if wf is not None:
        ctx.ob(rid, wf, wf['key'], skipped is None, 'every used registration - parked or not - enters the retained-window maximum',
               desc='push_lk leaves a used registration out of the retained-window computation: the values a woken subscriber is about to read are trimmed away', trace=fmt_trace(skipped) if skipped else None)
    for f in db.need('cocls::publisher::queue::get_value_lk')[:1]:
        rf = f
        for tr in H.traces(f):
            for e in tr:
                p_ = e.get('init') if e.k == 'decl' else (e.get('path') if e.k == 'return' and e.get('depth', 0) > 0 else None)
                if p_:
                    lf_ = _lf(p_)
                    if lf_ and lf_.get('POS') == 1 and lf_.get('REG._pos') == -1:
                        r = lf_ if r is None or r == 'conflict' or lf_.get('', 0) == r.get('', 0) else 'conflict'
    if w is None or r is None:
        raise Broken('retained-window expression (push_lk: %s) or index expression (get_value_lk: %s) not recognised as _pos - reg._pos + k' % (w, r))
    ok = r != 'conflict' and w != 'conflict' and (w.get('', 0) - r.get('', 0) == 1)
    ctx.ob(rid, wf, wf['key'], ok, 'retained length is (_pos - reg._pos) %+d, index read is (_pos - reg._pos) %+d' % ((w.get('', 0) if w != 'conflict' else 99), (r.get('', 0) if r != 'conflict' else 99)),
           desc='retained window and read index disagree')
    # the reader's bound check uses that index against the deque size
    bound = any(b.get('cond') and re.search(r'relpos|_pos', (b['cond'].get('path') or '')) and 'size' in (b['cond'].get('path') or '') for b in rf['blocks'])
    if not bound:
        # the comparison may be named first (const bool behind = relpos >= _q.size(); ... if (behind)) or sit in a helper of the class that serves
        # one access style: a branch of the helper-expanded paths, in any of the spellings it went through, that relates the index
        # (_pos - reg._pos + k, directly or through the local that names it) to the size of the window
        for tr in H.traces(rf):
            env = {}
            for i, it in enumerate(tr):
                if it.k == 'decl' and it.get('init') is not None and re.fullmatch(r'local:\w+(#\d+)?', it.get('var') or '') and not it.get('ref'):
                    l_ = _lf(inline_returns(tr, i, it['init']))
                    env[it['var']] = _lsub(l_, env) if l_ is not None else None
                elif it.k == 'write' and re.fullmatch(r'local:\w+(#\d+)?', it.get('path') or ''):
                    l_ = _lf(it.get('rhs')) if (it.get('op') or '=') == '=' else None
                    env[it['path']] = _lsub(l_, env) if l_ is not None else None
                elif it.k == 'branch':
                    for p_ in [it.get('path'), it.get('opath')] + list(it.get('forms') or {}):
                        p_ = p_ or ''
                        while p_.startswith('!(') and p_.endswith(')'):
                            p_ = p_[2:-1]
                        sc = split_cmp(p_ if p_.startswith('(') else '(%s)' % p_)
                        if not sc or sc[1] not in ('<', '<=', '>', '>='):
                            continue
                        for a_, b_ in ((sc[0], sc[2]), (sc[2], sc[0])):
                            la = _lf(a_)
                            la = _lsub(la, env) if la is not None else None
                            if la and la.get('POS') == 1 and la.get('REG._pos') == -1 and re.search(r'call\(std::deque::size\)', b_):
                                bound = True
    ctx.ob(rid, rf, rf['key'], bound, 'get_value_lk compares its index with the retained size before indexing', desc='get_value_lk indexes the window without a bound test')


def slot_reinit(ctx, db):
    rid = ctx.rule('C16.slot-reinit', 'SIBLINGS', 'subscribe_lk: the branch that recycles a free registration slot assigns every field of the registration record (position, subscriber, awaiter, '
                   'used, kicked) - the same fields the fresh-slot branch initialises', floor=1)
    cs = db.class_insts('cocls::publisher::queue::subreg_t')
    if not cs:
        raise Broken('publisher::queue::subreg_t not found')
    fields = {x['name'] for x in cs[0]['fields']}
    fns = [f for f in db.fns('cocls::publisher::queue::subscribe_lk') if len(f['params']) == 2 and 'size' in f['params'][1]['type'].lower() + f['params'][1]['name'] or (len(f['params']) == 2 and f['params'][1]['name'] == 'pos')]
    if not fns:
        raise Broken('anchor vanished: subscribe_lk(sub, pos)')
    f = fns[0]
    T = _htracer(db)
    trs = [t for t in T.traces(f) if live(t)]
    ctx.paths(rid, len(trs))
    bad = None; nre = nfresh = 0
    for tr in trs:
        fresh = any(it.k == 'call' and norm(it.get('callee') or '').split('::')[-1] in ('push_back', 'emplace_back') and norm(it.get('field') or '') == 'cocls::publisher::queue::_regs' for it in tr)
        if fresh:
            nfresh += 1
            continue
        nre += 1
        written = {m.group(1) for it in tr if it.k == 'write' for m in [re.search(r'\.(\w+)$', it.get('path') or '')] if m and norm(it.get('field') or it.get('lfield') or '').startswith('cocls::publisher::queue::subreg_t') or (it.k == 'write' and m and re.match(r'local:\w+\.', it.get('path') or ''))}
        if any(it.k == 'call' and norm(it.get('callee') or '') == 'cocls::publisher::queue::subreg_t::operator=' and not re.search(r'\[\]$|^\*|^local:\w+$', (it.get('args') or [{}])[0].get('path') or 'x') for it in tr):
            written = set(fields)      # the whole record is assigned from a freshly built one (l = subreg_t{...})
        for n_, it in enumerate(tr):
            # ... or from a local record that was built from scratch on this path (const subreg_t fresh{pos, sub, nullptr, true, false}; ... l = fresh;):
            # an aggregate initialisation gives every member a value (the listed one, or zero); a copy of an existing slot does not count
            if it.k == 'call' and norm(it.get('callee') or '') == 'cocls::publisher::queue::subreg_t::operator=':
                a0_ = (it.get('args') or [{}])[0].get('path') or ''
                if re.fullmatch(r'local:\w+(#\d+)?', a0_):
                    d_ = next((x for x in reversed(tr[:n_]) if x.k == 'decl' and x.get('var') == a0_), None)
                    if d_ is not None and re.fullmatch(r'\{.*,.*\}', d_.get('init') or '') and not d_.get('ref') and not d_.get('ptr') and 'subreg_t' in (d_.get('type') or '') and \
                            not any(x.k == 'call' and x.get('recv') == a0_ and norm(x.get('callee') or '').endswith('::operator=') for x in tr[:n_]):
                        written = set(fields)
        missing = fields - written
        if missing:
            bad = bad or ('the recycled slot keeps its old %s' % ', '.join(sorted(missing)), tr)
    if not bad and (nre == 0 or nfresh == 0):
        bad = ('subscribe_lk lost its fresh/recycle branches', [])
    ctx.ob(rid, f, f['key'], bad is None, 'all of %s assigned on the recycle path' % sorted(fields) + ('' if not bad else ' -- ' + bad[0]), desc=bad[0] if bad else None, trace=fmt_trace(bad[1]) if bad and bad[1] else None)


def wake_outside_lock(ctx, db):
    rid = ctx.rule('C16.wake-outside-lock', 'LOCKSET', 'push_lk and kick_lk (helpers of the class expanded in place) resume parked awaiters (user code) only after lk.unlock(); push_lk re-locks '
                   'before it touches the wake-up buffer again', floor=2)
    H = _htracer(db, maxvisit=2)
    WB = 'cocls::publisher::queue::_wakeup_buffer'
    for name in ('cocls::publisher::queue::push_lk', 'cocls::publisher::queue::kick_lk'):
        for f in db.need(name)[:1]:
            trs = H.traces(f)
            ctx.paths(rid, len(trs))
            entry = entry_locks(f)
            sites = {}; nres = 0
            for tr in trs:
                ls = trace_lockset(tr)
                # the caller's lock (unique_lock& parameter) is held on entry
                rel = set()
                alias_ = lock_aliases(tr)
                for i, it in enumerate(tr):
                    if it.k == 'call' and it.get('recv') and norm(it.get('field') or '') in alias_ and norm(it.get('callee') or '') in ('std::unique_lock::unlock', 'std::unique_lock::lock'):
                        it = Item(it, recv=alias_[norm(it['field'])])
                    if it.k == 'call' and norm(it.get('callee')) == 'std::unique_lock::unlock' and it.get('recv') in entry:
                        rel.add(it.get('recv'))
                    if it.k == 'call' and norm(it.get('callee')) == 'std::unique_lock::lock' and it.get('recv') in entry:
                        rel.discard(it.get('recv'))
                    locked = bool(ls[i]) or bool(entry - rel)
                    if it.k == 'call' and norm(it.get('callee')) == 'cocls::awaiter::resume':
                        nres += 1
                        sites.setdefault(('resume', it.get('loc')), True)
                        if locked:
                            sites[('resume', it.get('loc'))] = False
                    if it.k in ('call', 'read', 'write') and norm(it.get('field') or '') == WB and name.endswith('push_lk'):
                        sites.setdefault(('buffer', it.get('loc')), True)
                        if not locked:
                            sites[('buffer', it.get('loc'))] = False
            if nres == 0:
                ctx.ob(rid, f, f['key'], False, '%s wakes parked subscribers' % name.split('::')[-1], desc='%s never resumes a parked awaiter' % name)
            for (kind, loc), ok in sorted(sites.items()):
                if kind == 'resume':
                    ctx.ob(rid, f, loc, ok, 'awaiter::resume in %s with no lock held' % name.split('::')[-1], desc='parked subscriber resumed while the publisher lock is held')
                else:
                    ctx.ob(rid, f, loc, ok, 'the wake-up buffer is touched under the lock', desc='_wakeup_buffer touched without the lock in ' + name)


def _flag_store(it, field):
    """the constant a trace item stores into the member `field` (declaration name): a plain assignment, or std::exchange(field, c) whose
    result is the old value; 'x' for a store of something that is not a constant; None when the item does not store into the field"""
    if it.k == 'write' and field_of(it) == field:
        return it.get('const') if it.get('const') is not None and (it.get('op') or '=') == '=' else 'x'
    if it.k == 'call' and norm(it.get('callee') or '') == 'std::exchange':
        a = it.get('args') or []
        if len(a) == 2 and norm(a[0].get('field') or '') == field:
            return a[1].get('const') if a[1].get('const') is not None else 'x'
    return None


def close_wakes_all(ctx, db):
    rid = ctx.rule('C16.close-wakes-all', 'COUNT', 'close() sets the closed flag and reaches push_lk exactly on the not-yet-closed edge; push_lk walks all registrations without early exit, '
                   'collects and clears the parked awaiter of every used one, and resumes every collected awaiter; kick_lk marks the registration kicked, takes its awaiter and '
                   'resumes it on the non-null edge; every publish overload, close and ~publisher go through push_lk / close', floor=5)
    for f, trs in _traces_of(db, 'cocls::publisher::queue::close', depth=0, per_instance=False):
        trs = [t for t in trs if live(t)]
        ctx.paths(rid, len(trs))
        bad = None; n = 0
        for tr in trs:
            closed = None
            for i_, it in enumerate(tr):
                if it.k == 'branch' and (it.path or '') == 'this->_closed':
                    closed = bool(it.val)
                elif it.k == 'branch' and it.get('depth', 0) == 0 and re.fullmatch(r'call\(std::exchange\)|local:\w+', it.path or '') and origin_in_trace(tr, i_, it.path)[0] == 'this->_closed':
                    # if (std::exchange(_closed, true)) return;  - the value the flag had before the store is what is tested
                    closed = bool(it.val)
            w = [it for it in tr if _flag_store(it, 'cocls::publisher::queue::_closed') is not None]
            p = [c for c in calls(tr) if norm(c.get('callee')) == 'cocls::publisher::queue::push_lk']
            if closed is True:
                # (storing true into a flag that was found true changes nothing)
                if [x for x in w if _flag_store(x, 'cocls::publisher::queue::_closed') != 1] or p:
                    bad = bad or ('a second close does something', tr)
            else:
                n += 1
                if len(w) != 1 or _flag_store(w[0], 'cocls::publisher::queue::_closed') != 1 or len(p) != 1:
                    bad = bad or ('close does not set the flag and wake the subscribers exactly once', tr)
                elif pos(tr, w[0]) > pos(tr, p[0]):
                    bad = bad or ('the closed flag is set after the wake-up pass: push_lk releases the lock while it resumes, a subscriber that comes to wait in that window still sees "open", parks and is never woken', tr)
        if n == 0 and not bad:
            bad = ('close never closes', [])
        ctx.ob(rid, f, f['key'], bad is None, 'close: flag + push_lk once' + ('' if not bad else ' -- ' + bad[0]), desc=bad[0] if bad else None)
    for f in db.need('cocls::publisher::queue::push_lk')[:1]:
        T = _htracer(db, maxvisit=2)      # the collect loop may have been moved into a helper of the class: judged on the helper-expanded paths
        trs = [t for t in T.traces(f) if live(t)]
        ctx.paths(rid, len(trs))
        bad = None
        bodies = helper_bodies(db, f)
        # closure bodies of push_lk and of its helpers (the body of a std::for_each) belong to the walk as well
        for g_ in list(bodies):
            for lf_ in lambdas_of(db, g_['nname']):
                if lf_['key'] not in {b_['key'] for b_ in bodies}:
                    bodies.append(lf_)
        # ... and so does the call operator of a function object of the class handed to std::for_each
        for g_ in _bodies_behind(db, f):
            if g_['key'] not in {b_['key'] for b_ in bodies}:
                bodies.append(g_)
        evl = [e for g in bodies for e in g.events()]
        if any(b.get('term') in ('BreakStmt',) for g in bodies for b in g['blocks']) or any(b.get('term') == 'ReturnStmt' for b in f['blocks']):
            bad = ('the walk over the registrations can exit early', [])
        for tr in trs:
            col = [it for it in tr if it.k == 'call' and norm(it.get('field') or '') == 'cocls::publisher::queue::_wakeup_buffer' and norm(it.get('callee') or '').split('::')[-1] in ('push_back', 'emplace_back')]
            clr = [it for it in tr if it.k == 'write' and (it.get('path') or '').endswith('._awt') and it.get('const') == 0]
            seen_awt = any(it.k == 'branch' and re.search(r'\._awt\b', it.path or '') and it.val for it in tr)
            if seen_awt and (not col or not clr):
                bad = bad or ('a parked awaiter of a used registration is not collected and cleared', tr)
            used_false_collect = False
        loops = [b for g in bodies for b in g['blocks'] if (b.get('cond') or {}).get('term') in ('CXXForRangeStmt', 'ForStmt', 'WhileStmt')]
        # std::for_each over a whole container is a loop without early exit
        algo = [e for e in evl if e.k == 'call' and norm(e.get('callee') or '') in ('std::for_each', 'std::ranges::for_each')]
        if len(loops) + len(algo) < 2:
            bad = bad or ('push_lk lost its collect / resume loops', [])
        rs = [e for e in evl if e.k == 'call' and norm(e.get('callee')) == 'cocls::awaiter::resume']
        if len(rs) != 1:
            bad = bad or ('collected awaiters are not resumed by exactly one resume site in a loop', [])
        ctx.ob(rid, f, f['key'], bad is None, 'push_lk: collect+clear every parked awaiter, resume all' + ('' if not bad else ' -- ' + bad[0]), desc=bad[0] if bad else None)
    for f, trs in _traces_of(db, 'cocls::publisher::queue::kick_lk', depth=0, per_instance=False):
        trs = [t for t in trs if live(t)]
        ctx.paths(rid, len(trs))
        bad = None; n = 0
        for tr in trs:
            found = any(it.k == 'branch' and 'operator!=' in (it.path or '') + str(cond_event(tr, i) or '') and it.val for i, it in enumerate(tr)) or any(it.k == 'write' and (it.get('path') or '').endswith('_kicked') for it in tr)
            k = [it for it in tr if it.k == 'write' and (it.get('path') or '').endswith('_kicked') and it.get('const') == 1]
            rs = [c for c in calls(tr) if norm(c.get('callee')) == 'cocls::awaiter::resume']
            nn = None
            woken = {c.get('recv') for c in rs} | {it.get('var') for it in tr if it.k == 'decl' and 'awaiter *' in (it.get('type') or '')}
            for i, it in enumerate(tr):
                nt = null_test(tr, i) if it.k == 'branch' else None
                if nt and nt[0] in woken:
                    nn = nt[1]
            if k:
                n += 1
                if not any(null_store(it, '_awt') for it in tr):
                    bad = bad or ('the kicked registration keeps its parked awaiter', tr)
            if nn is True and len(rs) != 1:
                bad = bad or ('a parked subscriber is not woken when kicked', tr)
            if nn is False and rs:
                bad = bad or ('resume on a null awaiter', tr)
        if n == 0 and not bad:
            bad = ('kick never marks a registration', [])
        ctx.ob(rid, f, f['key'], bad is None, 'kick: mark, take awaiter, wake' + ('' if not bad else ' -- ' + bad[0]), desc=bad[0] if bad else None)
    # everything goes through push_lk / close
    for name in ('cocls::publisher::queue::push',):
        seen = set()
        for f in db.need(name):
            if f['key'] in seen:
                continue
            seen.add(f['key'])
            n = sum(1 for g in helper_bodies(db, f) for e in g.events() if e.k == 'call' and norm(e.get('callee')) == 'cocls::publisher::queue::push_lk')
            ctx.ob(rid, f, f['key'], n == 1, 'publish overload goes through push_lk', desc='a publish overload bypasses push_lk')
    for name in ('cocls::publisher::~publisher', 'cocls::publisher::close'):
        for f in db.need(name)[:1]:
            # directly or through a helper of the class (~publisher may call publisher::close): exactly once on every path
            trs_ = [t for t in _htracer(db).traces(f) if live(t)]
            ok = bool(trs_) and all(sum(1 for c in calls(t) if norm(c.get('callee')) == 'cocls::publisher::queue::close') == 1 for t in trs_)
            ctx.ob(rid, f, f['key'], ok, '%s closes the queue' % name.split('::')[-1], desc='%s does not close the queue' % name)


def subscriber_protocol(ctx, db):
    rid = ctx.rule('C16.subscriber-protocol', 'SIBLINGS', 'subscriber: ready() is queue::advance, subscribe() is queue::advance_suspend with the caller\'s awaiter, check_next() stores queue::get_value '
                   'into the subscriber\'s own optional; the destructor leaves; the copy constructor subscribes at the original\'s position', floor=4)
    spec = (('cocls::subscriber::ready', 'cocls::publisher::queue::advance'), ('cocls::subscriber::subscribe', 'cocls::publisher::queue::advance_suspend'),
            ('cocls::subscriber::check_next', 'cocls::publisher::queue::get_value'), ('cocls::subscriber::~subscriber', 'cocls::publisher::queue::leave'))
    for name, callee in spec:
        for f in db.need(name)[:1]:
            # on every path exactly one call, whose first argument is the subscriber's handle (directly or through a by-value local copy of it)
            trs_ = [t for t in _htracer(db).traces(f) if live(t)]
            ok = bool(trs_)
            for tr in trs_:
                ci = all_indices(tr, callee_is(callee))
                a0 = ((tr[ci[0]].get('args') or [{}])[0].get('path') or '') if len(ci) == 1 else ''
                if len(ci) != 1 or (a0 != 'this->_h' and origin_in_trace(tr, ci[0], a0)[0] != 'this->_h'):
                    ok = False
            ctx.ob(rid, f, f['key'], ok, '%s calls %s once with its own handle' % (name.split('::')[-1], callee.split('::')[-1]), desc='%s does not call %s with its own handle' % (name, callee))


def end_of_stream(ctx, db):
    rid = ctx.rule('C16.end-of-stream', 'PATHS', 'get_value_lk reports end-of-stream (empty optional) on every path where the registration is kicked or has caught up with the stream position, '
                   'and only a path that excluded both may index the retained window', floor=1)
    T = _htracer(db)      # the access styles may be served by helpers of the class (value_all_lk ...): the outcomes are those of the helper-expanded paths
    for f in db.need('cocls::publisher::queue::get_value_lk')[:1]:
        bad = None; nend = nval = 0
        for tr in [t for t in T.traces(f) if live(t)]:
            kicked = None; caught = None
            for it in tr:
                if it.k == 'branch' and re.search(r'\._kicked$', it.path or ''):
                    kicked = bool(it.val)
                if it.k == 'branch' and re.fullmatch(r'\(\S+\._pos == this->_pos\)|\(this->_pos == \S+\._pos\)', it.path or ''):
                    caught = bool(it.val)
            idx = [it for it in tr if it.k == 'call' and norm(it.get('field') or '') == 'cocls::publisher::queue::_q' and norm(it.get('callee') or '').endswith('operator[]')]
            ret = [it for it in tr if it.k == 'return']
            rp_ = (ret_expr(tr) or ret[-1].get('path') or '') if ret else ''        # what a helper returned on this path is what get_value_lk returns
            empty = bool(ret) and (rp_ in ('{}', 'ctor()', '<InitListExpr>') or 'nullopt' in rp_)
            if kicked is True or caught is True:
                nend += 1
                if idx or not empty:
                    bad = bad or 'a kicked / caught-up subscriber is handed a value instead of end-of-stream'
            if idx:
                nval += 1
                if kicked is not False or caught is not False:
                    bad = bad or 'the window is indexed on a path that did not exclude kicked and caught-up'
        if not bad and (nend == 0 or nval == 0):
            bad = 'get_value_lk lost its outcomes'
        ctx.ob(rid, f, f['key'], bad is None, 'end iff kicked or caught up' + ('' if not bad else ' -- ' + bad), desc=bad)


def every_access_style_fetches(ctx, db):
    rid = ctx.rule('C16.every-next-fetches', 'COUNT (interval summaries)', 'every way of asking a subscriber for the next value ends in exactly one check_next() (which fetches the value the '
                   'position was advanced to) on every path through its call tree: polled (next_ready when ready), awaited (next_awt::await_resume) and blocking (next_awt::operator bool, '
                   'also behind begin() and the iterator ++)', floor=3)
    is_fetch = lambda it: it.k == 'call' and norm(it.get('callee')) == 'cocls::subscriber::check_next'
    cache = {}
    follow = lambda c: c['nname'].startswith(('cocls::subscriber', 'cocls::co_awaiter', 'cocls::generator_iterator'))
    for name, lo, hi in (('cocls::subscriber::next_awt::await_resume', 1, 1), ('cocls::subscriber::next_awt::operator bool', 1, 1), ('cocls::subscriber::next_ready', 0, 1)):
        fns = db.need(name)
        seen = set()
        for f in fns:
            a, b = interval_count(db, f, is_fetch, cache, follow=follow)
            ok = (a >= lo and b <= hi and b >= 1)
            if (f['key'], ok) in seen:
                continue
            seen.add((f['key'], ok))
            ctx.ob(rid, f, f['key'], ok, '%s fetches the value exactly once per answer (found between %d and %d check_next calls)' % (name.split('::', 2)[2], a, b),
                   desc='%s performs [%d,%d] check_next calls' % (name, a, b), inst=f['inst'])


def _pcanon(a):
    a = re.sub(r'^(local:\w+|param:\w+|this->_regs\[\])(\.|->)_pos$', 'REG', a)
    a = re.sub(r'^this->_pos$', 'POS', a)
    a = re.sub(r'^call\(std::deque::size\)$', 'SIZE', a)
    return a


def _lsub(lf_, env):
    """substitute symbolic values for atoms of a linear form; None when a needed value is unknown"""
    if lf_ is None:
        return None
    out = {}
    for a, c in lf_.items():
        if a in env:
            v = env[a]
            if v is None:
                return None
            for b, d in v.items():
                out[b] = out.get(b, 0) + c * d
        else:
            out[a] = out.get(a, 0) + c
    return {k: v for k, v in out.items() if v}


def _lin(expr, env):
    try:
        return _lsub(linform(expr, _pcanon), env) if expr is not None else None
    except ValueError:
        return None


def delivered_matches_position(ctx, db):
    """the element handed out is the one at the registration's recorded position.  Element at stream position p lives at index _pos - p - 1,
    so on every path that returns _q[i]:  i == _pos - reg._pos - 1 for the value reg._pos has when the function returns.  A read that clamps the
    index or takes the newest element must move reg._pos with it, otherwise the next advance steps onto the very element just delivered"""
    rid = ctx.rule('C16.delivered-matches-position', 'LINEAR (symbolic evaluation per path)', 'get_value_lk: on every path that returns an element _q[i], i equals _pos - reg._pos - 1 with reg._pos as that '
                   'path leaves it (assignments to locals and to reg._pos are evaluated symbolically over _pos, reg._pos, _q.size()): the subscriber continues from the value it was given', floor=1)
    for f, trs in _traces_of(db, 'cocls::publisher::queue::get_value_lk', per_instance=False):
        trs = [t for t in trs if live(t)]
        ctx.paths(rid, len(trs))
        sites = {}; newest = []
        for tr in trs:
            env = {}; reg = {'REG': 1}
            for n_, it in enumerate(tr):
                def L(e_):
                    return _lin(inline_returns(tr, n_, e_), dict(env, REG=reg))
                if it.k == 'decl' and it.get('init') is not None and re.fullmatch(r'local:\w+(#\d+)?', it.get('var') or ''):
                    env[it['var']] = L(it['init'])
                elif it.k == 'write' and re.fullmatch(r'local:\w+(#\d+)?', it.get('path') or ''):
                    env[it['path']] = L(it.get('rhs')) if (it.get('op') or '=') == '=' else None
                elif it.k == 'write' and _pcanon(it.get('path') or '') == 'REG':
                    op_ = it.get('op') or '='
                    if op_ == '=':
                        reg = L(it.get('rhs'))
                    elif op_ in ('++', '--') and reg is not None:
                        reg = dict(reg); reg[''] = reg.get('', 0) + (1 if op_ == '++' else -1)
                    else:
                        reg = None
                elif it.k == 'call' and norm(it.get('callee') or '') in ('std::deque::operator[]', 'std::deque::at') and norm(it.get('field') or '') == PQ + '::_q':
                    a = (it.get('args') or [{}])[0]
                    idx = {'': a['const']} if a.get('const') is not None else L(a.get('path'))
                    idx = {k: v for k, v in (idx or {}).items() if v} if idx is not None else None
                    exp = _lsub({'POS': 1, 'REG': -1, '': -1}, {'REG': reg}) if reg is not None else None
                    sites.setdefault(it.get('loc'), []).append((idx, exp, tr))
                    # the mode that skips to the most recent value reads the head of the window, whatever the registration's position was
                    # (a subscriber woken by a publish of several values stands on the first of them, not on the newest)
                    recent_ = any((x.k == 'switch' and ((x.label or {}).get('text') or '').endswith('skip_to_recent')) or
                                  (x.k == 'branch' and 'skip_to_recent' in (x.path or '') and '==' in (x.path or '') and x.val is True) for x in tr[:n_])
                    if recent_:
                        newest.append((idx == {} or idx == {'': 0}, tr, it.get('loc')))
        if not sites:
            raise Broken('get_value_lk returns no element of the window: anchor changed')
        for loc, lst in sorted(sites.items()):
            bad = next(((i, e, t) for (i, e, t) in lst if i is None or e is None or i != e), None)
            ctx.ob(rid, f, loc, bad is None, 'the index read is _pos - reg._pos - 1 on all %d path(s) through this read' % len(lst) + ('' if not bad else ' -- index %s, position says %s' % (_fmt_lin(bad[0]), _fmt_lin(bad[1]))),
                   desc='delivered element is not the one at the recorded position', trace=fmt_trace(bad[2]) if bad else None)


        if newest:
            badn = next((x for x in newest if not x[0]), None)
            ctx.ob(rid, f, newest[0][2], badn is None, 'skip_to_recent delivers the head of the window (index 0) on all %d path(s)' % len(newest),
                   desc='skip_to_recent delivers an element other than the most recent one', trace=fmt_trace(badn[1]) if badn else None)


def _fmt_lin(l):
    if l is None:
        return '?'
    return ' '.join('%+d*%s' % (c, a or '1') for a, c in sorted(l.items())) or '0'


def copy_continues(ctx, db):
    """a registration that is parked (awaiter stored) has already been advanced to the position of the value it waits for (advance_suspend_lk
    increments first); whoever takes reg._pos as "last consumed position" for a new registration must subtract that step again"""
    rid = ctx.rule('C16.copy-continues', 'PATHS+LINEAR', 'subscribe_lk(handle, subscriber) (copy of a subscriber): the position given to the new registration is the source\'s _pos on the edge where the '
                   'source has no parked awaiter and _pos - 1 on the edge where it has one (advance_suspend_lk parks only after stepping onto the awaited position)', floor=1)
    # derive the representation of "parked" from advance_suspend_lk itself: the position is incremented on the path that stores the awaiter
    parked_ahead = None
    for f, trs in _traces_of(db, 'cocls::publisher::queue::advance_suspend_lk', per_instance=False):
        for tr in trs:
            st = [i for i, it in enumerate(tr) if it.k == 'write' and (it.get('path') or '').endswith('_awt')]
            if st:
                inc = [it for it in tr[:st[0]] if it.k == 'write' and _pcanon(it.get('path') or '') == 'REG' and (it.get('op') in ('++', '+=') or
                                                                                                                 ((it.get('op') or '=') == '=' and (_lin(it.get('rhs'), {}) or {}).get('REG') == 1 and (_lin(it.get('rhs'), {}) or {}).get('', 0) >= 1))]
                parked_ahead = bool(inc) if parked_ahead is None else (parked_ahead and bool(inc))
    if parked_ahead is None:
        raise Broken('advance_suspend_lk no longer stores the awaiter: anchor changed')
    fns = [f for f in db.fns('cocls::publisher::queue::subscribe_lk') if len(f['params']) == 2 and 'subscriber' in f['params'][1]['type'] and 'subscriber' not in f['params'][0]['type']]
    if not fns:
        raise Broken('anchor vanished: subscribe_lk(handle, subscriber)')
    f = fns[0]
    T = _htracer(db)      # the start position may be computed by a helper of the class (copy_start_pos_lk(h)): its test and its result are on the expanded path
    trs = [t for t in T.traces(f) if live(t)]
    ctx.paths(rid, len(trs))
    bad = None; n = 0
    for tr in trs:
        for c in calls(tr):
            if norm(c.get('callee') or '') == 'cocls::publisher::queue::subscribe_lk' and len(c.get('args') or []) == 2:
                n += 1
                parked = None
                for it in tr[:pos(tr, c)]:
                    if it.k == 'branch':
                        nn = nullness(it)
                        if nn and nn[0].endswith('_awt'):
                            parked = nn[1]
                p = _resolve_select(inline_returns(tr, pos(tr, c), c['args'][1].get('path') or ''), tr[:pos(tr, c)])
                env = {}
                for it in tr[:pos(tr, c)]:
                    if it.k == 'decl' and it.get('init') is not None and re.fullmatch(r'local:\w+', it.get('var') or '') and not it.get('ref'):
                        env[it['var']] = _lin(_resolve_select(it['init'], tr[:pos(tr, it)]), env)
                    elif it.k == 'write' and re.fullmatch(r'local:\w+', it.get('path') or ''):
                        # std::size_t start; if (parked) start = ...; else start = ...;
                        if (it.get('op') or '=') == '=':
                            env[it['path']] = _lin(_resolve_select(it.get('rhs') or '', tr[:pos(tr, it)]), env)
                        elif delta_of_write(it) is not None and env.get(it['path']) is not None:
                            # std::size_t start = src._pos; if (src._awt) --start;
                            env[it['path']] = dict(env[it['path']]); env[it['path']][''] = env[it['path']].get('', 0) + delta_of_write(it)
                            env[it['path']] = {k_: v_ for k_, v_ in env[it['path']].items() if v_}
                        else:
                            env[it['path']] = None
                lin = _lin(p, env)
                if not parked_ahead or parked is False:
                    want = {'REG': 1}
                elif parked is True:
                    want = {'REG': 1, '': -1}
                else:
                    want = None
                if want is None:
                    bad = bad or ('the copy takes the position of the source without testing whether the source is parked (a parked registration stands one position ahead)', tr)
                elif lin != want:
                    bad = bad or ('on the %s edge the copy starts at %s instead of %s' % ('parked' if parked else 'not parked', _fmt_lin(lin), _fmt_lin(want)), tr)
    if n == 0:
        raise Broken('subscribe_lk(handle, subscriber) does not register through subscribe_lk(subscriber, position)')
    ctx.ob(rid, f, f['key'], bad is None, 'the copy continues from the last value the source consumed' + ('' if not bad else ' -- ' + bad[0]), desc=bad[0][:110] if bad else None, trace=fmt_trace(bad[1]) if bad else None)


_resolve_select = resolve_select
_split_select = split_select


def failed_publish_consistent(ctx, db):
    """element p of the stream lives at index _pos - p - 1: the window _q and the position _pos must move together.  A single push_front has
    the strong exception guarantee; an algorithm that inserts element by element (std::copy into a front_inserter, a range insert) can throw
    after some elements are in: unless that is undone (or published) before the exception leaves, every later index is shifted"""
    rid = ctx.rule('C16.failed-publish-consistent', 'PATHS (exception exit)', 'publisher::queue::push overloads: every insertion of several elements into the window (a std algorithm writing through an inserter '
                   'on _q, or a range insert) sits in a try block whose handler restores the window (erase / resize / pop on _q) or publishes what was inserted (push_lk) before the exception '
                   'leaves; single-element insertions have the strong guarantee', floor=1)
    Q = PQ + '::_q'
    n = 0; seen = set()
    bodies = []
    for f0 in db.fns('cocls::publisher::queue::push'):
        # the insertion may sit in a helper of the class (push_single, insert_range_lk): the try block is judged where the insertion is
        bodies += [f0] + [g for g in helper_bodies(db, f0) if g['nname'] != 'cocls::publisher::queue::push_lk']
    for f in bodies:
        if f['key'] in seen:
            continue
        seen.add(f['key'])
        evl = list(f.events())
        ins_ids = {e['id'] for e in evl if e.k == 'call' and norm(e.get('callee') or '') in ('std::front_inserter', 'std::back_inserter', 'std::inserter') and any(norm(a.get('field') or '') == Q for a in e.get('args', []))}
        bulk = [e for e in evl if e.k == 'call' and (any(a.get('ev') in ins_ids for a in e.get('args', [])) or
                                                    (norm(e.get('field') or '') == Q and norm(e.get('callee') or '').split('::')[-1] in ('insert', 'assign', 'insert_range', 'append_range', 'prepend_range') and len(e.get('args', [])) >= 3))]
        single = [e for e in evl if e.k == 'call' and norm(e.get('field') or '') == Q and norm(e.get('callee') or '').split('::')[-1] in ('push_front', 'emplace_front', 'push_back', 'emplace_back')]
        RESTORE_OPS = ('erase', 'resize', 'pop_front', 'pop_back', 'clear')
        restore = [e for e in evl if e.get('in_catch') and e.k == 'call' and ((norm(e.get('field') or '') == Q and norm(e.get('callee') or '').split('::')[-1] in RESTORE_OPS)
                                                                                or norm(e.get('callee') or '') == 'cocls::publisher::queue::push_lk')]
        # ... or a helper of the queue called from the handler that does it (drop_front_lk(n) { _q.erase(_q.begin(), _q.begin() + n); })
        for e_ in [x for x in evl if x.get('in_catch') and x.k == 'call' and x.get('callee_key')]:
            g_ = db.get(e_['callee_key'])
            if g_ is not None and is_helper(db, f, g_) and g_['nname'] != 'cocls::publisher::queue::push_lk':
                restore += [x for h_ in [g_] + helper_bodies(db, g_) for x in h_.events() if x.k == 'call' and norm(x.get('field') or '') == Q and norm(x.get('callee') or '').split('::')[-1] in RESTORE_OPS]
        for e in bulk:
            n += 1
            ok = e.get('try') is not None and bool(restore)
            why = 'range publish can throw after partial insertion without restoring the window'
            # the undo must take the partial insertion off the end it was put on: published, unread values live at the other end
            ins = next((x for x in evl if x.get('id') in ins_ids and any(a.get('ev') == x.get('id') for a in e.get('args', []))), None)
            at_front = ins is not None and norm(ins.get('callee') or '') == 'std::front_inserter'
            at_back = ins is not None and norm(ins.get('callee') or '') == 'std::back_inserter'
            for r_ in restore:
                o_ = norm(r_.get('callee') or '').split('::')[-1]
                a0 = ((r_.get('args') or [{}])[0].get('path') or '')
                wrong = None
                if at_front and (o_ in ('resize', 'pop_back', 'clear') or (o_ == 'erase' and 'begin' not in a0)):
                    wrong = 'the items were inserted at the front, %s removes from the back (or everything): the oldest published values are dropped and the unpublished partial items stay' % o_
                if at_back and (o_ in ('pop_front', 'clear') or (o_ == 'erase' and 'begin' in a0 and 'end' not in a0 and '+' not in a0 and False)):
                    wrong = 'the items were inserted at the back, %s removes from the front' % o_
                if wrong:
                    ok = False; why = wrong
            ctx.ob(rid, f, e['loc'], ok, 'the element-by-element insertion is undone (at the end it was made) or published when it throws part-way', desc=why)
        for e in single:
            n += 1
            ctx.ob(rid, f, e['loc'], True, 'single-element insertion (strong exception guarantee of std::deque at either end)')
    if n == 0:
        raise Broken('publisher::queue::push inserts nothing into the window: anchor changed')


def wake_means_news(ctx, db):
    """a subscriber that is woken finds either a new value or the closed flag; woken on an open publisher with nothing new it reads "nothing
    there" as the end of the stream.  So the wake-up pass runs with a count of zero only for close()"""
    rid = ctx.rule('C16.wake-means-news', 'GUARDED', 'every call of push_lk(lk, n) in the publisher queue: n is a positive constant, or tested non-zero on that path, or the closed flag was set before '
                   '(close): an empty publish (empty range) does not wake anybody', floor=3)
    T = _htracer(db, extra=lambda c, e, callee: False)
    seen = set(); sites = {}
    for f in db.all_instances():
        if not f['nname'].startswith(PQ + '::') or f['key'] in seen or f['nname'].endswith('::push_lk'):
            continue
        if not any(e.k == 'call' and norm(e.get('callee')) == PQ + '::push_lk' for e in f.events()):
            continue
        seen.add(f['key'])
        trs = [t for t in T.traces(f) if live(t)]
        ctx.paths(rid, len(trs))
        for tr in trs:
            nz = set(); closed = False
            for i, it in enumerate(tr):
                if it.k == 'branch':
                    nl = nullness(it)
                    if nl:
                        (nz.add if nl[1] else nz.discard)(nl[0])
                    m = re.fullmatch(r'\((.+) (!=|>) 0\)', it.path or '')
                    if m and it.val:
                        nz.add(m.group(1))
                    m = re.fullmatch(r'\((.+) == 0\)', it.path or '')
                    if m and not it.val:
                        nz.add(m.group(1))
                    # if (a == b) return; push_lk(lk, a - b);   a != b  /  a > b  on unsigned values: the difference is not zero
                    for p_, v_ in ((it.get('path'), it.val), (it.get('opath'), it.get('oval', it.val))):
                        rel = _branch_rel(Item(it, path=p_, val=v_, forms=None, opath=None)) if p_ else None
                        if rel and rel[0] not in ('0', 'nullptr') and rel[2] not in ('0', 'nullptr'):
                            if rel[1] in ('!=', '>'):
                                nz.add('(%s - %s)' % (rel[0], rel[2]))
                            if rel[1] in ('!=', '<'):
                                nz.add('(%s - %s)' % (rel[2], rel[0]))
                elif it.k == 'call' and norm(it.get('field') or '') == PQ + '::_q' and it.get('recv') and \
                        norm(it.get('callee') or '').split('::')[-1] not in ('size', 'empty', 'begin', 'end', 'cbegin', 'cend', 'operator[]', 'at', 'front', 'back', 'max_size'):
                    # the window changed: what was known about its size is no longer known
                    nz = {x for x in nz if 'call(std::deque::' not in x}
                elif _flag_store(it, PQ + '::_closed') == 1:
                    closed = True
                elif it.k == 'call' and norm(it.get('callee')) == PQ + '::push_lk' and it.get('depth', 0) == 0:
                    a = (it.get('args') or [{}, {}])
                    a1 = a[1] if len(a) > 1 else {}
                    c = a1.get('const'); p_ = a1.get('path') or ''
                    ok = (c is not None and c >= 1) or (c == 0 and closed) or (c is None and (p_ in nz or (a1.get('opath') or p_) in nz or origin_in_trace(tr, i, p_)[0] in nz or closed))
                    key = (f['key'], it.get('loc'))
                    sites.setdefault(key, [f, True, p_, None])
                    if not ok and sites[key][1]:
                        sites[key][1] = False; sites[key][3] = tr
    if not sites:
        raise Broken('no caller of publisher::queue::push_lk found: anchor changed')
    for (k, loc), (f, ok, p_, tr) in sorted(sites.items()):
        ctx.ob(rid, f, loc, ok, 'push_lk(%s) in %s only with something to announce' % (p_, f['nname'].split('::')[-1]),
               desc='%s runs the wake-up pass with a count that may be zero on an open publisher: waiting subscribers take the empty wake-up for the end of the stream' % f['nname'] if not ok else None,
               trace=fmt_trace(tr) if tr else None)


def kick_finds_live(ctx, db):
    """registration slots are recycled: a released slot keeps the address of the subscriber that left, and a new subscriber may be built at that
    very address and get another slot.  Whoever looks a subscriber up by address must consider live slots only"""
    rid = ctx.rule('C16.kick-finds-live-registration', 'GUARDED', 'kick_lk (its search predicate or loop): the comparison of a registration\'s subscriber address with the one to kick is evaluated only '
                   'for a registration already tested _used on that path: a stale address in a released slot never shadows the live registration', floor=1)
    T = _htracer(db)
    bodies = []
    for f in db.need(PQ + '::kick_lk')[:1]:
        bodies = [f] + [g for g in helper_bodies(db, f) if g['nname'] != PQ + '::push_lk'] + list(lambdas_of(db, PQ + '::kick_lk'))
        bodies += [lf for g in list(bodies) for e in g.events() if e.k == 'lambda' for lf in db.closure_instances(g, e['fn_key'])]       # the predicate may live in a helper (take_kicked_lk)
        bodies += [op for g in list(bodies) for _e, op in _functor_calls(db, g)]        # ... or be the call operator of a function object of the class handed to std::find_if
    seen = set(); n = 0
    for g in bodies:
        if g['key'] in seen:
            continue
        seen.add(g['key'])
        if not any(e.k == 'cmp' and '_sub' in ((e.get('lhs') or '') + (e.get('rhs') or '')) for e in g.events()):
            continue
        bad = None
        for tr in T.traces(g):
            used = set()
            for it in tr:
                if it.k == 'branch' and re.search(r'(\.|->)_used$', it.path or ''):
                    (used.add if it.val else used.discard)(re.sub(r'(\.|->)_used$', '', it.path))
                elif it.k == 'cmp' and re.search(r'(\.|->)_sub$', (it.get('lhs') or '')) or (it.k == 'cmp' and re.search(r'(\.|->)_sub$', (it.get('rhs') or ''))):
                    side = it.get('lhs') if re.search(r'(\.|->)_sub$', it.get('lhs') or '') else it.get('rhs')
                    obj = re.sub(r'(\.|->)_sub$', '', side)
                    n += 1
                    if obj not in used:
                        bad = bad or tr
        ctx.ob(rid, g, g['key'], bad is None, 'the address comparison is made for used registrations only', desc='kick compares the subscriber address of a registration that was not tested _used: a released slot with a stale address shadows the live one',
               trace=fmt_trace(bad) if bad else None)
    if n == 0:
        raise Broken('kick_lk: no comparison with the subscriber to kick found')


REGAWT = 'cocls::publisher::queue::subreg_t::_awt'
REGUSED = 'cocls::publisher::queue::subreg_t::_used'
NEXTFREE = PQ + '::_next_free'
_LOOPS = ('ForStmt', 'CXXForRangeStmt', 'WhileStmt', 'DoStmt')


def _used_verdicts(it):
    """[(registration object, truth)] a branch item establishes about the _used flag of a registration on the edge it took (a negation in
    front of the flag flips the verdict; every spelling the condition went through is looked at)"""
    out = []
    for p_, v_ in [(it.get('path'), it.val)] + list((it.get('forms') or {}).items()):
        p_ = p_ or ''; v_ = bool(v_)
        while True:
            if p_.startswith('!(') and p_.endswith(')'):
                p_ = p_[2:-1]; v_ = not v_
            elif p_.startswith('!'):
                p_ = p_[1:]; v_ = not v_
            else:
                break
        m = re.fullmatch(r'(.+?)(\.|->)_used', p_)
        if m and '(' not in m.group(1).replace('*(call(std::vector::begin))', '').replace('call(', '').replace(')', ''):
            out.append((m.group(1), v_))
        else:
            sc = split_cmp(p_ if p_.startswith('(') else '(%s)' % p_)
            if sc and sc[1] in ('==', '!=') and {sc[0], sc[2]} & {'true', 'false', '1', '0'}:
                a_, c_ = (sc[0], sc[2]) if sc[2] in ('true', 'false', '1', '0') else (sc[2], sc[0])
                m = re.fullmatch(r'(.+?)(\.|->)_used', a_)
                if m:
                    out.append((m.group(1), v_ == ((c_ in ('true', '1')) == (sc[1] == '=='))))
    return out


def wake_only_live(ctx, db):
    """leave_lk only marks a registration slot unused: the awaiter field of a released slot keeps whatever the subscriber that left had parked
    there (a subscriber destroyed while suspended), until the slot is recycled.  So the wake-up pass may look at the awaiter field of a
    registration only after it has established, on that path and for that registration, that the slot is in use"""
    rid = ctx.rule('C16.wake-only-live', 'GUARDED', 'push_lk (helpers, closures and function objects of the class expanded in place): the parked-awaiter field of a registration is read (tested, '
                   'collected into the wake-up buffer, exchanged) only for a registration whose _used flag was found true earlier on the same path in the same round of the walk: '
                   'the stale awaiter of a subscriber that left while parked is never resumed', floor=1)
    T = _htracer(db, maxvisit=2)
    for f in db.need(PQ + '::push_lk')[:1]:
        roots = [f]
        # a closure / call operator handed to something the enumerator does not expand in place is walked on its own
        trs = [t for t in T.traces(f)]
        if T.truncated:
            raise Broken('path bound exceeded in push_lk')
        inlined = {it.get('fname') for t in trs for it in t if it.get('fname')}
        for g in _bodies_behind(db, f):
            if g is not f and g['nname'] not in inlined and any(norm(e.get('field') or '') == REGAWT for e in g.events()):
                roots.append(g); trs += T.traces(g)
        ctx.paths(rid, len(trs))
        sites = {}
        for tr in trs:
            used = set()
            for i, it in enumerate(tr):
                if it.k == 'branch' and it.term in _LOOPS:
                    used = set()         # the next round of the walk looks at another registration
                elif it.k == 'branch':
                    for obj, v_ in _used_verdicts(it):
                        (used.add if v_ else used.discard)(obj)
                elif it.k == 'write' and field_of(it) == REGUSED:
                    used.discard(re.sub(r'(\.|->)_used$', '', it.get('path') or ''))
                else:
                    looks = []
                    if it.k == 'read' and field_of(it) == REGAWT:
                        looks.append(it.get('path') or '')
                    elif it.k == 'call':
                        looks += [a.get('path') or '' for a in (it.get('args') or []) if norm(a.get('field') or '') == REGAWT]
                    for p_ in looks:
                        obj = re.sub(r'(\.|->)_awt$', '', p_)
                        key = it.get('loc')
                        sites.setdefault(key, [True, None])
                        if obj not in used and sites[key][0]:
                            sites[key] = [False, tr[:i + 1]]
        if not sites:
            raise Broken('push_lk never looks at the parked awaiter of a registration: anchor changed')
        for loc, (ok, tr) in sorted(sites.items(), key=lambda x: str(x[0])):
            ctx.ob(rid, f, loc, ok, 'the awaiter field is consulted for a registration found in use on this path',
                   desc='push_lk consults (and collects) the parked awaiter of a registration without having tested that the slot is in use: the stale awaiter of a subscriber that left while '
                        'parked is resumed' if not ok else None, trace=fmt_trace(tr) if tr else None)


def _head_store(it):
    """the value expression an item stores into the free-list head _next_free (plain assignment or std::exchange(_next_free, v)); None when the
    item is no such store"""
    if it.k == 'write' and field_of(it) == NEXTFREE:
        return (it.get('rhs') or '?') if (it.get('op') or '=') == '=' else '?'
    if it.k == 'call' and norm(it.get('callee') or '') == 'std::exchange':
        a = it.get('args') or []
        if len(a) == 2 and norm(a[0].get('field') or '') == NEXTFREE:
            return a[1].get('path') or '?'
    return None


def _slot_store(it, obj):
    """the item gives the link field (_pos) of registration `obj` a new value: a store into obj._pos, or an assignment of the whole record"""
    if it.k == 'write' and field_of(it) == REGPOS and re.sub(r'(\.|->)_pos$', '', it.get('path') or '') == obj:
        return True
    return it.k == 'call' and it.get('recv') == obj and norm(it.get('callee') or '').endswith('subreg_t::operator=')


def free_list_link(ctx, db):
    """free registration slots form a list threaded through their _pos field: _next_free is the head, leave_lk pushes (slot._pos = old head;
    head = slot), subscribe_lk pops (head = slot._pos; then the slot is initialised).  The value that moves must be the one the field / the
    head had BEFORE the operation overwrote it"""
    rid = ctx.rule('C16.free-list-link', 'PATHS (value origin)', 'subscribe_lk(sub, pos), on every path that recycles a slot: the new free-list head _next_free is the link the slot kept in _pos, '
                   'read before anything on that path stored into that slot\'s _pos (field store or assignment of the whole record); leave_lk, on every path: the released slot\'s _pos '
                   'receives the head as it was before the head was redirected to the slot, and the head receives the released handle', floor=2)
    T = _htracer(db)
    fns = [f for f in db.fns(PQ + '::subscribe_lk') if len(f['params']) == 2 and 'subscriber' in f['params'][0]['type'] and 'subscriber' not in f['params'][1]['type']]
    if not fns:
        raise Broken('anchor vanished: subscribe_lk(sub, pos)')
    f = fns[0]
    trs = [t for t in T.traces(f) if live(t)]
    ctx.paths(rid, len(trs))
    bad = None; n = 0
    for tr in trs:
        if any(it.k == 'call' and norm(it.get('callee') or '').split('::')[-1] in ('push_back', 'emplace_back') and norm(it.get('field') or '') == PQ + '::_regs' for it in tr):
            continue        # a fresh slot is appended
        n += 1
        st = [i for i, it in enumerate(tr) if _head_store(it) is not None]
        if not st:
            bad = bad or ('a slot is taken from the free list and the head still points at it', tr)
            continue
        i = st[-1]
        o, at = origin_in_trace(tr, i, _head_store(tr[i]))
        o = o or ''
        if not re.search(r'(\.|->)_pos$', o) or o == 'this->_pos':
            bad = bad or ('the free-list head is set to %s, which is not the link kept in the recycled slot' % (o or '?'), tr)
            continue
        obj = re.sub(r'(\.|->)_pos$', '', o)
        # where the link was read: the last read of the field up to the point the value was taken
        rd = next((j for j in range(min(at, i), -1, -1) if tr[j].k == 'read' and tr[j].get('path') == o), min(at, i))
        if any(_slot_store(it, obj) for it in tr[:rd]):
            bad = bad or ('the link of the recycled slot is read after the slot\'s _pos was overwritten: the head becomes the new subscriber\'s position, a later subscriber is handed a slot in use', tr)
    if n == 0 and not bad:
        bad = ('subscribe_lk lost its recycle path', [])
    ctx.ob(rid, f, f['key'], bad is None, 'recycling pops the free list: head = link read before the slot is re-initialised' + ('' if not bad else ' -- ' + bad[0]), desc=bad[0] if bad else None,
           trace=fmt_trace(bad[1]) if bad and bad[1] else None)
    for f in db.need(PQ + '::leave_lk')[:1]:
        trs = [t for t in T.traces(f) if live(t)]
        ctx.paths(rid, len(trs))
        bad = None
        for tr in trs:
            hs = [i for i, it in enumerate(tr) if _head_store(it) is not None]
            ls = [i for i, it in enumerate(tr) if it.k == 'write' and field_of(it) == REGPOS]
            if len(hs) != 1 or len(ls) != 1:
                bad = bad or ('leave does not link the slot into the free list exactly once', tr)
                continue
            o, at = origin_in_trace(tr, ls[0], tr[ls[0]].get('rhs') or '')
            if o != 'this->_next_free' or (min(at, ls[0]) > hs[0]):
                bad = bad or ('the released slot does not receive the previous free-list head as its link', tr)
            h_, _at = origin_in_trace(tr, hs[0], _head_store(tr[hs[0]]))
            if not re.fullmatch(r'param:\w+', h_ or ''):
                bad = bad or ('the free-list head is not set to the released handle', tr)
        if not trs:
            bad = ('leave_lk has no path', [])
        ctx.ob(rid, f, f['key'], bad is None, 'leaving pushes the slot on the free list: link = old head, head = handle' + ('' if not bad else ' -- ' + bad[0]), desc=bad[0] if bad else None,
               trace=fmt_trace(bad[1]) if bad and bad[1] else None)
