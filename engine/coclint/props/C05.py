# C05 - coroutine-mode scheduling: run-to-suspension, FIFO ready queue, full drain
import re
from ..core import var_def, norm, relloc, live, calls, evs, Broken, value_origin, Tracer, fmt_trace, rooted, has_back_edge, local_env, subst_path, efield, short, tests, cond_event
from ..rules import *
from .C06 import consistent

EXPLANATION = ('Static analysis of the scheduling discipline: every function that makes a ready handle run branches on coroutine mode and, while a coroutine activation is on the '
               'stack, only enqueues (no direct resume, no nested activation), otherwise runs the handle inside install_queue_and_call; every other direct '
               'coroutine_handle::resume in the library is structurally of a kind that cannot pre-empt a running coroutine with a ready one (drain loop, callable run by '
               'install_queue_and_call, start of a not-yet-started child, a generator\'s own handle, body of a fresh thread); leaving coroutine mode drains the queue '
               'before the mode flag is restored, on every path; the drain loop only exits on an empty queue and pops before it resumes; the mode flag has two writers; '
               'the ready deque is enqueued at the back and dequeued at the front only by the tabled functions; pause re-queues itself at the tail before taking the head. '
               'Undecided: order and exactly-once as behaviour for arbitrary programs of N coroutines.')
ASSUMPTIONS = ['std::deque push_back/front/pop_front implement a FIFO', 'destructors of automatic objects (trailer) run on every exit, including exceptions (language guarantee)']

RESUME = re.compile(r'^std::coroutine_handle::(resume|operator\(\))$')
INSTALL = ('cocls::coro_queue::install_queue_and_call', 'cocls::coro_queue::install_queue_and_resume')
INSTANCE = 'global:cocls::coro_queue::instance'
RQ = 'cocls::coro_queue::queue_impl::_queue'
ENQ = ('std::deque::push_back', 'cocls::coro_queue::queue_impl::push', 'std::deque::emplace_back')


def run(ctx, db, tier):
    mode_split(ctx, db)
    install_only_inactive(ctx, db)
    direct_resume(ctx, db)
    drain_before_restore(ctx, db)
    who_writes_instance(ctx, db)
    fifo_ops(ctx, db)
    pause_rule(ctx, db)
    resumed_once(ctx, db)
    from . import C06
    C06.self_inclusion(ctx, db, 'C05.awaiter-queued-once')
    C06.listed_queued_once(ctx, db, 'C05.ready-handles-queued-once')
    C06.consumers_clear(ctx, db, 'C05.handles-consumed-once')
    # what pop() / the iteration hands to the scheduler must be a handle that was put in: the list reads the storage it wrote
    C06.typestate(ctx, db, 'C05.carried-handles-read-where-written')
    C06.collected_is_removed(ctx, db, 'C05.collected-is-removed')
    order_kept(ctx, db)


def order_kept(ctx, db, rid_='C05.handles-leave-in-arrival-order'):
    """a suspend point is an ordered list (arrival order = the order the coroutines were made ready); pop() takes the NEWEST entry (it exists
    for the single symmetric transfer).  A member that empties the list by calling pop() in a loop hands the handles on back to front"""
    rid = ctx.rule(rid_, 'ORDER', 'no member of suspend_point (closures and helpers included) drains the list by calling its own pop() in a loop: the handles are moved to the ready '
                   'queue / resumed by forward iteration, in the order they were added', floor=3)
    T = htracer(db, maxvisit=2)
    seen = set(); n = 0
    for f in db.all_instances():
        if not (f['nname'].startswith('cocls::suspend_point::') and f.get('class_inst', 'cocls::suspend_point<void>').startswith('cocls::suspend_point<void>')) or f['key'] in seen:
            continue
        if f['nname'].split('::')[-1] in ('pop',):
            continue
        seen.add(f['key'])
        if not any(e.k == 'call' for e in f.events()):
            continue
        n += 1
        bad = None
        for tr in T.traces(f):
            locs = [it.get('loc') for it in tr if it.k == 'call' and norm(it.get('callee') or '') == 'cocls::suspend_point::pop' and rooted(it.get('recv') or 'this', 'this')]
            if len(locs) != len(set(locs)):
                bad = bad or tr
        ctx.ob(rid, f, f['key'], bad is None, '%s does not drain the list back to front' % f['nname'].split('::')[-1], desc='%s empties the suspend point with pop() in a loop: ready coroutines run in reverse order' % f['nname'].split('::')[-1],
               trace=fmt_trace(bad) if bad else None)
    if n == 0:
        raise Broken('no member of suspend_point<void> with calls found')


def is_resume(ev):
    return ev.k == 'call' and bool(RESUME.match(norm(ev.get('callee') or '')))


def mode_of(tr):
    for it in tr:
        if it.k == 'branch' and ('coro_queue::instance' in (it.path or '') or 'coro_queue::is_active' in (it.path or '')):
            n = nullness(it)
            if n and ('&&' not in n[0]):
                return 'active' if n[1] else 'inactive'
    return None


def mode_split(ctx, db, rid_='C05.mode-split'):
    rid = ctx.rule(rid_, 'PATHS+COUNT', 'coro_queue::resume, suspend_point::suspend_now, suspend_point::await_suspend, coro_queue::create_suspend_point branch on '
                   'coroutine mode; on the active edge they only enqueue (no direct resume, no install_queue_*: a nested activation would pre-empt the running coroutine); on '
                   'the inactive edge a handle runs only inside a callable given to install_queue_and_call', floor=4)
    for name in ('cocls::coro_queue::resume', 'cocls::suspend_point::suspend_now', 'cocls::suspend_point::await_suspend', 'cocls::coro_queue::create_suspend_point'):
        for f, trs in traces_of(db, name, depth=1, inline=inline_only('cocls::coro_queue::is_active'), per_instance=False, maxvisit=2):
            trs = [t for t in trs if live(t) and consistent(t)]
            ctx.paths(rid, len(trs))
            bad = None; na = ni = 0
            for tr in trs:
                mode = mode_of(tr)
                cs = [c for c in calls(tr, 0)]
                direct = [c for c in cs if is_resume(c)]
                inst = [c for c in cs if norm(c.get('callee')) in INSTALL]
                enq = [c for c in cs if norm(c.get('callee')) in ENQ]
                if mode == 'active':
                    na += 1
                    if direct:
                        bad = bad or ('a ready coroutine is resumed directly while another one is running', tr)
                    if inst:
                        bad = bad or ('a nested queue activation is installed while a coroutine is running', tr)
                    if name == 'cocls::coro_queue::resume' and len(enq) != 1:
                        bad = bad or ('the ready coroutine is not enqueued exactly once', tr)
                elif mode == 'inactive':
                    ni += 1
                    if direct:
                        bad = bad or ('a handle is resumed outside install_queue_and_call in normal mode (its wake-ups would nest instead of queue)', tr)
                    if name == 'cocls::coro_queue::resume' and len(inst) != 1:
                        bad = bad or ('in normal mode the coroutine is not run under an installed queue', tr)
                else:
                    if direct or inst:
                        bad = bad or ('a handle is run on a path that did not test coroutine mode', tr)
            if not bad and (na == 0 or ni == 0):
                bad = ('the function no longer distinguishes coroutine mode from normal mode', trs[0] if trs else [])
            ctx.ob(rid, f, f['key'], bad is None, 'enqueue-only in coroutine mode, install-and-run in normal mode' + ('' if not bad else ' -- ' + bad[0]), desc=bad[0] if bad else None,
                   trace=fmt_trace(bad[1]) if bad else None)


def _ancestors(db, f):
    """enclosing functions of a closure: the recorded parent chain, plus closures of the same parent that lexically contain it (a lambda
    written inside another lambda is recorded with the outermost function as its parent)"""
    out = []
    f0 = f
    while f is not None and f.get('parent_key'):
        f = db.get(f['parent_key'])
        if f is not None:
            out.append(f)
    if f0.get('lambda') and f0.get('parent_key'):
        m = re.search(r':(\d+):\d+$', f0['key'])
        line = int(m.group(1)) if m else None
        for k in db.keys():
            g = db.rep(k)
            if g.get('lambda') and g.get('parent_key') == f0['parent_key'] and g['key'] != f0['key'] and line is not None and g.get('lines') and g['lines'][0] <= line <= g['lines'][1] \
                    and g['key'].rsplit(':', 2)[0] == f0['key'].rsplit(':', 2)[0]:
                out.append(g)
    return out


def direct_resume(ctx, db, rid_='C05.direct-resume'):
    rid = ctx.rule(rid_, 'WHO', 'every direct coroutine_handle::resume()/operator() in the library is structurally one of: K2 the drain loop or a callable executed by '
                   'install_queue_and_call; K3 start of a not-yet-started child (handle from start_promise); K4 a generator\'s own handle (from_promise / next_async); '
                   'K5 the body of a freshly created thread', floor=8)
    passed_to_install = set(); thread_bodies = set()
    for f in db.all_instances():
        for e in f.events():
            if e.k == 'call' and norm(e.get('callee')) == INSTALL[0]:
                for a in e.get('args') or []:
                    p = a.get('path') or ''
                    m_ = re.fullmatch(r'(?:move|forward)?\(?local:(\w+)\)?', p)
                    if m_:
                        # a named closure: auto resume_all = [this]{...}; install_queue_and_call(resume_all);
                        d_ = var_def(f, m_.group(1), e.get('loc'))
                        p = (d_ or {}).get('init') or p
                    if p.startswith('lambda@'):
                        passed_to_install.add(p[7:])
                    m_ = re.search(r'fn:(.+?)\)*$', p) if 'fn:' in p else None
                    if m_:
                        # a named function handed to install_queue_and_call runs under the installed queue like a closure would
                        for g_ in db.all_instances():
                            if g_['nname'] == norm(m_.group(1)):
                                passed_to_install.add(g_['key'])
            if e.k == 'lambda' and 'std::thread::thread' in (e.get('use') or ''):
                thread_bodies.add(e['fn_key'])
            if e.k == 'construct' and norm(e.get('callee')) == 'std::thread::thread':
                for a in e.get('args') or []:
                    p = a.get('path') or ''
                    if p.startswith('lambda@'):
                        thread_bodies.add(p[7:])
    seen = set()
    for f in db.all_instances():
        for e in f.events():
            if not is_resume(e):
                continue
            site = (f['key'], e['loc'])
            if site in seen:
                continue
            seen.add(site)
            o = value_origin(f, f.ev(e.get('recv_ev'))) if e.get('recv_ev') is not None and f.ev(e.get('recv_ev')) is not None else value_origin(f, e.get('recv') or '')
            # a library helper that just hands out a handle (get_handle() { return coroutine_handle<P>::from_promise(*this); }, possibly through
            # a second helper that checks done() first): the kind of what it returns
            oc = _handle_source(db, o)
            kind = None
            if f['nname'] == 'cocls::coro_queue::queue_impl::flush_queue':
                kind = 'K2 drain loop'
            elif f['key'] in passed_to_install:
                kind = 'K2 callable executed by install_queue_and_call'
            elif f.get('lambda') and any(a_['key'] in passed_to_install for a_ in _ancestors(db, f)):
                kind = 'K2 closure defined and used inside a callable executed by install_queue_and_call (std::for_each over the handles)'
            elif oc == 'cocls::async::start_promise':
                kind = 'K3 start of a not-yet-started child'
            elif oc in ('std::coroutine_handle::from_promise', 'cocls::generator::promise_type::next_async'):
                kind = 'K4 generator\'s own handle'
            elif f['key'] in thread_bodies:
                kind = 'K5 body of a fresh thread'
            if kind is None and re.fullmatch(r'param:\w+', e.get('recv') or '') and not f.get('lambda'):
                # a helper that resumes its parameter: the kind of every value passed to it (resume_started(start_promise(p)))
                idx = next((i for i, p_ in enumerate(f['params']) if 'param:' + p_['name'] == e['recv']), None)
                kinds = set()
                for g in db.all_instances():
                    for ce in g.events():
                        if ce.k == 'call' and ce.get('callee_key') == f['key'] and idx is not None and idx < len(ce.get('args') or []):
                            a = ce['args'][idx]
                            ao = value_origin(g, g.ev(a['ev'])) if a.get('ev') is not None and g.ev(a['ev']) is not None else value_origin(g, a.get('path') or '')
                            kinds.add(_handle_source(db, ao) or '?')
                if kinds and kinds <= {'cocls::async::start_promise'}:
                    kind = 'K3 start of a not-yet-started child (every caller passes the result of start_promise)'
                elif kinds and kinds <= {'std::coroutine_handle::from_promise', 'cocls::generator::promise_type::next_async'}:
                    kind = 'K4 generator\'s own handle (every caller passes it)'
            if kind is None:
                kind = _inherited_kind(db, f, passed_to_install, thread_bodies)
            ctx.ob(rid, f, e['loc'], kind is not None, 'direct resume of %s is of kind %s' % (e.get('recv'), kind or 'UNKNOWN: it may pre-empt a running coroutine with a ready one'),
                   desc='direct resume in %s of a handle of unknown kind' % f['nname'])
    ctx.cover['direct_resume_sites'] = len(seen)


HANDLE_SOURCES = ('cocls::async::start_promise', 'std::coroutine_handle::from_promise', 'cocls::generator::promise_type::next_async')


def _handle_source(db, o, depth=4):
    """normalised name of the function that produced a handle whose origin event is `o`, looking through library helpers that only hand on a
    handle obtained elsewhere: every return statement of such a helper returns a value of the same source"""
    oc = norm((o or {}).get('callee') or '')
    if o is None or depth == 0 or oc in HANDLE_SOURCES or not o.get('callee_key') or not oc.startswith('cocls::'):
        return oc
    g = db.get(o['callee_key'], o.get('callee_inst'))
    rets = [x for x in (g.events() if g is not None else []) if x.k == 'return']
    kinds = set()
    for r in rets:
        re_ = g.ev(r['ret_ev']) if r.get('ret_ev') is not None else None
        o2 = value_origin(g, re_) if re_ is not None else None
        if o2 is None:
            return oc
        kinds.add(_handle_source(db, o2, depth - 1))
    return kinds.pop() if rets and len(kinds) == 1 and kinds <= set(HANDLE_SOURCES) else oc


def _inherited_kind(db, f, passed_to_install, thread_bodies, depth=3, seen=None):
    """a helper that resumes directly inherits the kind of its callers when all of them (transitively) are of one non-pre-empting kind"""
    seen = seen or set()
    if depth == 0 or f['key'] in seen:
        return None
    seen.add(f['key'])
    callers = []
    for g in db.all_instances():
        if any(e.k in ('call', 'construct') and e.get('callee_key') == f['key'] for e in g.events()):
            callers.append(g)
    if not callers:
        return None
    kinds = set()
    for g in callers:
        if g['nname'] == 'cocls::coro_queue::queue_impl::flush_queue' or g['key'] in passed_to_install:
            kinds.add('K2')
        elif g['key'] in thread_bodies:
            kinds.add('K5')
        else:
            k = _inherited_kind(db, g, passed_to_install, thread_bodies, depth - 1, seen)
            if k is None:
                return None
            kinds.add(k.split(' ')[0])
    return '%s (inherited: helper reached only from such contexts)' % sorted(kinds)[0] if len(kinds) == 1 else None


def _guard_segments(tr):
    """expanded destructors of locals of the root function on this trace: [(index of the dtor item, index of its leave marker)]"""
    out = []
    for i, it in enumerate(tr):
        if it.k == 'dtor' and it.get('expanded') and it.get('depth', 0) == 0:
            j = next((j for j in range(i + 1, len(tr)) if tr[j].k == 'leave' and tr[j].get('depth') == 0 and tr[j].ev.get('k') == 'dtor' and tr[j].ev.get('id') == it.get('id')), None)
            if j is not None:
                out.append((i, j))
    return out


def _restores_saved(tr, wi):
    """is the value stored by the write tr[wi] the mode flag as it was when the queue was installed: a local, or a member of the guard object,
    that was filled from the exchange on the flag (or from a plain read of it)"""
    w = tr[wi]
    o, _ = origin_in_trace(tr, wi, w.get('rhs') or '')
    if o == INSTANCE:
        return True
    rd = next((x for x in reversed(tr[:wi]) if x.k == 'read' and x.get('id') == w.get('rhs_ev') and x.get('fn') == w.get('fn') and x.get('depth') == w.get('depth')), None) if w.get('rhs_ev') is not None else None
    fld = norm((rd or {}).get('lfield') or (rd or {}).get('field') or '')
    if fld:
        for j in range(wi - 1, -1, -1):
            x = tr[j]
            if x.k == 'write' and norm(x.get('lfield') or x.get('field') or '') == fld:
                o, _ = origin_in_trace(tr, j, x.get('rhs') or '')
                return o == INSTANCE
    return False


def drain_before_restore(ctx, db, rid_='C05.drain-before-restore'):
    rid = ctx.rule(rid_, 'ORDER+PATHS', 'the trailer of install_queue_and_call drains the ready queue (flush_queue) before it restores the previous mode flag, on '
                   'every path and unconditionally; the drain loop exits only on an empty queue, and removes a handle from the queue before resuming it', floor=3)
    lams = lambdas_of(db, 'cocls::coro_queue::install_queue_and_call')
    T = htracer(db)
    # the code that runs when install_queue_and_call is left is the closure held by the trailer - or the destructor of a scope guard (a local of
    # a library class: its constructor and destructor are expanded on the variable), judged inside the paths of install_queue_and_call itself
    FLUSH = callee_is('cocls::coro_queue::queue_impl::flush_queue')
    guards = {}
    for f_ in db.fns('cocls::coro_queue::install_queue_and_call')[:2]:
        for tr in T.traces(f_):
            if not live(tr):
                continue
            for di, li in _guard_segments(tr):
                body = [j for j in range(di + 1, li) if tr[j].k not in ('enter', 'leave')]
                fi = next((j for j in body if FLUSH(tr[j])), -1)
                wi = next((j for j in body if tr[j].k == 'write' and (tr[j].get('path') or '') == INSTANCE), -1)
                g = db.get(tr[di].get('callee_key'))
                if g is None or (fi < 0 and wi < 0):
                    continue
                st = guards.setdefault(g['key'], [g, None, 0]); st[2] += 1
                if fi < 0:
                    st[1] = st[1] or ('a path leaves coroutine mode without draining the ready queue', tr)
                elif wi < 0:
                    st[1] = st[1] or ('a path leaves without restoring the previous mode (the thread stays in coroutine mode)', tr)
                elif wi < fi:
                    st[1] = st[1] or ('the mode flag is restored before the queue is drained', tr)
                elif not _restores_saved(tr, wi):
                    st[1] = st[1] or ('the mode flag is not restored to the saved previous value', tr)
    if not lams and not guards:
        raise Broken('anchor vanished: trailer lambda of install_queue_and_call (and no scope guard that drains and restores in its destructor)')
    for g, bad, n_ in guards.values():
        ctx.paths(rid, n_)
        ctx.ob(rid, g, g['key'], bad is None, 'flush_queue precedes the restore of coro_queue::instance on every path' + ('' if not bad else ' -- ' + bad[0]), desc=bad[0] if bad else None,
               trace=fmt_trace(bad[1]) if bad else None)
    # the local(s) of install_queue_and_call that hold the previous mode flag: initialised by the exchange on instance, or by a plain read of it
    saved_names = set()
    for f_ in db.fns('cocls::coro_queue::install_queue_and_call')[:2]:
        for tr_ in T.traces(f_):
            for i_, e_ in enumerate(tr_):
                if e_.k == 'decl' and e_.get('depth', 0) == 0 and e_.get('init'):
                    # directly, or through a helper that returns the exchanged value (queue_impl *prev = install_queue();)
                    raw_ = f_.ev(e_.get('id')) if e_.get('id') is not None else None          # (the item's own name may have been copy-propagated away)
                    vn_ = (raw_.get('var') if raw_ is not None and raw_.k == 'decl' else e_.get('var')) or ''
                    o_ = origin_in_trace(tr_, i_, e_.get('init'))[0] or ''
                    if o_ == INSTANCE or o_ == 'call(std::exchange)':
                        saved_names.add(vn_.replace('local:', ''))
    # a capture initialised from a local of the enclosing function ([p = prev], or the member of a hand-written closure class) stands for that local
    cap_init = {}
    for f_ in db.fns('cocls::coro_queue::install_queue_and_call')[:2]:
        for e_ in f_.events():
            if e_.k == 'lambda':
                for c_ in e_.get('captures') or []:
                    if c_.get('init_capture') and re.fullmatch(r'(local|param):\w+', c_.get('init') or ''):
                        cap_init[(e_.get('fn_key'), c_.get('name'))] = c_['init']
    seen = set()
    for lf in lams:
        if lf['key'] in seen:
            continue
        seen.add(lf['key'])
        trs = T.traces(lf)
        ctx.paths(rid, len(trs))
        bad = None
        for tr in trs:
            if not live(tr):
                continue
            fi = index_of(tr, callee_is('cocls::coro_queue::queue_impl::flush_queue'))
            wi = index_of(tr, lambda ev: ev.k == 'write' and (ev.get('path') or '') == INSTANCE)
            if fi < 0:
                bad = bad or ('a path leaves coroutine mode without draining the ready queue', tr)
            elif wi < 0:
                bad = bad or ('a path leaves without restoring the previous mode (the thread stays in coroutine mode)', tr)
            elif wi < fi:
                bad = bad or ('the mode flag is restored before the queue is drained', tr)
            elif not re.fullmatch(r'(capture|local|param):(%s)' % '|'.join(sorted(saved_names) or ['prev']),
                                  cap_init.get((lf['key'], (tr[wi].get('rhs') or '').replace('capture:', '')), tr[wi].get('rhs') or '') if (tr[wi].get('rhs') or '').startswith('capture:') else (tr[wi].get('rhs') or '')):
                bad = bad or ('the mode flag is not restored to the saved previous value', tr)
        ctx.ob(rid, lf, lf['key'], bad is None, 'flush_queue precedes the restore of coro_queue::instance on every path' + ('' if not bad else ' -- ' + bad[0]), desc=bad[0] if bad else None,
               trace=fmt_trace(bad[1]) if bad else None)
    # the trailer object is created before fn is called, in the same function, and holds the lambda
    for f in db.need('cocls::coro_queue::install_queue_and_call')[:1]:
        # on every path: the previous flag is saved and the thread's own queue installed (one std::exchange, or read + assign; possibly inside a
        # helper), then the trailer object is created, and it is a local whose destructor runs on every exit
        ok = True; nlive = 0
        for tr in T.traces(f):
            if not live(tr):
                continue
            nlive += 1
            ins = index_of(tr, lambda ev: (ev.k == 'call' and norm(ev.get('callee')) == 'std::exchange' and ev.get('args') and ev['args'][0].get('path') == INSTANCE and 'queue_impl::instance' in (ev['args'][1].get('path') or '')) or
                           (ev.k == 'write' and (ev.get('path') or '') == INSTANCE and 'queue_impl::instance' in (ev.get('rhs') or '')))
            plain = ins >= 0 and tr[ins].k == 'write'
            sv = index_of(tr, lambda ev: ev.k == 'decl' and (ev.get('init') or '') == INSTANCE) if plain else 0
            tc = index_of(tr, lambda ev: ev.k == 'construct' and norm(ev.get('callee')) == 'cocls::trailer::trailer')
            dt = [i for i, ev in enumerate(tr) if ev.k == 'dtor' and 'trailer' in (ev.get('type') or '')]
            if tc < 0:
                # no trailer: the scope guard whose destructor drains and restores; it may do the exchange in its own constructor, so it is
                # armed where its declaration completes
                gs = [di for di, li in _guard_segments(tr) if any(x.k == 'write' and (x.get('path') or '') == INSTANCE for x in tr[di:li])]
                gv = 'local:%s' % tr[gs[-1]].get('var') if gs else None
                tc = index_of(tr, lambda ev: ev.k == 'decl' and ev.get('depth', 0) == 0 and ev.get('var') == gv) if gv else -1
                dt = gs[-1:]
            # the callable is invoked while the trailer / guard is armed
            fc = index_of(tr, lambda ev: ev.k == 'call' and ev.get('depth', 0) == 0 and f['params'] and (ev.get('recv') or '') == 'param:' + f['params'][0]['name'])
            if not (ins >= 0 and 0 <= sv <= ins < tc and dt and dt[-1] > tc and (fc < 0 or tc < fc < dt[-1])):
                ok = False
        ok = ok and nlive > 0
        ctx.ob(rid, f, f['key'], ok, 'install_queue_and_call saves the previous flag by exchange, installs the thread\'s queue and arms a trailer whose destructor runs on every exit',
               desc='install_queue_and_call no longer exchange+trailer')
    uses_trailer = any(e.k == 'construct' and norm(e.get('callee')) == 'cocls::trailer::trailer' for f_ in db.fns('cocls::coro_queue::install_queue_and_call') for e in f_.events())
    for f in (db.need('cocls::trailer::~trailer')[:1] if uses_trailer or not guards else []):
        n = sum(1 for e in f.events() if e.k == 'call' and (e.get('recv') or '') == 'this->_fn')
        ctx.ob(rid, f, f['key'], n == 1 and not has_back_edge(f) and len([b for b in f['blocks'] if b.get('cond')]) == 0, 'the trailer\'s destructor calls its function exactly once, unconditionally',
               desc='trailer destructor does not call its function unconditionally once')
    for f, trs in traces_of(db, 'cocls::coro_queue::queue_impl::flush_queue', depth=0, per_instance=False, maxvisit=3):
        ctx.paths(rid, len(trs))
        bad = None
        if not has_back_edge(f):
            bad = ('the drain is not a loop: coroutines queued by the resumed ones stay un-run', [])
        for tr in trs:
            if not live(tr) or bad:
                continue
            brs = [(i, it) for i, it in enumerate(tr) if it.k == 'branch']
            if not brs:
                bad = ('drain exits without testing the queue', tr); break
            i, last = brs[-1]
            ce = cond_event(tr, i)
            if ce is None or norm(ce.get('callee') or '') != 'std::deque::empty' or last.val is not True:
                bad = ('the drain loop can exit while the queue is not known to be empty', tr); break
            for ri in all_indices(tr, is_resume):
                seg = tr[:ri]
                k = max([j for j, it in enumerate(seg) if it.k == 'branch'] or [0])
                ops = [norm(it.get('callee') or '').split('::')[-1] for it in seg[k:] if it.k == 'call' and efield(f, it) == RQ]
                if 'front' not in ops or 'pop_front' not in ops:
                    bad = ('a handle is resumed before it was removed from the head of the queue', tr); break
        ctx.ob(rid, f, f['key'], bad is None, 'drain loop: exit only when empty, front+pop_front before resume' + ('' if not bad else ' -- ' + bad[0]), desc=bad[0] if bad else None,
               trace=fmt_trace(bad[1]) if bad and bad[1] else None)


def who_writes_instance(ctx, db, rid_='C05.who-writes-instance'):
    rid = ctx.rule(rid_, 'WHO', 'the coroutine-mode flag coro_queue::instance is written only by install_queue_and_call (exchange) and by its trailer', floor=2)

    def pred(f, e):
        if e.k == 'write' and (e.get('path') or '') == INSTANCE:
            return True
        if e.k == 'call' and norm(e.get('callee')) in ('std::exchange', 'std::swap') and any((a.get('path') or '') == INSTANCE for a in e.get('args', [])):
            return True
        return False
    found = who(db, pred)
    allowed = {'cocls::coro_queue::install_queue_and_call'} | {n for n in found if n.startswith('cocls::coro_queue::install_queue_and_call(')}
    # a scope guard that install_queue_and_call puts on its stack is code of install_queue_and_call: its constructor is reached by a call
    # (who_ok follows that), its destructor runs where the variable dies - allowed when every object of the class dies in an allowed function
    for n, lst in list(found.items()):
        g = lst[0][0]
        if g.get('kind') == 'dtor' or '::~' in n:
            sites = [h for h in db.all_instances() if any(e.k == 'dtor' and e.get('callee_key') == g['key'] for e in h.events())]
            if sites and all(who_ok(db, h, allowed) for h in sites):
                allowed = allowed | {n}
    check_who(ctx, rid, found, allowed, 'write of coro_queue::instance', db=db)


# ready-queue operation -> functions allowed to perform it
RQ_OPS = {
    'push_back': {'cocls::coro_queue::queue_impl::push', 'cocls::coro_queue::resume', 'cocls::coro_queue::swap_coroutine', 'cocls::pause::await_suspend'},
    'front': {'cocls::coro_queue::queue_impl::flush_queue', 'cocls::coro_queue::swap_coroutine', 'cocls::coro_queue::resume_handle_next', 'cocls::pause::await_suspend'},
    'pop_front': {'cocls::coro_queue::queue_impl::flush_queue', 'cocls::coro_queue::swap_coroutine', 'cocls::coro_queue::resume_handle_next', 'cocls::pause::await_suspend'},
    'back': {'cocls::coro_queue::create_suspend_point'},          # takes back what fn() has just queued, newest first
    'pop_back': {'cocls::coro_queue::create_suspend_point'},
    'empty': None, 'size': None,
}


def fifo_ops(ctx, db, rid='C05.fifo-ops'):
    rid = ctx.rule(rid, 'SIBLINGS+WHO', 'the per-thread ready deque is appended only at the back and consumed only at the front, by the tabled functions; the user-level '
                   'dequeue helpers swap_coroutine / resume_handle_next have no caller inside the library (a library function that transferred into the queue head would '
                   'pre-empt the running coroutine)', floor=10)
    seen = set()
    for f in db.all_instances():
        for e in f.events():
            if e.k != 'call' or efield(f, e) != RQ:
                continue
            op = norm(e.get('callee') or '').split('::')[-1]
            site = (f['key'], e['loc'], op)
            if site in seen:
                continue
            seen.add(site)
            if op not in RQ_OPS:
                ctx.ob(rid, f, e['loc'], False, 'ready-queue operation %s is not one of the FIFO operations' % op, desc='non-FIFO operation %s on the ready queue in %s' % (op, f['nname']))
                continue
            allowed = RQ_OPS[op]
            ctx.ob(rid, f, e['loc'], allowed is None or who_ok(db, f, allowed), '%s on the ready queue from %s' % (op, f['nname']), desc='%s on the ready queue from %s' % (op, f['nname']))
    found = who(db, lambda f, e: e.k == 'call' and norm(e.get('callee')) in ('cocls::coro_queue::swap_coroutine', 'cocls::coro_queue::resume_handle_next'))
    for fname, lst in found.items():
        f, e = lst[0]
        ctx.ob(rid, f, e['loc'], False, 'no library function transfers into the head of the ready queue', desc='%s called from %s' % (norm(e['callee']), fname))
    if not found:
        ctx.ob(rid, 'cocls::coro_queue', 'src/cocls/coro_queue.h:0', True, 'no library function calls swap_coroutine / resume_handle_next')


def pause_rule(ctx, db, rid_='C05.pause-round-robin'):
    rid = ctx.rule(rid_, 'ORDER+SIBLINGS', 'pause::await_suspend and its user-level sibling coro_queue::swap_coroutine (the building block for awaiters that yield): in coroutine mode the '
                   'yielding coroutine is appended at the tail before the head is taken, the head is removed, and exactly that head is transferred to; in normal mode nothing is queued', floor=2)
    in_queue = lambda caller, ev, callee: class_of(db, callee).startswith('cocls::coro_queue')      # push()/pop() style helpers of the queue
    both = traces_of(db, 'cocls::pause::await_suspend', depth=0, inline=in_queue, per_instance=False) + traces_of(db, 'cocls::coro_queue::swap_coroutine', depth=0, inline=in_queue, per_instance=False)
    for f, trs in both:
        trs = [t for t in trs if live(t)]
        ctx.paths(rid, len(trs))
        bad = None
        for tr in trs:
            ops = [(i, norm(it.get('callee') or '').split('::')[-1], it) for i, it in enumerate(tr) if it.k == 'call' and (norm(it.get('field') or '') == RQ or (it.get('depth', 0) == 0 and efield(f, it) == RQ))]
            names = [o[1] for o in ops]
            if f['nname'].endswith('swap_coroutine') and mode_of(tr) != 'active':
                if names:
                    bad = bad or ('swap_coroutine touches the ready queue outside coroutine mode (%s)' % names, tr)
                continue
            names = [n_ for n_ in names if n_ not in ('empty', 'size')]
            was_empty = any(it.k == 'branch' and it.val is True and (lambda ce: ce is not None and ce.k == 'call' and norm(ce.get('callee') or '').endswith('::empty') and (norm(ce.get('field') or '') == RQ or efield(f, ce) == RQ))(cond_event(tr, i_))
                            for i_, it in enumerate(tr))
            if was_empty and not names and (ret_expr(tr) or '') in ('param:h', 'ctor(param:h)'):
                continue      # nothing else is ready: appending the yielding coroutine and taking the head gives the coroutine itself
            if names[:3] != ['push_back', 'front', 'pop_front'] or len(names) != 3:
                bad = bad or ('ready-queue operations are %s, expected push_back, front, pop_front' % names, tr); continue
            if re.sub(r'^(ctor|move)\((.*)\)$', r'\2', (ops[0][2].get('args') or [{}])[0].get('path') or '') != 'param:h':
                bad = bad or ('the pausing coroutine itself is not what is appended', tr)
            ret = [it for it in tr if it.k == 'return']
            o = value_origin(f, f.ev(ret[-1].get('ret_ev'))) if ret and ret[-1].get('ret_ev') is not None and f.ev(ret[-1].get('ret_ev')) is not None else None
            if not ret or not ((ret[-1].get('path') or '') == 'param:h' or (o is not None and o.get('id') == ops[1][2].get('id'))):
                pass
            wr = [it for it in tr if it.k == 'call' and norm(it.get('callee') or '').endswith('operator=') and it.get('recv') == 'param:h']
            if not wr and not (o is not None and norm(o.get('callee') or '') == 'std::deque::front') and origin_in_trace(tr, len(tr), resolve_select(ret_expr(tr) or '', tr))[0] != 'call(std::deque::front)':
                bad = bad or ('the coroutine transferred to is not the head taken from the queue', tr)
        ctx.ob(rid, f, f['key'], bad is None, 'push_back(self) < front < pop_front, transfer to the head' + ('' if not bad else ' -- ' + bad[0]), desc=bad[0] if bad else None,
               trace=fmt_trace(bad[1]) if bad else None)


def resumed_once(ctx, db):
    """each queued coroutine is resumed exactly once: the carriers of ready handles hand them over linearly (shared with C06)"""
    from . import C06
    C06.source_reset(ctx, db, 'C05.handles-handed-over-once')


# call sites of install_queue_* that need no local test of the mode, one reason each
INSTALL_UNGUARDED = {
    'cocls::coro_queue::install_queue_and_resume': 'the wrapper itself: its callers are the sites that are checked',
    'cocls::coro_queue::initial_awaiter::await_suspend': 'guarded by the awaiter protocol: await_ready() answers is_active(), so await_suspend runs only in normal mode (the sibling is checked)',
    'cocls::scheduler::start': 'blocking entry point for normal code: it installs a queue for the calling thread while it runs the scheduler loop',
}


def _answers_active(tr):
    """does the root function answer "coroutine mode is active" on this trace: the call of is_active, the mode flag compared with null in any
    spelling - written in place, kept in a bool local first, or returned by an expanded helper -, or a constant on a path whose own mode test
    agrees with it (if (instance) return true; return false;)"""
    e = ret_expr(tr) or ''
    o = origin_in_trace(tr, len(tr), e)[0] or ''
    for x in (e, o):
        if x.endswith('is_active)') or says_nonnull(x, INSTANCE):
            return True
    c = ret_const(tr)
    m = mode_of(tr)
    if c is not None and m is not None:
        return bool(c) == (m == 'active')
    return False


def install_only_inactive(ctx, db, rid_='C05.install-only-inactive'):
    """a nested install_queue_* shares the thread's single ready queue: its trailer drains everything that is queued, in the middle of the
    running coroutine.  So every site that installs a queue does so on the normal-mode edge of a mode test"""
    rid = ctx.rule(rid_, 'WHO+PATHS', 'every call of install_queue_and_call / install_queue_and_resume in the library lies on the edge where coroutine mode tested '
                   'inactive (a nested activation drains the whole ready queue inside the running coroutine); the tabled unguarded sites are the wrapper, the initial awaiter '
                   '(guarded by await_ready = is_active) and the blocking scheduler::start', floor=5)
    T = htracer(db, extra=inline_only('cocls::coro_queue::is_active'))
    seen = set()
    for f in db.all_instances():
        if f['key'] in seen:
            continue
        sites = [e for e in f.events() if e.k == 'call' and norm(e.get('callee')) in INSTALL]
        if not sites:
            continue
        seen.add(f['key'])
        root = f
        while root.get('lambda') and root.get('parent_key') and db.get(root['parent_key']) is not None:
            root = db.get(root['parent_key'])
        why = INSTALL_UNGUARDED.get(f['nname']) or INSTALL_UNGUARDED.get(root['nname'])
        if not why and root.get('access') != 0:
            # code extracted from a tabled function into a non-public helper that only that function reaches is still that function's site
            why = next((w_ for n_, w_ in sorted(INSTALL_UNGUARDED.items()) if n_ != INSTALL[1] and not n_.endswith('initial_awaiter::await_suspend') and only_reached_from(db, root['nname'], {n_})), None)
        if why:
            ok = True
            if f['nname'].endswith('initial_awaiter::await_suspend'):
                sib = db.fns('cocls::coro_queue::initial_awaiter::await_ready')
                ok = bool(sib) and all(_answers_active(tr) for tr in T.traces(sib[0]) if live(tr))
            ctx.ob(rid, f, sites[0]['loc'], ok, 'unguarded by table: ' + why, desc='initial awaiter no longer guarded by await_ready = is_active')
            continue
        # a non-public helper of a class that is reached only from members of that class is judged inside its callers (it is expanded there)
        roots_ = [f]
        if not f.get('lambda') and f.get('access') != 0:
            cs_ = [g for g in db.all_instances() if any(x.k == 'call' and x.get('callee_key') == f['key'] for x in g.events()) and is_helper(db, g, f)]
            if cs_ and len({g['key'] for g in cs_}) == len({c for c in callers_of(db, f['nname'])}):
                roots_ = list({g['key']: g for g in cs_}.values())
        trs = [t for r_ in roots_ for t in T.traces(r_) if live(t) and consistent(t)]
        ctx.paths(rid, len(trs))
        for e in sites:
            bad = None; n = 0
            for tr in trs:
                i = index_of(tr, lambda ev: ev.k == 'call' and ev.get('id') == e['id'] and ev.get('fn') == f['key'])
                if i < 0:
                    continue
                n += 1
                if mode_of(tr[:i]) != 'inactive':
                    bad = bad or tr
            ctx.ob(rid, f, e['loc'], bad is None and n > 0, 'a queue is installed only after coroutine mode tested inactive', desc='install_queue_* on a path that may be in coroutine mode',
                   trace=fmt_trace(bad) if bad else None)
