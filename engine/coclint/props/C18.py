# C18 - callback adapters fire exactly once with the right outcome
import re
from ..core import norm, relloc, live, calls, evs, Broken, value_origin, Tracer, fmt_trace, rooted, has_back_edge, cond_event, local_env, subst_path
from .. import publish, witness
from ..rules import *
from . import C02

EXPLANATION = ('Static analysis of the completion adapters: the six future_conv resume functions are compared as siblings - each moves the parked promise into a local declared '
               'outside its try block first, resolves that local exactly once on the normal path (or hands it by reference to the user\'s converter, the two promise& shapes), and '
               'resolves that same local exactly once with current_exception() on the catch(...) path reached from every may-throw event of the try block; all six have the '
               'catch-all; the self-owning helpers run their callback exactly once and delete themselves exactly once with nothing touched afterwards (future_with_cb, '
               'discard::Awt, connect-style awaiters are in C15); callback_await_coro calls the callback exactly once on the value path and once on the exception path; no '
               'adapter discards the "registered?" answer and a refused registration completes immediately; an adapter is not touched after its awaiter was published; '
               'future_with_cb is deleted through a virtual destructor so a custom storage\'s operator delete is used. Undecided: outcome values, timing classes as behaviour.')
ASSUMPTIONS = ['promise::operator() and awaiter::resume do not throw', 'exception edges leave a try block before the throwing event completes (DESIGN 3.3)']

PROM_CALL = ('cocls::promise::operator()', 'cocls::promise::set_value', 'cocls::promise::set_exception')


def run(ctx, db, tier):
    conv_siblings(ctx, db)
    self_owning(ctx, db)
    callback_coro(ctx, db)
    C02.result_used(ctx, db, 'C18.result-used', {'cocls::future_common::subscribe', 'cocls::co_awaiter::subscribe', 'cocls::awaiter::subscribe_check_ready'}, floor=4)
    refused_completes(ctx, db)
    C02.subscribe_protocol(ctx, db, 'C18.reusable-after-refusal')
    summ = publish.Summaries(db)
    publish.check_no_touch(ctx, db, 'C18.publish-discipline', summ, functions=None, per_instance=False, floor=12)
    virtual_delete(ctx, db)
    callback_coro_owns_arguments(ctx, db)
    # a completion registered through make_promise lives in the promise handle: overwriting or destroying the handle must fire it (with the
    # broken-promise state) and release the helper; re-arming a converter assigns into its parked promise member the same way
    from . import C01
    C01.dtor_and_assign(ctx, db, 'C18.abandoned-completion-fires')


def _conv_lambdas(db):
    """keys of the resume functions of the future_conv shapes: the lambdas handed to the base constructor, or named static members used instead"""
    out = set()
    for k in db.keys():
        f = db.rep(k)
        if f.get('lambda') and '/future_conv.h' in k and 'future_conv::future_conv' in f['nname']:
            if f.get('encl_key'):
                continue       # a closure inside the resume function (handed to a helper): part of its body, not a resume function
            out.add(k)
    for g in resume_bodies(db, 'cocls::future_conv::future_conv'):
        if '/future_conv.h' in g['key'] and not g.get('encl_key'):
            out.add(g['key'])
    return sorted(out)


def may_throw(ev):
    if ev.k == 'call' and not ev.get('nothrow') and norm(ev.get('callee') or '') not in PROM_CALL + ('std::move', 'std::forward'):
        return True
    if ev.k == 'call' and not ev.get('callee'):
        return True      # call through a function / member pointer: the user's converter
    return False


def conv_siblings(ctx, db):
    rid = ctx.rule('C18.conv-siblings', 'SIBLINGS+COUNT', 'each of the future_conv resume functions: the parked promise is moved into a local declared before (outside) the try block; normal path: '
                   'that local is called exactly once, or passed by reference to the converter; catch(...) path (exception edges from every may-throw event inside the try): that '
                   'same local is called exactly once with current_exception(); a catch-all handler exists', floor=6)
    keys = _conv_lambdas(db)
    if len(keys) < 6:
        raise Broken('future_conv resume functions instantiated: %d of 6 (drivers must instantiate all shapes)' % len(keys))
    # the try/catch may have been factored into a helper that is handed the promise and a closure computing the value
    # (_details::resolve_by_result(p, [&] { return fn(...); })): helpers and the closures handed to them are expanded, exception edges included
    T = htracer(db, exc=may_throw)
    for k in keys:
        seen_bad = None
        for lf in db.instances(k):
            evl = list(lf.events())
            has_catch = any((b.get('label') or {}).get('kind') == 'catch' and (b['label'].get('type') == '...') for g in [lf] + helper_bodies(db, lf) for b in g['blocks'])
            pref = next((e for e in evl if e.k == 'decl' and e.get('ref') and 'promise<' in (e.get('type') or '') and '_prom' in (e.get('init') or '')), None)
            # the initialiser read through reference / pointer locals: promise<To> &stored = static_cast<future_conv *>(me)->_prom; promise<To> p = std::move(stored);
            lenv = local_env(lf)
            def _ini(e):
                return subst_path(e.get('init') or '', lenv)
            pdecl = next((e for e in evl if e.k == 'decl' and not e.get('ref') and not e.get('ptr') and 'promise<' in (e.get('type') or '') and ('_prom' in _ini(e) or 'take_promise' in _ini(e) or re.search(r'call\(cocls::future_conv_promise_base::\w+\)', _ini(e)))), None)
            bad = None
            if not has_catch:
                bad = 'no catch(...) handler: an exception thrown by the source or the converter escapes a noexcept resume function (terminate) and the outer future is never resolved'
            elif pdecl is None and pref is not None:
                bad = 'the resume function works on the parked member promise through a reference (%s) instead of a moved-out local: a promise the handler leaves untouched is never dropped and the outer future stays pending' % pref.get('var')
            elif pdecl is None:
                bad = 'the parked promise is not moved into a local first'
            elif pdecl.get('try') is not None:
                bad = 'the local promise lives inside the try block: it is destroyed (dropping the outer future) before the handler can deliver the exception'
            else:
                pv = 'local:' + pdecl['var']
                # a local initialised by a call is named by that call on the expanded paths (promise<To> p = _this->take_promise();)
                pvs = {pv, lenv.get(pv, pv)}
                trs = T.traces(lf)
                ctx.paths(rid, len(trs))
                nexc = 0
                for tr in trs:
                    if not live(tr):
                        continue
                    exc = any(it.k == 'exception' for it in tr)
                    pc = [c for c in calls(tr) if norm(c.get('callee')) in PROM_CALL]
                    mine = [c for c in pc if (c.get('recv') in pvs or c.get('orecv') == pv)]
                    deleg = [c for c in calls(tr) if c.k == 'call' and any(a.get('path') in pvs or a.get('opath') == pv for a in c.get('args', [])) and norm(c.get('callee') or '') not in PROM_CALL and norm(c.get('callee') or '') not in ('std::move',) and not c.get('expanded')]
                    if exc:
                        nexc += 1
                        # events before the throw that already resolved would make it twice
                        if len(mine) != 1 or len(pc) != 1:
                            bad = bad or 'on an exception path the outer promise is resolved %d times through the local (%d promise calls in total)' % (len(mine), len(pc))
                        elif not any('current_exception' in (a.get('path') or '') for a in mine[0].get('args', [])):
                            bad = bad or 'the handler does not deliver current_exception()'
                    else:
                        if len(mine) + (1 if deleg else 0) != 1 or len(pc) != len(mine):
                            bad = bad or 'on the normal path the outer promise is resolved %d times and delegated %d times' % (len(mine), len(deleg))
                if nexc == 0 and not bad:
                    bad = 'no exception path reaches the handler'
            if bad:
                seen_bad = (lf, bad)
        lf0 = db.rep(k)
        ctx.ob(rid, lf0, lf0['key'], seen_bad is None, 'resume function of the future_conv shape at %s resolves the outer promise exactly once on every path' % relloc(k) + ('' if not seen_bad else ' -- ' + seen_bad[1]),
               desc=(seen_bad[1][:110] if seen_bad else None), inst=(seen_bad[0]['inst'] if seen_bad else None))


def self_owning(ctx, db):
    rid = ctx.rule('C18.self-owning', 'COUNT+NO-TOUCH', 'self-owning helpers: the resume function of future_with_cb calls the callback exactly once and then deletes the helper exactly once, touching '
                   'nothing afterwards; discard\'s awaiter deletes itself exactly once in its resume function', floor=2)
    T = Tracer(db, depth=0)
    lams = resume_bodies(db, 'cocls::future_with_cb::future_with_cb')
    if not lams:
        raise Broken('resume function of future_with_cb not found')
    seen = set()
    for lf in lams:
        if lf['key'] in seen:
            continue
        seen.add(lf['key'])
        trs = [t for t in T.traces(lf) if live(t)]
        ctx.paths(rid, len(trs))
        bad = None
        for tr in trs:
            cb = all_indices(tr, lambda ev: ev.k == 'call' and (ev.get('recv') or '').endswith('->_fn'))
            dl = all_indices(tr, lambda ev: ev.k == 'delete')
            if len(cb) != 1 or len(dl) != 1:
                bad = bad or ('callback called %d times, helper deleted %d times' % (len(cb), len(dl)), tr); continue
            if cb[0] > dl[0]:
                bad = bad or ('the helper is deleted before its callback runs', tr)
            obj = tr[dl[0]].get('path')
            for it in tr[dl[0] + 1:]:
                p = it.get('path') or it.get('recv') or ''
                if it.k in ('read', 'write', 'call') and obj and rooted(p, obj) and p != obj:
                    bad = bad or ('the helper is touched after it deleted itself', tr)
            a = (tr[cb[0]].get('args') or [{}])[0].get('path') or ''
            if obj and obj not in a:
                bad = bad or ('the callback does not receive the helper\'s own future', tr)
        ctx.ob(rid, lf, lf['key'], bad is None, 'future_with_cb: callback once, then delete once, nothing after' + ('' if not bad else ' -- ' + bad[0]), desc=bad[0] if bad else None)
    # the resume function of discard's awaiter: whatever its constructor installs (a named static member or a capture-less lambda)
    # found by what the code does, not by a name: the object discard() creates with new is an awaiter (a class local to discard or a named class
    # elsewhere - detail::discarded_future<Fn>); the function its constructor installs as resume function is the one that must delete it
    ctors = []
    for g in [x for x in db.all_instances() if x['nname'] == 'cocls::discard' and not x.get('lambda')]:
        if not any(e.k == 'new' for e in g.events()):
            continue
        for e in g.events():
            c = db.resolve(g, e['callee_key'], e.get('callee_inst')) if e.k == 'construct' and e.get('callee_key') else None
            if c is not None and c.get('kind') == 'ctor' and derives(db, class_of(db, c), 'cocls::awaiter') and (c['key'], c.get('inst')) not in {(x['key'], x.get('inst')) for x in ctors}:
                ctors.append(c)
    if not ctors:
        ctors = [f for f in db.all_instances() if f['nname'].startswith('cocls::discard') and f['nname'].endswith('::Awt::Awt')]
    fins = resume_bodies(db, ctors) or [f for f in db.all_instances() if f['nname'].startswith('cocls::discard') and f['nname'].endswith('::fin')]
    if not fins:
        raise Broken('the resume function of the self-deleting awaiter that discard() allocates was not found (%d constructor(s) of an awaiter class created by discard)' % len(ctors))
    f = fins[0]
    dl = [e for e in f.events() if e.k == 'delete']
    ctx.ob(rid, f, f['key'], len(dl) == 1 and not has_back_edge(f), 'discard\'s awaiter deletes itself exactly once', desc='discard::Awt::fin does not delete exactly once')
    # the awaiter is created by new and nothing else frees it
    for g in [x for x in db.all_instances() if x['nname'] == 'cocls::discard' and not x.get('lambda')][:1]:
        nw = [e for e in g.events() if e.k == 'new']
        dd = [e for e in g.events() if e.k == 'delete']
        ctx.ob(rid, g, g['key'], len(nw) == 1 and not dd, 'discard allocates its helper once and leaves freeing to the helper', desc='discard allocation/free mismatch')


def _in_catch(tr, item):
    """is the event lexically inside a catch handler, itself or through the expanded local helpers that enclose it?"""
    if item.get('in_catch'):
        return True
    i = next((k for k, x in enumerate(tr) if x is item), -1)
    depth = 0
    for x in reversed(tr[:i]):
        if x.k == 'leave':
            depth += 1
        elif x.k == 'enter':
            if depth == 0:
                if x.ev.get('in_catch'):
                    return True
            else:
                depth -= 1
    return False


def callback_coro(ctx, db):
    rid = ctx.rule('C18.callback-once', 'COUNT', 'callback_await_coro: the callback is invoked exactly once on the path where the awaited expression produces a value and exactly once on every path where '
                   'the awaited expression (or the callback on the value path) throws; a catch-all exists', floor=1)
    fns = db.fns('cocls::_details::callback_await_coro')
    if not fns:
        raise Broken('callback_await_coro not instantiated')
    # the invocation may be handed to a small reporter function that receives the callback (reporter::value(fn, &co_await awt), reporter::failed(fn)):
    # whatever library function is handed the callback itself is expanded, the callback is then invoked under the coroutine's own parameter
    def handed_callback(caller, ev, callee):
        if callee.get('coroutine'):
            return False
        for a in ev.get('args') or []:
            m = re.fullmatch(r'(?:move|forward)\((.*)\)', a.get('path') or '')
            if (m.group(1) if m else a.get('path')) == cbname[0]:
                return True
        return False
    cbname = ['param:fn']
    T = htracer(db, extra=handed_callback, exc=lambda ev: ev.k == 'co_await' and not ev.get('implicit_await'))
    seen_bad = None; n = 0
    for f in fns:
        if len(f.get('params') or []) > 1 and f['params'][1].get('name'):
            cbname[0] = 'param:' + f['params'][1]['name']          # callback_await_coro(Alloc &, Fn fn, Args ... args)
        cbp = cbname[0]
        has_catch = any((b.get('label') or {}).get('kind') == 'catch' and b['label'].get('type') == '...' for b in f['blocks'])
        if not has_catch:
            seen_bad = (f, 'no catch(...) handler'); continue
        trs = T.traces(f)
        ctx.paths(rid, len(trs))
        for tr in trs:
            if not live(tr):
                continue
            n += 1
            cb = [c for c in calls(tr) if c.k == 'call' and (c.get('recv') == cbp or re.match(re.escape(cbp) + r'(?!\w)', c.get('callee_expr') or ''))]
            if len(cb) != 1:
                seen_bad = seen_bad or (f, 'the callback runs %d times on a path (%s)' % (len(cb), 'exception' if any(it.k == 'exception' for it in tr) else 'value'))
            elif any(it.k == 'exception' for it in tr) and not _in_catch(tr, cb[0]):
                # the exceptional await_result rethrows with a bare `throw;`: that needs an exception being handled, i.e. the callback
                # has to run inside the handler
                seen_bad = seen_bad or (f, 'on the exception path the callback runs outside the catch handler: await_result::get() rethrows the current exception with `throw;`, which terminates when no exception is being handled')
    f0 = fns[0]
    ctx.ob(rid, f0, f0['key'], seen_bad is None and n > 0, 'callback exactly once per outcome (%d instantiations)' % len(fns) + ('' if not seen_bad else ' -- ' + seen_bad[1]),
           desc=seen_bad[1] if seen_bad else None, inst=(seen_bad[0]['inst'] if seen_bad else None))


def _sites_behind(db, T, name, depth=3):
    """the entry point may hand the work to a callable object of a named class instead of a lambda (return Starter<Fn>{*this, fn}; - the future's
    constructor, a template over the callable, invokes its call operator): the call graph is followed from `name` through such library
    templates, and the first functions of the entry point's own class family (is_helper) whose expanded paths complete the adapter are the sites"""
    roots = db.fns(name, lambdas=True)
    seen = set(); level = [(r, r) for r in roots[:24]]
    for _ in range(depth):
        nxt = []; found = []
        for root, g in level:
            for e in g.events():
                if e.k not in ('call', 'construct') or not e.get('callee_key'):
                    continue
                c = db.resolve(g, e['callee_key'], e.get('callee_inst'))
                if c is None or (c['key'], c.get('inst')) in seen or c.get('coroutine'):
                    continue
                seen.add((c['key'], c.get('inst')))
                if is_helper(db, root, c):
                    if any(it.k == 'call' and norm(it.get('callee')) == 'cocls::awaiter::resume' for tr in T.traces(c) for it in tr):
                        found.append(c)
                    else:
                        nxt.append((root, c))
                elif g is root or is_helper(db, root, g):
                    nxt.append((root, c))      # a foreign function called by the family (the future's constructor): looked through once
        if found:
            return found
        level = nxt
    return []


def refused_completes(ctx, db):
    rid = ctx.rule('C18.refused-completes-now', 'PATHS', 'future_conv (both entry forms), call_fn_future_awaiter and discard: when the source future refuses the registration (already resolved) the '
                   'adapter\'s resume() is called at once on exactly that edge, and never on the registered edge', floor=4)
    T = htracer(db)
    targets = []
    for name in ('cocls::future_conv_promise_base::operator<<', 'cocls::future_conv_promise_base::Hlp::operator<<', 'cocls::call_fn_future_awaiter::operator<<', 'cocls::discard'):
        fs = [f for f in db.fns(name, lambdas=True)] + lambdas_of(db, name)
        fs = [f for f in fs if any(e.k == 'call' and norm(e.get('callee')) == 'cocls::awaiter::resume' for e in f.events())] or \
             [f for f in sorted(fs, key=lambda g: not g.get('lambda'))[:24] if any(e.k == 'call' for e in f.events()) and any(it.k == 'call' and norm(it.get('callee')) == 'cocls::awaiter::resume' for tr in T.traces(f) for it in tr)]
        if not fs:
            fs = _sites_behind(db, T, name)
        if not fs:
            raise Broken('no immediate-completion site found in ' + name)
        targets.append((name, fs))
    for name, fs in targets:
        bad = None
        for f in fs[:3]:
            trs = [t for t in T.traces(f) if live(t)]
            ctx.paths(rid, len(trs))
            for tr in trs:
                rs = all_indices(tr, callee_is('cocls::awaiter::resume'))
                reg = None
                for i, it in enumerate(tr):
                    if it.k == 'branch':
                        ce = cond_event(tr, i)
                        if ce is not None and ce.k == 'call' and norm(ce.get('callee')) in ('cocls::future_common::subscribe', 'cocls::co_awaiter::subscribe'):
                            reg = bool(it.val)
                        elif re.fullmatch(r'local:\w+', it.path or ''):
                            reg = bool(it.val) if reg is None else reg
                if reg is False and len(rs) != 1:
                    bad = bad or ('a refused registration does not complete immediately', tr)
                if reg is True and rs:
                    bad = bad or ('the adapter completes immediately although it was registered (it would fire twice)', tr)
                if reg is None and rs:
                    bad = bad or ('immediate completion without testing the registration result', tr)
        f0 = fs[0]
        ctx.ob(rid, f0, f0['key'], bad is None, '%s: resume() iff refused' % name.split('::', 1)[1] + ('' if not bad else ' -- ' + bad[0]), desc=bad[0] if bad else None, trace=fmt_trace(bad[1]) if bad else None)


def virtual_delete(ctx, db):
    rid = ctx.rule('C18.virtual-delete', 'TYPE', 'future_with_cb is deleted through its own static type while custom_allocator_base<Storage, future_with_cb> supplies a class-specific operator delete: '
                   'the destructor must be virtual or the storage\'s dealloc is bypassed', floor=1)
    cs = db.class_insts('cocls::future_with_cb')
    if not cs:
        raise Broken('future_with_cb not instantiated')
    ctx.ob(rid, 'cocls::future_with_cb', cs[0]['loc'], all(c.get('virtual_dtor') for c in cs), 'future_with_cb has a virtual destructor (%d instantiations)' % len(cs), desc='future_with_cb destructor is not virtual')
    if ctx.cfg == 'assert':
        witness.positive(ctx, 'C18.types', 'C18_pos.cpp', 'future_with_cb has a virtual destructor; the storage variant derives from it and declares operator delete; adapters are awaiters')


def callback_coro_owns_arguments(ctx, db):
    """callback_await runs the awaited expression inside a helper coroutine.  Registered from a running coroutine the helper's start is only
    queued: by the time it runs, the registering expression - and every temporary in it - is gone.  What the helper needs it must own"""
    rid = ctx.rule('C18.callback-coroutine-owns-its-arguments', 'TYPE', '_details::callback_await_coro (the coroutine behind callback_await / callback_await_alloc): the callback and every argument of the '
                   'awaited expression are taken by value (copied / moved into the frame); only the allocator is a reference', floor=1)
    seen = set()
    for f in db.need('cocls::_details::callback_await_coro'):
        if f['key'] in seen:
            continue
        # as declared in the template (an explicit reference type argument - callback_await<Awt &> - is the caller's decision)
        refs = [p['name'] + ': ' + p['type'] for p in (f.get('pattern_params') or f['params'])[1:] if re.sub(r'\.\.\.$', '', p['type'].rstrip()).rstrip().endswith('&')]
        if refs or f['key'] not in seen:
            seen.add(f['key'])
            ctx.ob(rid, f, f['key'], not refs, 'callback and arguments are owned by the frame' + ('' if not refs else ' -- by reference: ' + ', '.join(refs)),
                   desc='callback_await_coro keeps references to the caller\'s temporaries (%s)' % ', '.join(r.split(':')[0] for r in refs) if refs else None, inst=f.get('inst'))
