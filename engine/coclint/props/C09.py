# C09 - awaitable queue: each item delivered exactly once, in order   (rules shared with C10)
import re
from ..core import norm, relloc, live, calls, evs, Broken, value_origin, Tracer, fmt_trace, rooted, has_back_edge, efield, pos
from .. import locks
from ..rules import *
from .. import atomic
from .tables import GUARDED

EXPLANATION = ('Static analysis of the hand-over discipline of queue<T>: on every CFG path of every instantiation (including queue<void> and the single-item queue) a pushed item '
               'reaches exactly one sink - the promise of the oldest waiting pop, taken from the waiter queue by front()+pop() exactly once, or the item queue - and the item '
               'queue is used only on the edge where no consumer waits; a pop either parks its promise on the empty edge or resolves it from front() followed by exactly one '
               'pop(); unblock_pop takes exactly one waiter and fails exactly it; front()/pop() only under a non-empty fact; a promise taken out of the waiter queue is '
               'resolved only after the lock is released (its waiter is user code); every access to the queues is under the mutex (must-lockset); no forwarding reference is '
               'forwarded twice on a path; waiting pops are held as promise<T> values (destruction cancels them). FIFO order rests on std::queue and is not re-proved; '
               'per-producer order with several consumers and conservation as values are not decided.')
ASSUMPTIONS = ['std::queue is FIFO', 'promise<T> destruction resolves to no-value (C01.dtor-resolves)']

ITEMS = 'cocls::queue::_queue'
WAITERS = 'cocls::queue::_awaiters'
BLOCKED = 'cocls::limited_queue::_blocked'
PROM_CALL = ('cocls::promise::operator()', 'cocls::promise::set_value', 'cocls::promise::set_exception')


def op(ev):
    return norm(ev.get('callee') or '').split('::')[-1]


def on(ev, fld, f=None):
    return ev.k == 'call' and (norm(ev.get('field') or '') == fld or (f is not None and efield(f, ev) == fld))


def run(ctx, db, tier):
    push_linear(ctx, db, 'C09.item-linear-push', 'cocls::queue::push')
    pop_linear(ctx, db, 'C09.item-linear-pop', 'cocls::queue::pop')
    unblock(ctx, db, 'C09.unblock-pop', 'cocls::queue::unblock_pop', WAITERS)
    nonempty(ctx, db, 'C09.never-empty-access', ['cocls::queue'])
    single_slot(ctx, db, 'C09.single-slot-refuses')
    from . import C02
    atomic.check_roles(ctx, db, 'C09.handed-item-visible', only_functions=C02.RESULT_VISIBILITY_FUNCTIONS, floor=8)
    resolve_outside_lock(ctx, db, 'C09.resolve-outside-lock', ['cocls::queue::push', 'cocls::queue::unblock_pop'])
    locks.check_guarded(ctx, db, 'C09.locks', {k: v for k, v in GUARDED.items() if k.startswith('cocls::queue::')}, ['cocls::queue'], per_instance=True, floor=5)
    forward_once(ctx, db, 'C09.forward-once')
    held_by_value(ctx, db, 'C09.cancel-by-destruction')
    void_counter(ctx, db, 'C09.void-counter')
    # the pop's future is awaited through the generic awaiter protocol; the bounded variant shares the item queue
    C02.subscribe_protocol(ctx, db, 'C09.reused-awaiter-registers')
    C02.sync_waits(ctx, db, 'C09.blocking-pop-waits')
    from . import C10
    C10.pop_refill(ctx, db, 'C09.limited-pop-delivers-and-readmits')


def _peel(p):
    """'!(!(x))' -> ('x', negated?)"""
    p = p or ''; neg = False
    while p.startswith('!(') and p.endswith(')') and p.count('(') == p.count(')'):
        p = p[2:-1]; neg = not neg
    return p, neg


def select_outcomes(tr, upto=None):
    """{condition text as written: truth value} of the conditional expressions (c ? a : b) evaluated on this trace before position upto.  The CFG
    branches on the condition, evaluates the chosen arm (which may contain a nested conditional) and then reaches the `select` event of the
    expression, so branches and select events pair like brackets; a pair whose texts do not agree is left out (unknown)"""
    known = {}; stack = []
    for it in (tr if upto is None else tr[:upto]):
        if it.k == 'branch' and it.get('term') == 'ConditionalOperator':
            stack.append(it)
        elif it.k == 'select' and it.get('cond'):
            while stack and (stack[-1].get('depth', 0) > it.get('depth', 0)):
                stack.pop()
            if not stack or stack[-1].get('depth', 0) != it.get('depth', 0) or stack[-1].get('fn') != it.get('fn'):
                continue
            br = stack.pop()
            c, neg = _peel(it['cond'])
            val = None
            for p_, v_ in list((br.get('forms') or {}).items()) + [(br.get('opath'), br.get('oval', br.val)), (br.get('path'), br.val)]:
                q, n2 = _peel(p_)
                if p_ and q == c:
                    val = (bool(v_) != n2) != neg
            if val is not None:
                known[it['cond']] = val
    return known


def select_value(tr, upto, expr):
    """the arm a (nested) conditional expression took on this trace, None when a condition was not decided by a recognised branch"""
    known = select_outcomes(tr, upto)
    for _ in range(8):
        m_ = re.fullmatch(r'(?:ctor|move|forward)\((\(.* \? .* : .*\))\)', expr or '')
        if m_:
            expr = m_.group(1)
        sp = split_select(expr or '')
        if not sp:
            return expr
        if sp[0] not in known:
            return None
        expr = sp[1] if known[sp[0]] else sp[2]
    return None


def feasible(trs):
    """drop the traces that follow a `case` the switched value cannot have on that path: `const route r = a ? A : b ? B : C; switch (r)` - the
    enumerator is fixed by the branches of the conditional expression, the path enumerator nevertheless walks every label from every path.
    A value that is not decided on the path (or is no enumerator) keeps the trace."""
    labels = {}
    for tr in trs:
        for it in tr:
            if it.k == 'switch' and (it.get('label') or {}).get('kind') == 'case':
                labels.setdefault((it.get('fn'), it.get('block'), it.get('depth', 0)), set()).add((it['label'].get('text'), it['label'].get('const')))
    if not labels:
        return trs
    out = []
    for tr in trs:
        ok = True
        for i, it in enumerate(tr):
            if it.k != 'switch':
                continue
            expr = it.get('path') or ''
            if re.fullmatch(r'local:\w+(#\d+)?', expr):
                d = next((x for x in reversed(tr[:i]) if x.k == 'decl' and x.get('var') == expr), None)
                if d is None or not d.get('init') or any(x.k == 'write' and x.get('path') == expr for x in tr[pos(tr, d):i]):
                    continue
                v = select_value(tr, pos(tr, d), d['init']) if split_select(d['init']) else None
            else:
                v = select_value(tr, i, expr) if split_select(expr) else None
            if not v or not v.startswith('decl:'):
                continue
            cases = labels.get((it.get('fn'), it.get('block'), it.get('depth', 0)), set())
            lab = it.get('label') or {}
            if lab.get('kind') == 'case':
                ok = ok and lab.get('text') == v
            else:
                ok = ok and all(t != v for t, _ in cases)
        if ok:
            out.append(tr)
    return out


def _class_type(t):
    return re.sub(r'^(?:const\s+)?(?:struct|class)\s+', '', (t or '').strip())


def callable_bodies(db, f, arg):
    """the bodies a callable argument runs when it is invoked: the closure behind lambda@<key>, or - when the argument is an object of a class
    of the library with call operators (a maintainer turned the lambda into a named functor) - those operators, in the instantiation the
    argument's type names"""
    p = arg.get('opath') or arg.get('path') or ''
    m = re.search(r'lambda@(\S+?)\)*$', p)
    if m:
        return list(db.closure_instances(f, m.group(1)))
    t = _class_type(arg.get('type'))
    if not t or t.startswith('std::') or '(lambda at ' in t:
        return []
    idx = db.__dict__.get('_call_operators')
    if idx is None:
        # call operators of named classes of the library, by the instantiated class they belong to
        idx = {}
        for g in db.all_instances():
            if not g.get('lambda') and g['nname'].startswith('cocls::') and g['nname'].endswith('::operator()') and (g.get('inst') or '').endswith('::operator()'):
                idx.setdefault(g['inst'][:-len('::operator()')], []).append(g)
        db.__dict__['_call_operators'] = idx
    if t in idx:
        return list(idx[t])
    # the type as written may lack the enclosing scopes (event_visitor<false> for cocls::scheduler::event_visitor<false>)
    cands = [k for k in idx if k.endswith('::' + t)]
    return list(idx[cands[0]]) if len(cands) == 1 else []


def initializer_bodies(db, name):
    """the code that runs when the future returned by `name` is constructed: the lambdas defined in `name`, and the call operators of functor
    objects `name` hands to the future's constructor"""
    out = list(lambdas_of(db, name)); seen = {(g['key'], g.get('inst')) for g in out}
    for f in db.fns(name):
        for e in f.events():
            if e.k == 'construct' and norm(e.get('callee')) == 'cocls::future::future':
                for a in e.get('args', []):
                    if (a.get('opath') or a.get('path') or '').startswith('lambda@'):
                        continue
                    for g in callable_bodies(db, f, a):
                        if (g['key'], g.get('inst')) not in seen:
                            seen.add((g['key'], g.get('inst'))); out.append(g)
    return out


def _root_origin(f, x, depth=8):
    """follow a value (event or access path) back through moves, copies, single-definition locals and members of such locals
    (front.second) to the container access that produced it"""
    from ..core import var_def
    if depth == 0 or x is None:
        return None
    if isinstance(x, str):
        m = re.match(r'(local:\w+)', x)
        if not m:
            return None
        d = var_def(f, m.group(1))
        if d is None:
            return None
        if d.get('init_ev') is not None and f.ev(d['init_ev']) is not None:
            return _root_origin(f, f.ev(d['init_ev']), depth - 1)
        return _root_origin(f, d.get('init') or '', depth - 1)
    e = x
    if e.k == 'call' and op(e) in ('front', 'back', 'top') and e.get('field'):
        return e
    if (e.k == 'call' and norm(e.get('callee')) in ('std::move', 'std::forward')) or (e.k == 'construct' and e.get('args')):
        a = (e.get('args') or [{}])[0]
        if a.get('ev') is not None and f.ev(a['ev']) is not None and f.ev(a['ev']) is not e:
            r = _root_origin(f, f.ev(a['ev']), depth - 1)
            if r is not None:
                return r
        return _root_origin(f, a.get('path') or '', depth - 1)
    if e.k in ('use', 'read'):
        return _root_origin(f, e.get('path') or '', depth - 1)
    return None


def _taken_from(f, ev, fld):
    """is the receiver of this promise call (a part of) a local that was taken from <fld>.front() ?"""
    o = None
    if ev.get('recv_ev') is not None and f.ev(ev.get('recv_ev')) is not None:
        o = _root_origin(f, f.ev(ev['recv_ev']))
    if o is None:
        o = _root_origin(f, ev.get('orecv') or ev.get('recv') or '')
    return o is not None and norm(o.get('field') or '') == fld


def _own(c):
    """is the promise called the analysed function's own promise parameter (paths of inlined helpers are substituted to the root's)?"""
    r = c.get('recv') or ''
    return bool(re.match(r'param:\w+', r)) and c.get('depth', 0) >= 0 and not r.startswith('param:p#')


def _foreign(c):
    """a promise that is not the function's own parameter: it was taken out of a container of parked operations"""
    return norm(c.get('callee')) in PROM_CALL and not _own(c)


def push_linear(ctx, db, rid, name):
    ctx.rule(rid, 'COUNT', 'queue::push: on every path the forwarded item reaches exactly one sink: the promise of the oldest waiting pop (obtained by front() then exactly one pop() '
             'of the waiter queue, only on its non-empty edge) or emplace into the item queue (only on the edge where no pop waits)', floor=1)
    for f, trs in traces_of(db, name, depth=0, per_instance=True):
        trs = feasible([t for t in trs if live(t)])
        ctx.paths(rid, len(trs))
        bad = None; nh = ne = 0
        for tr in trs:
            waiting = None
            for i, it in enumerate(tr):
                if it.k == 'branch':
                    ce = cond_event(tr, i)
                    if ce is not None and on(ce, WAITERS) and op(ce) == 'empty' and waiting is None:
                        waiting = (it.val is False)
            hand = [c for c in calls(tr) if _foreign(c)]
            emp = [c for c in calls(tr) if on(c, ITEMS) and op(c) in ('emplace', 'push')]
            wpop = [c for c in calls(tr) if on(c, WAITERS) and op(c) == 'pop']
            wfront = [c for c in calls(tr) if on(c, WAITERS) and op(c) == 'front']
            if len(hand) + len(emp) != 1:
                bad = bad or ('the item reaches %d sinks on a path (hand-over %d, enqueue %d)' % (len(hand) + len(emp), len(hand), len(emp)), tr); continue
            if hand:
                nh += 1
                if waiting is not True:
                    bad = bad or ('hand-over on a path that did not see a waiting pop', tr)
                if len(wpop) != 1 or len(wfront) != 1 or tr.index(wfront[0]) > tr.index(wpop[0]):
                    bad = bad or ('the waiting pop is not taken out of the waiter queue exactly once (front %d, pop %d)' % (len(wfront), len(wpop)), tr)
            else:
                ne += 1
                if waiting is not False:
                    bad = bad or ('the item is enqueued although a pop may be waiting (never both non-empty)', tr)
                if wpop or wfront:
                    bad = bad or ('a waiter is removed although the item was enqueued', tr)
        if not bad and (nh == 0 or ne == 0):
            bad = ('push lost its hand-over / enqueue outcomes', trs[0] if trs else [])
        ctx.ob(rid, f, f['key'], bad is None, 'exactly one sink per path' + ('' if not bad else ' -- ' + bad[0]), desc=bad[0] if bad else None, trace=fmt_trace(bad[1]) if bad else None)


def pop_linear(ctx, db, rid, name, refill=False):
    ctx.rule(rid, 'COUNT+ORDER', 'queue::pop (the lambda run by the future\'s constructor): on the empty edge the promise is parked in the waiter queue and nothing else; otherwise it is '
             'resolved exactly once (from front() for non-void T) and exactly one item is removed by pop() afterwards', floor=1)
    lams = initializer_bodies(db, name)
    if not lams:
        raise Broken('anchor vanished: lambda of ' + name)
    T = htracer(db)
    for lf in lams:
        trs = feasible([t for t in T.traces(lf) if live(t)])
        ctx.paths(rid, len(trs))
        bad = None; npark = ndel = 0
        void = 'void' in re.findall(r'queue<([^,>]*)', lf.get('inst') or '')[:1]
        for tr in trs:
            empty = None
            for i, it in enumerate(tr):
                if it.k == 'branch' and empty is None:
                    ce = cond_event(tr, i)
                    if ce is not None and on(ce, ITEMS) and op(ce) == 'empty':
                        empty = bool(it.val)
            park = [c for c in calls(tr) if on(c, WAITERS) and op(c) in ('emplace', 'push')]
            res = [c for c in calls(tr) if norm(c.get('callee')) in PROM_CALL and _own(c)]
            ipop = [c for c in calls(tr) if on(c, ITEMS) and op(c) == 'pop']
            ifront = [c for c in calls(tr) if on(c, ITEMS) and op(c) == 'front']
            if empty is None:
                bad = bad or ('pop does not test the item queue', tr); continue
            if empty:
                npark += 1
                if len(park) != 1 or res or ipop or ifront:
                    bad = bad or ('on the empty edge the promise is not simply parked (parked %d, resolved %d, removed %d)' % (len(park), len(res), len(ipop)), tr)
            else:
                ndel += 1
                if park:
                    bad = bad or ('the promise is parked although an item is available (never both non-empty)', tr)
                if len(res) != 1:
                    bad = bad or ('the promise is resolved %d times on the non-empty edge' % len(res), tr)
                if len(ipop) != 1:
                    bad = bad or ('%d items are removed for one delivery (the stored item/token is %s)' % (len(ipop), 'duplicated' if not ipop else 'lost'), tr)
                if not void and len(ifront) != 1:
                    bad = bad or ('the delivered value is not the head of the item queue', tr)
                if ifront and ipop and tr.index(ifront[0]) > tr.index(ipop[0]):
                    bad = bad or ('the head is removed before it is read', tr)
                if not void and len(res) == 1 and len(ipop) == 1 and tr.index(ipop[0]) < tr.index(res[0]):
                    bad = bad or ('the item is removed from the queue before it has been handed to the promise: if constructing the value in the future throws, the item is in neither place (lost)', tr)
        if not bad and (npark == 0 or ndel == 0):
            bad = ('pop lost its park / deliver outcomes', trs[0] if trs else [])
        ctx.ob(rid, lf, lf['key'], bad is None, 'park xor (resolve once + remove once)' + ('' if not bad else ' -- ' + bad[0]), desc=(bad[0] if bad else None), trace=fmt_trace(bad[1]) if bad else None,
               inst=lf.get('inst'))


def _fails_with_given(f, c):
    """does this promise call fail the promise with an exception: set_exception(..), or - the same overload underneath - operator()(e) /
    set_value(e) where e is the exception_ptr parameter of the analysed function and the promise does not carry exception_ptr values"""
    cal = norm(c.get('callee') or '')
    if cal == 'cocls::promise::set_exception':
        return True
    if cal not in ('cocls::promise::operator()', 'cocls::promise::set_value'):
        return False
    a = c.get('args') or []
    if len(a) != 1 or 'exception_ptr' in (c.get('recv_type') or 'exception_ptr'):
        return False
    t = re.sub(r'\b(const|class|struct)\b|[&\s]', '', a[0].get('type') or '')
    if t not in ('std::exception_ptr', 'std::__exception_ptr::exception_ptr'):
        return False
    pa = a[0].get('path') or ''
    for _ in range(3):
        m = re.fullmatch(r'(?:move|forward|ctor)\((.*)\)', pa)
        if not m:
            break
        pa = m.group(1)
    return any(pa == 'param:' + p_['name'] and 'exception_ptr' in (p_.get('type') or '') for p_ in f['params'])


def unblock(ctx, db, rid, name, fld):
    ctx.rule(rid, 'COUNT', '%s: on the empty edge nothing happens and false is reported; otherwise exactly the oldest entry is taken (front() then one pop()) and exactly its promise is '
             'failed once with the given exception' % name.split('::', 1)[1], floor=1)
    for f, trs in traces_of(db, name, depth=0, per_instance=True):
        trs = feasible([t for t in trs if live(t)])
        ctx.paths(rid, len(trs))
        bad = None; n = 0
        for tr in trs:
            empty = None
            for i, it in enumerate(tr):
                if it.k == 'branch' and empty is None:
                    ce = cond_event(tr, i)
                    if ce is not None and on(ce, fld) and op(ce) == 'empty':
                        empty = bool(it.val)
            fr = [c for c in calls(tr) if on(c, fld) and op(c) == 'front']
            pp = [c for c in calls(tr) if on(c, fld) and op(c) == 'pop']
            ex = [c for c in calls(tr) if norm(c.get('callee')) in PROM_CALL]
            if empty is None:
                bad = bad or ('emptiness is not tested', tr); continue
            if empty:
                if fr or pp or ex:
                    bad = bad or ('something is taken or failed although nothing waits', tr)
                ret = [it for it in tr if it.k == 'return']
                if ret and ret[-1].get('const') not in (0, None) and (ret[-1].get('path') or '') not in ('ctor(false)', 'false'):
                    bad = bad or ('"nothing to unblock" is not reported as false', tr)
            else:
                n += 1
                if len(fr) != 1 or len(pp) != 1 or tr.index(fr[0]) > tr.index(pp[0]):
                    bad = bad or ('the oldest entry is not removed exactly once (front %d, pop %d): %s' % (len(fr), len(pp), 'its item would be delivered later as a phantom' if not pp else 'another entry is lost'), tr)
                if len(ex) != 1 or not _fails_with_given(f, ex[0]) or _own(ex[0]):
                    bad = bad or ('not exactly the removed entry\'s promise is failed', tr)
        if n == 0 and not bad:
            bad = ('no non-empty edge', trs[0] if trs else [])
        ctx.ob(rid, f, f['key'], bad is None, 'take oldest once, fail it once' + ('' if not bad else ' -- ' + bad[0]), desc=(bad[0][:100] if bad else None), trace=fmt_trace(bad[1]) if bad else None)


ACCESS = {'front', 'back', 'pop', 'top'}


def nonempty(ctx, db, rid, classes):
    ctx.rule(rid, 'GUARDED', 'front()/pop() of the item, waiter and blocked queues is reached only under a fact "not empty" established by a branch on empty() of the same container '
             '(killed by pop/clear/swap)', floor=4)
    T = htracer(db)
    seen = set()
    for key in db.keys():
        f0 = db.rep(key)
        if not locks._in_classes(db, f0, classes):
            continue
        if not f0.get('lambda') and f0.get('access') != 0 and [c for c in callers_of(db, f0['nname']) if c.startswith('cocls::queue') or c.startswith('cocls::limited_queue')]:
            continue        # a non-public helper: its accesses are judged inside its callers (it is expanded there)
        for f in db.instances(key):
            trs = feasible(T.traces(f))
            uses = [it for tr in trs for it in tr if it.k == 'call' and norm(it.get('field') or '') in (ITEMS, WAITERS, BLOCKED) and op(it) in ACCESS and not it.get('expanded')]
            if not uses:
                continue
            ctx.paths(rid, len(trs))
            badsite = {}
            for tr in trs:
                facts = set()
                for i, it in enumerate(tr):
                    if it.k == 'branch':
                        ce = cond_event(tr, i)
                        if ce is not None and ce.k == 'call' and op(ce) == 'empty' and ce.get('field'):
                            (facts.add if it.val is False else facts.discard)(norm(ce['field']))
                        continue
                    if it.k != 'call' or not it.get('field'):
                        continue
                    fl = norm(it['field']); o = op(it)
                    if fl in (ITEMS, WAITERS, BLOCKED):
                        if o in ACCESS and fl not in facts:
                            badsite.setdefault(it['loc'], (o, fl, tr))
                        if o in ('pop', 'clear', 'swap'):
                            # after one pop the container may be empty again
                            facts.discard(fl)
                        if o in ('emplace', 'push'):
                            facts.add(fl)
            for e in uses:
                k = (f['key'], e['loc'])
                b = badsite.get(e['loc'])
                if k in seen and not b:
                    continue
                seen.add(k)
                ctx.ob(rid, f, e['loc'], b is None, '%s() of %s only when not empty' % (op(e), norm(e['field']).split('::')[-1]), desc='%s of possibly empty %s' % (op(e), norm(e['field'])),
                       trace=fmt_trace(b[2]) if b else None)


def resolve_outside_lock(ctx, db, rid, names):
    ctx.rule(rid, 'LOCKSET', 'a promise that was taken out of the waiter / blocked queue belongs to somebody else\'s suspended operation: it is resolved only after the queue\'s lock '
             'has been released (resolving runs the waiter\'s code, which may call back into the queue)', floor=2)
    for name in names:
        fns = db.fns(name) + [lf for lf in lambdas_of(db, name)]
        if not fns:
            raise Broken('anchor vanished: ' + name)
        T = htracer(db)
        seen = set()
        for f in fns:
            bad = None; n = 0
            for tr in T.traces(f):
                held = trace_lockset(tr)
                for i, it in enumerate(tr):
                    if it.k == 'call' and _foreign(it) and not it.get('expanded'):
                        n += 1
                        if held[i]:
                            bad = bad or (it, sorted(held[i]), tr)
            if n == 0:
                continue
            k = (f['key'], bad is None)
            if k in seen:
                continue
            seen.add(k)
            ctx.ob(rid, f, (bad[0]['loc'] if bad else f['key']), bad is None, 'promises taken from the queue are resolved with no lock held in %s' % f['nname'].split('::', 1)[1][:60],
                   detail={'held': bad[1]} if bad else None, desc='queued promise resolved while holding the queue lock', trace=fmt_trace(bad[2]) if bad else None)


def forward_once(ctx, db, rid):
    ctx.rule(rid, 'COUNT', 'no forwarding-reference parameter (pack) is std::forward-ed at two different sites on one path, including inside a lambda created on that path that captures it '
             'by reference (a second forward reads a moved-from object)', floor=10)
    T = Tracer(db, depth=0, limit=5000)
    seen = set()
    for key in db.keys():
        f = db.rep(key)
        if f.get('lambda') or not f['key'].count('/cocls/'):
            continue
        fw = [e for e in f.events() if e.k == 'call' and norm(e.get('callee')) == 'std::forward' and (e.get('args') or [{}])[0].get('path', '').startswith('param:')]
        if not fw:
            continue
        pnames = {'param:' + p['name'] for p in f['params']}
        # forwards inside lambdas defined here, of captured parameters
        lamfw = {}
        for e in f.events():
            if e.k == 'lambda':
                lf = db.get(e['fn_key'])
                if lf is not None:
                    for x in lf.events():
                        if x.k == 'call' and norm(x.get('callee')) == 'std::forward':
                            p = (x.get('args') or [{}])[0].get('path', '')
                            if p.startswith('capture:') and 'param:' + p[8:] in pnames:
                                lamfw.setdefault(e['id'], []).append(('param:' + p[8:], x['loc']))
        trs = T.traces(f)
        if T.truncated:
            T.truncated = False
            continue
        ctx.paths(rid, len(trs))
        bad = None
        for tr in trs:
            if not live(tr):
                continue
            sites = {}
            for it in tr:
                if it.k == 'call' and norm(it.get('callee')) == 'std::forward':
                    p = (it.get('args') or [{}])[0].get('opath') or (it.get('args') or [{}])[0].get('path', '')
                    if p in pnames:
                        sites.setdefault(p, set()).add(it['loc'])
                if it.k == 'lambda' and it.get('id') in lamfw:
                    for p, l in lamfw[it['id']]:
                        sites.setdefault(p, set()).add(l)
            for p, ss in sites.items():
                if len(ss) > 1:
                    bad = bad or (p, sorted(relloc(x) for x in ss), tr)
        ctx.ob(rid, f, f['key'], bad is None, 'each forwarding parameter of %s is forwarded at most once per path' % f['nname'].split('::', 1)[-1] + ('' if not bad else ' -- %s forwarded at %s' % (bad[0], bad[1])),
               desc=('%s forwarded twice' % bad[0] if bad else None))


def held_by_value(ctx, db, rid):
    ctx.rule(rid, 'TYPE', 'waiting pops are stored as promise<T> objects by value inside the queue, so destroying the queue destroys them and C01.dtor-resolves cancels their futures', floor=1)
    cs = db.class_insts('cocls::queue')
    if not cs:
        raise Broken('no instantiation of cocls::queue')
    seen = set()
    for c in cs:
        fl = next((x for x in c['fields'] if x['name'] == '_awaiters'), None)
        t = (fl or {}).get('canon_type') or (fl or {}).get('type') or ''
        ok = fl is not None and 'promise<' in t and '*' not in t.split('promise<')[0] and not _ptr_to_promise(t)
        k = ok
        if k in seen and ok:
            continue
        seen.add(k)
        ctx.ob(rid, 'cocls::queue', c['loc'], ok, '_awaiters holds promise<T> by value (%s)' % t[:90], desc='_awaiters does not hold promises by value')


def _ptr_to_promise(t):
    i = t.find('promise<')
    if i < 0:
        return False
    j = i + len('promise<'); depth = 1
    while j < len(t) and depth:
        depth += (t[j] == '<') - (t[j] == '>'); j += 1
    return t[j:].lstrip().startswith(('*', '&'))


def void_counter(ctx, db, rid):
    ctx.rule(rid, 'COUNT', 'std_queue<void> (queue<void> as counting semaphore): emplace increments the counter by one, pop decrements it by one without underflow, empty() is '
             'count == 0', floor=2)
    for name, want in (('cocls::primitives::std_queue::emplace', '++'), ('cocls::primitives::std_queue::pop', '=')):
        for f in db.need(name)[:1]:
            trs_ = [t for t in htracer(db).traces(f) if live(t)]
            ok = bool(trs_) and not has_back_edge(f)
            for tr in trs_:
                ws = [(i_, it) for i_, it in enumerate(tr) if it.k == 'write' and (it.get('path') or '') == 'this->_sz']
                if len(ws) != 1:
                    ok = False; continue
                i_, w_ = ws[0]
                if want == '++':
                    ok = ok and delta_of_write(w_) == 1
                else:
                    # max(1, _sz) - 1 (saturating decrement; possibly computed by a small helper), or a plain decrement guarded by a non-zero test
                    rhs = re.sub(r'\s+', '', origin_in_trace(tr, i_, w_.get('rhs'))[0] or w_.get('rhs') or '')
                    mx = next((c_ for c_ in reversed(tr[:i_]) if c_.k == 'call' and norm(c_.get('callee') or '') == 'std::max'), None)
                    sat = rhs in ('(call(std::max)-1)',) and mx is not None and any(a_.get('const') == 1 for a_ in mx.get('args', [])) and any((a_.get('path') or '') == 'this->_sz' for a_ in mx.get('args', []))
                    ok = ok and (sat or bool(re.fullmatch(r'\(local:\w+-1\)', rhs)) or delta_of_write(w_) == -1)
            if want == '=' and not ok and trs_ and not has_back_edge(f):
                # any other spelling: read every path as a transformer of the counter and compare with max(count, 1) - 1
                steps = [counter_step(tr, 'this->_sz') for tr in trs_]
                if any(st_ is None for st_ in steps):
                    raise Broken('std_queue<void>::pop: the new token count is computed by an expression the counter rule cannot interpret')
                cover = set()
                ok = True
                for st_ in steps:
                    cover |= set(st_)
                    ok = ok and all(nv == max(v, 1) - 1 for v, nv in st_.items())
                ok = ok and cover == set(range(24))
            ctx.ob(rid, f, f['key'], ok, '%s changes the token count by exactly one' % name.split('::')[-1], desc='std_queue<void>::%s does not change the count by one' % name.split('::')[-1])


def single_slot(ctx, db, rid):
    """primitives::single_item_queue (the one-waiter store): inserting into the occupied slot must be refused by an exception in every
    build configuration; std::optional::emplace on an engaged optional destroys the stored element (a parked pop / an item is lost)"""
    ctx.rule(rid, 'PATHS', 'primitives::single_item_queue::emplace: the slot is filled only on the edge where has_value() tested false, and the occupied edge throws '
             '(an assertion is no guard: NDEBUG builds would silently overwrite the parked element)', floor=1)
    fns = db.fns('cocls::primitives::single_item_queue::emplace')
    if not fns:
        raise Broken('single_item_queue::emplace not instantiated')
    T = htracer(db)
    seen = set()
    for f in fns:
        if f['key'] in seen:
            continue
        seen.add(f['key'])
        trs = T.traces(f)
        ctx.paths(rid, len(trs))
        bad = None; nthrow = 0
        for tr in trs:
            occ = None
            for i, it in enumerate(tr):
                if it.k == 'branch' and occ is None:
                    ce = cond_event(tr, i)
                    if ce is not None and ce.k == 'call' and norm(ce.get('callee') or '') in ('std::optional::has_value', 'std::optional::operator bool'):
                        occ = bool(it.val)
            em = [c for c in calls(tr) if norm(c.get('callee') or '') == 'std::optional::emplace']
            if em and occ is not False:
                bad = bad or ('the slot is overwritten on a path that did not see it empty', tr)
            if occ is True:
                if any(it.k == 'throw' for it in tr):
                    nthrow += 1
                elif live(tr):
                    bad = bad or ('the occupied edge returns normally', tr)
        if not bad and nthrow == 0:
            bad = ('no path refuses an insert into the occupied slot with an exception', trs[0] if trs else [])
        ctx.ob(rid, f, f['key'], bad is None, 'emplace iff empty, else throw' + ('' if not bad else ' -- ' + bad[0]), desc=bad[0] if bad else None, trace=fmt_trace(bad[1]) if bad else None)
