# C14 - generator aggregator: union of all sources, per-source order preserved
import re
from ..core import Item, norm, relloc, live, calls, evs, Broken, value_origin, Tracer, fmt_trace, rooted, has_back_edge, cond_event, pos, find_ev
from ..rules import *
from . import C09

EXPLANATION = ('Static analysis of generator_aggregator (a modest set of necessary conditions): in the aggregator coroutine every iteration of the main loop performs exactly one of '
               '"retire the source" (controller.fin) or "re-arm the source" (GenCallback::charge) on every path, including the exception edges from g.value(), the co_yield and '
               'charge into the catch handler - otherwise a source is lost or the loop never ends; the start-up loop creates one callback per source and charges each exactly once; '
               'the callbacks are published by address, so the vector holding them reserves the source count before the loop (no relocation); a callback\'s resume function '
               'enqueues itself exactly once; the controller\'s destructor drains in a loop whose only exit is "no outstanding source" and is destroyed before the queue and the '
               'callbacks; the completion queue is the mutex-protected queue instantiation and obeys the C09 hand-over rules. Undecided: the multiset union, per-source order, '
               'argument routing and leak freedom as behaviour.')
ASSUMPTIONS = ['locals of a coroutine are destroyed in reverse declaration order (language guarantee)', 'std::vector does not relocate below its reserved capacity']

AGG = 'cocls::generator_aggregator'
FIN = 'cocls::_details::generator_aggregator_controller::fin'
CHARGE = 'cocls::_details::GenCallback::charge'


def run(ctx, db, tier):
    retire_or_rearm(ctx, db)
    owns_sources(ctx, db)
    startup(ctx, db)
    callback(ctx, db)
    drain(ctx, db)
    queue_type(ctx, db)
    C09.push_linear(ctx, db, 'C14.queue-push', 'cocls::queue::push')
    C09.pop_linear(ctx, db, 'C14.queue-pop', 'cocls::queue::pop')
    from . import C13
    C13.done_means_returned(ctx, db, 'C14.finished-means-returned')
    charge_runs_now(ctx, db)


def may_throw(ev):
    if ev.k in ('co_yield',):
        return True
    if ev.k == 'call' and not ev.get('nothrow') and norm(ev.get('callee') or '') in ('cocls::generator::value', CHARGE):
        return True
    return False


def retire_or_rearm(ctx, db):
    rid = ctx.rule('C14.retire-or-rearm', 'COUNT', 'aggregator main loop: on every path of one iteration (normal edges and exception edges from g.value(), co_yield and charge to the catch-all) '
                   'exactly one of controller.fin() / GenCallback::charge() is performed; a source whose step produced neither is never asked again nor counted out', floor=1)
    fns = db.need(AGG)
    T = Tracer(db, depth=0, exc_edges=may_throw, maxvisit=2, limit=20000)
    seen_bad = None; niter = 0
    for f in fns:
        has_catch = any((b.get('label') or {}).get('kind') == 'catch' and b['label'].get('type') == '...' for b in f['blocks'])
        if not has_catch:
            seen_bad = seen_bad or (f, 'the aggregator loop has no catch-all: a source\'s exception kills the aggregate and loses the other sources\' values', []); continue
        trs = T.traces(f)
        if T.truncated:
            raise Broken('path bound exceeded in generator_aggregator')
        ctx.paths(rid, len(trs))
        for tr in trs:
            # split into iterations of the main loop: consecutive branches on controller::operator bool
            idx = []
            for i, it in enumerate(tr):
                if it.k == 'branch' and it.term in ('WhileStmt', 'ForStmt', 'IfStmt', 'DoStmt', 'BinaryOperator'):
                    ce = cond_event(tr, i)
                    if ce is not None and 'generator_aggregator_controller::operator bool' in norm(ce.get('callee') or ''):
                        idx.append((i, it.val))
            # the loop is left only through its own condition (no source is active any more): a break / return on any other
            # condition drops the values of the sources that are still running
            if live(tr) and idx and any(v for _, v in idx) and idx[-1][1] is not False:
                seen_bad = seen_bad or (f, 'the main loop is left although the controller still counts active sources (exit other than through the loop condition)', tr[idx[-1][0]:])
            for a in range(len(idx) - 1):
                if not idx[a][1]:
                    continue
                seg = tr[idx[a][0]:idx[a + 1][0]]
                niter += 1
                n = sum(1 for it in seg if it.k == 'call' and norm(it.get('callee')) in (FIN, CHARGE))
                if n != 1:
                    kinds = [norm(it.get('callee')).split('::')[-1] for it in seg if it.k == 'call' and norm(it.get('callee')) in (FIN, CHARGE)]
                    exc = any(it.k == 'exception' for it in seg)
                    seen_bad = seen_bad or (f, 'an iteration (%s path) performs %s instead of exactly one of fin / charge' % ('exception' if exc else 'normal', kinds or 'neither'), seg)
    if niter == 0 and not seen_bad:
        raise Broken('no iteration of the aggregator main loop could be enumerated')
    f0 = fns[0]
    ctx.ob(rid, f0, f0['key'], seen_bad is None, 'each iteration retires or re-arms its source exactly once (%d iteration paths)' % niter + ('' if not seen_bad else ' -- ' + seen_bad[1]),
           desc=seen_bad[1] if seen_bad else None, trace=fmt_trace(seen_bad[2]) if seen_bad and seen_bad[2] else None, inst=(seen_bad[0]['inst'] if seen_bad else None))


def owns_sources(ctx, db):
    """the aggregator is a lazily started coroutine: whatever it needs after its first suspension must live in its frame"""
    rid = ctx.rule('C14.owns-sources', 'TYPE', 'generator_aggregator takes the vector of source generators by value (moved into the coroutine frame): the coroutine starts lazily, a reference '
                   'parameter would be used after the caller\'s vector may be gone or reused', floor=1)
    for f in db.need(AGG)[:1]:
        t = (f['params'][0]['type'] if f['params'] else '')
        ctx.ob(rid, f, f['key'], bool(t) and 'vector' in t and not t.rstrip().endswith('&'), 'the source list parameter is %s' % t[:80], desc='generator_aggregator takes its sources by reference')


def startup(ctx, db):
    rid = ctx.rule('C14.charge-each-once', 'COUNT+GUARDED', 'start-up: the callback vector reserves the number of sources before the emplacing loop (callbacks are published by address and must not '
                   'move); each iteration emplaces one callback and charges exactly that one (cbs.back()); the controller is created with the source count', floor=2)
    fns = db.need(AGG)
    # a function the coroutine hands its callback vector to (by reference) is start-up code of the coroutine, whatever its size and wherever it
    # lives (_details::charge_generators(cbs, queue, list__, arg) holds the whole emplace-and-charge loop): it is expanded in place like a helper
    takes_cbs = lambda caller, ev, callee: caller.get('nname') == AGG and not callee.get('coroutine') and any((a.get('path') or '') == 'local:cbs' for a in (ev.get('args') or []))
    T = htracer(db, extra=takes_cbs, maxvisit=2, limit=20000)
    seen_bad = None
    for f in fns:
        evl = list(f.events())
        for lf_ in [x for e_ in f.events() if e_.k == 'lambda' for x in db.closure_instances(f, e_['fn_key'])]:
            # a local lambda of the coroutine (auto start = [&](...) { cbs.emplace_back(...); ... }) belongs to its body; its captures are the coroutine's locals
            evl += [Item(x, recv=(x.get('recv') or '').replace('capture:', 'local:')) if x.get('recv') else x for x in lf_.events()]
        res = [e for e in evl if e.k == 'call' and norm(e.get('callee')) == 'std::vector::reserve' and e.get('recv') == 'local:cbs']
        emp = [e for e in evl if e.k == 'call' and norm(e.get('callee')) in ('std::vector::emplace_back', 'std::vector::push_back') and e.get('recv') == 'local:cbs']
        if not emp and not any(it.k == 'call' and norm(it.get('callee')) in ('std::vector::emplace_back', 'std::vector::push_back') and it.get('recv') == 'local:cbs' for tr in T.traces(f)[:400] for it in tr):
            # (a helper expanded in place - _details::add_source(cbs, queue, x) - emplaces into the vector it was handed)
            raise Broken('aggregator no longer emplaces callbacks: anchor changed')
        if len(res) != 1 or (res[0].get('args') or [{}])[0].get('path') != 'call(std::vector::size)':
            seen_bad = seen_bad or (f, 'the callback vector does not reserve the source count: emplace_back relocates callbacks that were already published by address')
        else:
            sz = f.ev((res[0]['args'][0]).get('ev')) if res[0]['args'][0].get('ev') is not None else None
            if sz is None or sz.get('recv') != 'param:list__' and not (sz.get('recv') or '').startswith('param:'):
                seen_bad = seen_bad or (f, 'the reserved size is not the number of sources')
            if not all(res[0]['id'] > 0 for _ in [0]):
                pass
            # reserve dominates the loop: it is in the entry straight-line code before the first emplace on every path
        for tr in [t for t in T.traces(f) if live(t)][:400]:
            r = index_of(tr, lambda ev: ev.k == 'call' and norm(ev.get('callee')) == 'std::vector::reserve' and ev.get('recv') == 'local:cbs')
            e0 = index_of(tr, lambda ev: ev.k == 'call' and norm(ev.get('callee')) in ('std::vector::emplace_back', 'std::vector::push_back') and ev.get('recv') == 'local:cbs')
            if e0 >= 0 and (r < 0 or r > e0):
                seen_bad = seen_bad or (f, 'a path emplaces a callback before the vector reserved its capacity')
            loops = [i for i, it in enumerate(tr) if it.k == 'branch' and it.term == 'CXXForRangeStmt']
            for a in range(len(loops) - 1):
                if not tr[loops[a]].val:
                    continue
                seg = tr[loops[a]:loops[a + 1]]
                ne = sum(1 for it in seg if it.k == 'call' and norm(it.get('callee')) in ('std::vector::emplace_back', 'std::vector::push_back') and it.get('recv') == 'local:cbs')
                ch = [it for it in seg if it.k == 'call' and norm(it.get('callee')) == CHARGE]
                # the callback charged is the one just emplaced: cbs.back(), or the reference returned by emplace_back
                if ne != 1 or len(ch) != 1 or ch[0].get('recv') not in ('call(std::vector::back)', 'call(std::vector::emplace_back)'):
                    seen_bad = seen_bad or (f, 'a start-up iteration emplaces %d and charges %d callbacks (expected one each, charging the one just emplaced)' % (ne, len(ch)))
        cc = [e for e in evl if e.k == 'construct' and norm(e.get('callee')) == 'cocls::_details::generator_aggregator_controller::generator_aggregator_controller']
        if len(cc) != 1 or (cc[0].get('args') or [{}])[0].get('path') != 'call(std::vector::size)':
            seen_bad = seen_bad or (f, 'the controller is not initialised with the number of sources')
    f0 = fns[0]
    ctx.ob(rid, f0, f0['key'], seen_bad is None, 'reserve, then one emplace + one charge per source' + ('' if not seen_bad else ' -- ' + seen_bad[1]), desc=seen_bad[1] if seen_bad else None,
           inst=(seen_bad[0]['inst'] if seen_bad else None))
    cs = db.class_insts('cocls::_details::GenCallback')
    if not cs:
        raise Broken('GenCallback not instantiated')
    ctx.ob(rid, 'cocls::_details::GenCallback', cs[0]['loc'], True, 'GenCallback instantiations analysed: %d' % len(cs))


def callback(ctx, db):
    rid = ctx.rule('C14.callback-enqueues-once', 'COUNT', 'the resume function of a GenCallback pushes exactly its own address into the completion queue exactly once; charge subscribes exactly this '
                   'callback to exactly its own generator\'s next step', floor=2)
    lams = resume_bodies(db, 'cocls::_details::GenCallback::GenCallback')
    if not lams:
        raise Broken('GenCallback resume function not found')
    lf = lams[0]
    # directly or through a helper of the callback (static_cast<GenCallback *>(me)->enqueue()): on every path one push of the callback itself
    ok = not any(has_back_edge(g) for g in [lf] + helper_bodies(db, lf))
    trs_ = [t for t in htracer(db).traces(lf) if live(t)]
    ok = ok and bool(trs_)
    p0 = 'param:' + (lf['params'][0]['name'] if lf.get('params') else 'me')
    for tr in trs_:
        ps = [it for it in tr if it.k == 'call' and norm(it.get('callee')) == 'cocls::queue::push']
        a = ((ps[0].get('args') or [{}])[0].get('path') or '') if len(ps) == 1 else ''
        # what is pushed is the resumed awaiter itself: the first parameter, or a local cast from it
        src = origin_in_trace(tr, pos(tr, ps[0]), a)[0] if len(ps) == 1 and a.startswith('local:') else a
        if len(ps) != 1 or src != p0:
            ok = False
    ctx.ob(rid, lf, lf['key'], bool(ok), 'resume function pushes its own callback once', desc='GenCallback resume function does not enqueue itself exactly once')
    for f in db.need(CHARGE)[:2]:
        ss = [e for e in f.events() if e.k == 'call' and norm(e.get('callee')) == 'cocls::generator::next_awt::subscribe']
        nx = [e for e in f.events() if e.k == 'call' and norm(e.get('callee')) == 'cocls::generator::next']
        ok = len(ss) == 1 and len(nx) == 1 and (ss[0].get('args') or [{}])[0].get('path') == 'this' and nx[0].get('recv') == 'this->_gen'
        ctx.ob(rid, f, f['key'], ok, 'charge: _gen.next(args).subscribe(this) once', desc='GenCallback::charge does not subscribe this callback to its own generator once')


def _more_than_one(path):
    """is the condition equivalent to  _count > 1  (count > 1, count >= 2, 1 < count, count - 1 > 0 ...)?"""
    m = re.fullmatch(r'\((.+) (>|>=|<|<=) (.+)\)', path)
    if not m:
        return False
    a, b = linform(m.group(1)), linform(m.group(3))
    if a is None or b is None:
        return False
    d = {k: a.get(k, 0) - b.get(k, 0) for k in set(a) | set(b)}
    d = {k: v for k, v in d.items() if v or k == ''}
    o = m.group(2)
    if set(d) - {'this->_count', ''}:
        return False
    k, c = d.get('this->_count', 0), d.get('', 0)
    if k == -1:
        k, c, o = 1, -c, {'>': '<', '>=': '<=', '<': '>', '<=': '>='}[o]
    if k != 1:
        return False
    # count + c  o  0
    return (o == '>' and c == -1) or (o == '>=' and c == -2)


def _negated(path):
    m = re.fullmatch(r'\((.+) (>|>=|<|<=) (.+)\)', path)
    if not m:
        return ''
    return '(%s %s %s)' % (m.group(1), {'>': '<=', '>=': '<', '<': '>=', '<=': '>'}[m.group(2)], m.group(3))


def _cond_path(tr, i):
    """the condition of branch tr[i] with the value of a prefix increment / decrement spelled out: in `while (--n > 1)` the compared operand is
    the lvalue the prefix operator yields, i.e. n as it is after the write (the facts show a load of an unnamed <UnaryOperator> directly behind
    the write, at the same place; a postfix operator yields the old value as a prvalue and has no such load)"""
    br = tr[i]
    p = br.get('path') or ''
    if '<UnaryOperator>' not in p:
        return p
    ce = cond_event(tr, i)
    if ce is None or ce.k != 'cmp':
        return p
    for side in ('lhs', 'rhs'):
        if ce.get(side) != '<UnaryOperator>' or ce.get(side + '_ev') is None:
            continue
        rd = find_ev(tr, i, ce[side + '_ev'], ce.get('fn'), ce.get('depth'))
        if rd is None or rd.k != 'read' or rd.get('path') != '<UnaryOperator>':
            continue
        j = pos(tr, rd)
        w = tr[j - 1] if j > 0 else None
        if w is not None and w.k == 'write' and w.get('op') in ('++', '--') and w.get('loc') == rd.get('loc') and w.get('depth') == rd.get('depth') and w.get('path'):
            p = p.replace('<UnaryOperator>', w['path'], 1)
    return p


def drain(ctx, db):
    rid = ctx.rule('C14.drain', 'PATHS+ORDER', 'the controller\'s destructor waits for every outstanding asynchronous source: a loop whose only exit is the test that at most one source is counted, each '
                   'iteration blocks on one completion and decrements the count by one; the controller is declared after the queue and the callbacks (destroyed before them)', floor=2)
    T = htracer(db, maxvisit=3)
    for f in db.need('cocls::_details::generator_aggregator_controller::~generator_aggregator_controller')[:1]:
        bad = None
        if not any(has_back_edge(g) for g in [f] + helper_bodies(db, f)):
            bad = 'the destructor does not loop: outstanding sources are not waited for'
        if not bad:
            # every test of the destructor itself (a predicate helper is read through to what it returned) says "more than one source is counted"
            nb = 0
            for tr in T.traces(f):
                for i, it in enumerate(tr):
                    if it.k == 'branch':
                        nb += 1
                        cp = _cond_path(tr, i)
                        if not (_more_than_one(cp) or _more_than_one(_negated(cp))):      # while (count > 1) ... / if (count <= 1) break; / do ... while (--count > 1);
                            bad = bad or 'the drain loop has an exit that does not depend on the number of outstanding sources only (%s): a pending source may resume into a destroyed aggregate' % (it.path or it.get('opath'))
            if nb == 0:
                bad = 'the destructor does not test the number of outstanding sources'

        if not bad:
            for tr in [t for t in T.traces(f) if live(t)]:
                loops = [i for i, it in enumerate(tr) if it.k == 'branch' and (it.term in ('WhileStmt', 'ForStmt', 'DoStmt') or _more_than_one(_cond_path(tr, i)) or _more_than_one(_negated(_cond_path(tr, i))))]
                for a in range(len(loops) - 1):
                    seg = tr[loops[a]:loops[a + 1]]
                    pops = sum(1 for it in seg if it.k == 'call' and norm(it.get('callee')) == 'cocls::queue::pop')
                    waits = sum(1 for it in seg if it.k == 'call' and norm(it.get('callee')) in ('cocls::future::wait', 'cocls::future::sync', 'cocls::future::force_wait', 'cocls::future::force_sync', 'cocls::future::join'))
                    dec = sum(1 for it in seg if it.k == 'write' and (it.get('path') or '') == 'this->_count' and delta_of_write(it) == -1)
                    if (pops, waits, dec) != (1, 1, 1):
                        bad = bad or 'a drain iteration pops %d, waits %d, decrements %d (expected one each)' % (pops, waits, dec)
        ctx.ob(rid, f, f['key'], bad is None, 'drain until at most one source is counted, one blocking pop per iteration' + ('' if not bad else ' -- ' + bad), desc=(bad[:100] if bad else None))
    for f in db.need(AGG)[:2]:
        order = [e.get('var') for e in f.events() if e.k == 'dtor' and e.get('var') in ('cnt', 'queue', 'cbs')]
        first = []
        for v in order:
            if v not in first:
                first.append(v)
        decl = [e.get('var') for e in f.events() if e.k == 'decl' and e.get('var') in ('cnt', 'queue', 'cbs')]
        ok = first[:3] == ['cnt', 'queue', 'cbs'] or (decl and decl.index('cnt') > decl.index('queue') > decl.index('cbs') if all(v in decl for v in ('cnt', 'queue', 'cbs')) else False)
        ctx.ob(rid, f, f['key'], bool(ok), 'locals are destroyed controller, then queue, then callbacks', desc='destruction order of controller / queue / callbacks changed', inst=f['inst'])


def queue_type(ctx, db):
    rid = ctx.rule('C14.queue-locked', 'TYPE', 'the completion queue is queue<GenCallback*, std_queue, single_item_queue> with the default std::mutex lock: sources complete on arbitrary threads', floor=1)
    cs = [c for c in db.classes.values() if norm(c['name']) == 'cocls::queue' and 'GenCallback' in c['inst']]
    if not cs:
        raise Broken('GenAggrQueue instantiation not found')
    for c in cs[:2]:
        mx = next((x for x in c['fields'] if x['name'] == '_mx'), None)
        t = (mx or {}).get('canon_type') or ''
        ctx.ob(rid, 'cocls::queue<GenCallback*>', c['loc'], 'std::mutex' in t, 'lock type of the completion queue is %s' % t, desc='completion queue is not protected by std::mutex')


def charge_runs_now(ctx, db):
    """GenCallback::charge re-arms a source through next_awt::subscribe.  The aggregator's controller blocks its thread in the destructor until
    every re-armed source has reported: a source that was only put on the thread's ready queue never runs while that thread is blocked"""
    rid = ctx.rule('C14.charge-runs-source-now', 'PATHS', 'generator::next_awt::subscribe: the handle obtained from next_async is resumed on the spot (coroutine_handle::resume) exactly once on every '
                   'path and never handed to the ready queue (coro_queue::resume / push): the aggregator\'s drain blocks the thread that would have to drain that queue', floor=1)
    T = htracer(db)
    seen = set()
    for f in db.need('cocls::generator::next_awt::subscribe'):
        if f['key'] in seen:
            continue
        seen.add(f['key'])
        trs = [t for t in T.traces(f) if live(t)]
        ctx.paths(rid, len(trs))
        bad = None
        for tr in trs:
            ask = index_of(tr, callee_is('cocls::generator::promise_type::next_async'))
            now = [c for c in tr[ask + 1:] if c.k == 'call' and norm(c.get('callee')) in ('std::coroutine_handle::resume', 'std::coroutine_handle::operator()')]
            later = [c for c in tr[ask + 1:] if c.k == 'call' and (norm(c.get('callee')) in ('cocls::coro_queue::resume', 'cocls::coro_queue::push') or norm(c.get('callee') or '').startswith('cocls::coro_queue::queue_impl::push'))]
            if ask < 0:
                bad = bad or ('the generator is not asked (next_async)', tr)
            elif later:
                bad = bad or ('the source is handed to %s instead of being resumed: it does not run while the draining thread is blocked' % norm(later[0].get('callee')), tr)
            elif len(now) != 1:
                bad = bad or ('the source is resumed %d times' % len(now), tr)
        ctx.ob(rid, f, f['key'], bad is None and bool(trs), 'subscribe resumes the asked generator on the spot' + ('' if not bad else ' -- ' + bad[0]), desc=bad[0] if bad else None,
               trace=fmt_trace(bad[1]) if bad else None)
