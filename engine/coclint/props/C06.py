# C06 - a suspend point never loses or duplicates a ready coroutine
import re
from ..core import Item, norm, relloc, live, calls, evs, Broken, value_origin, Tracer, fmt_trace, rooted, has_back_edge, pos, efield, tests
from .. import witness
from ..rules import *

EXPLANATION = ('Static analysis of suspend_point<void> by abstract interpretation of every CFG path over a small domain (per object: storage mode heap / inline / unknown, derived '
               'from the repository\'s own predicate "_count_flag & 1"; old-array-deleted; array-installed): inline storage is only accessed in inline mode and heap storage '
               'only in heap mode or after the array was installed; a write that may clear the heap bit is preceded by delete[] or by a transfer of the array; an overwrite of '
               'the heap array is preceded by delete[] of the old one; delete[] only in heap mode; the heap bit is set only after an array was installed; the capacity stored '
               'equals the size allocated and growth is control-dependent on the count having reached the capacity. Move construction and merge reset the source to empty on '
               'every path after their last read of it and hand every source element to add exactly once; consumers clear exactly once; pop removes exactly one; the attached '
               'value is written only by constructors; copying does not compile. Undecided: the index arithmetic of the 0..40-handle quantifier beyond the allocated-size = '
               'stored-capacity agreement (no numeric abstract domain is applied to indices).')
ASSUMPTIONS = ['the parity of _count_flag is the storage discriminant (bit 0), as used consistently by the code itself; if that encoding changes the predicate anchor vanishes (exit 2)']

SP = 'cocls::suspend_point'
PRED = re.compile(r'^\(*((?:this|param:\w+|local:\w+)(?:->|\.)?)_count_flag & 1\)*( (?:!=|==) 0\)*)?$')


def run(ctx, db, tier):
    typestate(ctx, db)
    source_reset(ctx, db)
    consumers_clear(ctx, db)
    self_inclusion(ctx, db)
    listed_queued_once(ctx, db)
    awaiter_handed_over_once(ctx, db)
    growth(ctx, db)
    value_writers(ctx, db)
    collected_is_removed(ctx, db)
    parallel_resume_keeps_value(ctx, db)
    if ctx.cfg == 'assert':
        witness.positive(ctx, 'C06.types', 'C06_pos.cpp', 'suspend_point<void> / suspend_point<bool> are move-only; inline capacity is at least 3; a typed suspend point carries its value')
        witness.negative(ctx, 'C06.types-neg', 'C06_neg.cpp', 'copy construction / copy assignment of a suspend point must not compile (duplication needs a copy)')


def consistent(tr):
    """is the trace free of self-contradiction?  A condition that is one evaluation of one event (a bool local defined once: const bool any =
    !empty(); if (any && a) {...} else if (any) {...}) cannot come out differently at two branches unless the event ran again in between (a loop
    iteration, a second expansion of the helper); a plain local / parameter that is tested twice without having been written keeps its value.
    The path enumerator walks every combination of edges: combinations that contradict themselves are not paths of the program"""
    known = {}
    for it in tr:
        if it.k in ('enter', 'leave'):
            continue
        if it.k == 'branch':
            if it.get('cond_ev') is not None:
                k = (it.get('fn'), it.get('depth', 0), it['cond_ev'], it.get('rcond_ev'), it.get('path'))
                v = bool(it.val)
            elif re.fullmatch(r'(local|param):\w+(#\d+)?', it.get('path') or ''):
                k = (it.get('fn'), it.get('depth', 0), None, None, it['path'])
                v = bool(it.val)
            else:
                continue
            if k in known and known[k] != v:
                return False
            known[k] = v
            continue
        if it.get('id') is not None:
            for k in [k for k in known if k[2] == it['id'] and k[0] == it.get('fn') and k[1] == it.get('depth', 0)]:
                del known[k]          # the event ran again: a new value
        if it.k in ('write', 'decl') or (it.k == 'call' and it.get('args')):
            ps = [it.get('path'), it.get('var')] + [a.get('path') for a in (it.get('args') or []) if '&' in (a.get('type') or '&')]
            for k in [k for k in known if k[2] is None and any(p and (p == k[4] or p == '&(%s)' % k[4]) for p in ps)]:
                del known[k]
    return True


_OPRE = re.compile(r' (\|\||&&|==|!=|<=|>=|<<|>>|[|^&<>+\-*/%?:]) ')


def _top_ops(body):
    """top-level binary operators of 'A op B op C': [(start, op, end)]"""
    d = 0; found = []; i = 0
    while i < len(body):
        ch = body[i]
        if ch in '([':
            d += 1
        elif ch in ')]':
            d -= 1
        elif ch == ' ' and d == 0:
            m = _OPRE.match(body, i)
            if m:
                found.append((i, m.group(1), m.end()))
                i = m.end() - 1
        i += 1
    return found


def int_eval(expr, atom):
    """integer value of an access-path expression (fully parenthesised C arithmetic / comparison / logic over literals and atoms);
    atom(a) gives the value of an atom or None; None when any part is not interpretable"""
    e = (expr or '').strip()
    if not e:
        return None
    if re.fullmatch(r'\d+', e):
        return int(e)
    if e in ('true', 'false', 'nullptr'):
        return 1 if e == 'true' else 0
    v = atom(e)
    if v is not None:
        return v
    if e.startswith('!'):
        v = int_eval(e[1:], atom)
        return None if v is None else int(not v)
    m = re.fullmatch(r'(?:ctor|move|forward|static_cast<[^()]*>|cast)\((.*)\)', e)
    if m and m.group(1).count('(') == m.group(1).count(')'):
        return int_eval(m.group(1), atom)
    if e.startswith('(') and e.endswith(')'):
        d = 0
        for i, ch in enumerate(e):
            d += ch == '('; d -= ch == ')'
            if d == 0 and i < len(e) - 1:
                return None          # '(a)(b)': not one group
        body = e[1:-1]
        ops = _top_ops(body)
        if not ops:
            return int_eval(body, atom)
        if any(o[1] in '?:' for o in ops):
            sp = split_select(e)
            if not sp:
                return None
            c = int_eval(sp[0], atom)
            return None if c is None else int_eval(sp[1] if c else sp[2], atom)
        kinds = {o[1] for o in ops}
        if len(kinds) > 1 and not kinds <= {'+', '-'}:
            return None
        s, op, en = ops[-1]
        a = int_eval(body[:s], atom)
        if a is None:
            return None
        if op == '&&' and not a:
            return 0
        if op == '||' and a:
            return 1
        b = int_eval(body[en:], atom)
        if b is None:
            return None
        try:
            return {'||': lambda: int(bool(a or b)), '&&': lambda: int(bool(a and b)), '|': lambda: a | b, '^': lambda: a ^ b, '&': lambda: a & b,
                    '==': lambda: int(a == b), '!=': lambda: int(a != b), '<=': lambda: int(a <= b), '>=': lambda: int(a >= b), '<': lambda: int(a < b),
                    '>': lambda: int(a > b), '<<': lambda: a << b, '>>': lambda: a >> b, '+': lambda: a + b, '-': lambda: a - b, '*': lambda: a * b,
                    '/': lambda: a // b, '%': lambda: a % b}[op]()
        except (ZeroDivisionError, ValueError, KeyError):
            return None
    return None


def _mentions(expr, names):
    return any(re.search(re.escape(n) + r'(?![\w#])', expr or '') for n in names)


def word_step(tr, word, N=12):
    """one live trace read as a transformer of the unsigned count word at `word` (count << 1 | heap bit): {start value: end value} for
    every start value in 0..N-1 under which all the tests of the word on this trace - written on the word itself, on a local computed from
    it, or inside an expanded accessor (empty(), size(), a predicate) - come out the way the trace took them.  Locals are evaluated where
    they are declared / assigned, so a value taken before a store to the word stays the old one.  None when a test of the word or a store
    to it is not interpretable (the caller then cannot decide by evaluation)"""
    out = {}
    for v0 in range(N):
        st = {word: v0}; dep = {word}; ok = True
        for i, it in enumerate(tr):
            def atom(a, i=i):
                if a in st:
                    return st[a]
                if re.fullmatch(r'call\([^()]*\)', a):
                    r = inline_returns(tr, i, a)
                    if r != a:
                        return int_eval(r, atom)
                return None
            if it.k == 'decl' and it.get('var'):
                ini = it.get('init')
                v = None
                if ini is not None:
                    src = inline_returns(tr, i, ini)
                    v = int_eval(src, lambda a: None if a == it['var'] else atom(a))
                    if v is None and isinstance(it.get('const'), int) and not isinstance(it.get('const'), bool):
                        v = it['const']
                    if _mentions(src, dep):
                        dep.add(it['var'])
                st[it['var']] = v
            elif it.k == 'call' and norm(it.get('callee') or '') == 'std::exchange' and it.get('args') and it['args'][0].get('path') in st:
                p = it['args'][0]['path']
                a1 = it['args'][1] if len(it['args']) > 1 else {}
                nv = a1.get('const') if isinstance(a1.get('const'), int) else int_eval(a1.get('path'), atom)
                st['call(std::exchange)'] = st[p]
                if p == word:
                    if nv is None:
                        return None
                    nv &= 0xFFFFFFFF
                st[p] = nv
            elif it.k == 'write' and (it.get('path') == word or it.get('path') in st):
                p = it['path']; cur = st.get(p)
                op = '=' if it.get('init') else (it.get('op') or '=')
                rv = it['const'] if isinstance(it.get('const'), int) and not isinstance(it.get('const'), bool) else int_eval(it.get('rhs'), atom)
                if op == '=':
                    nv = rv
                elif op in ('++', '--'):
                    nv = None if cur is None else cur + (1 if op == '++' else -1)
                elif cur is None or rv is None:
                    nv = None
                else:
                    nv = int_eval('(%d %s %d)' % (cur, op[:-1], rv), lambda a: None) if op.endswith('=') and cur >= 0 and rv >= 0 else None
                if p == word:
                    if nv is None:
                        return None
                    nv &= 0xFFFFFFFF
                elif _mentions(it.get('rhs') or '', dep):
                    dep.add(p)
                st[p] = nv
            elif it.k == 'branch':
                cands = [(it.get('path'), it.val)] + [(k_, v_) for k_, v_ in (it.get('forms') or {}).items()]
                about = False; decided = None
                for p_, val_ in cands:
                    if not p_:
                        continue
                    p2 = p_
                    about = about or _mentions(p2, dep) or _mentions(inline_returns(tr, i, p2), dep)
                    v = int_eval(p2, atom)
                    if v is not None:
                        decided = (bool(v) == bool(val_)); break
                if decided is None:
                    if about:
                        return None
                    continue
                if not decided:
                    ok = False; break
        if ok:
            out[v0] = st[word]
    return out


def objof(p):
    """object that owns a storage access path: this->._ext._handles -> this ; param:other._count_flag -> param:other"""
    m = re.match(r'^(this|param:\w+|local:\w+)(?:->|\.)', p or '')
    return m.group(1) if m else None


def heap_pred(path, boolvars):
    """(object, polarity) when `path` is the heap-in-use predicate, possibly through a bool local"""
    if path in boolvars:
        return boolvars[path]
    m = PRED.match(path or '')
    if not m:
        return None
    obj = m.group(1).rstrip('->').rstrip('.')
    pol = True
    if m.group(2) and '==' in m.group(2):
        pol = False
    return (obj, pol)


def parity_effect(ev):
    """how a write to _count_flag changes bit 0: ('set', 0/1), ('flip',), ('keep',), ('copy', srcobj), ('unknown',)"""
    op = ev.get('op') or '='
    c = ev.get('const')
    if ev.get('init'):
        rhs = ev.get('rhs') or ''
        if c is not None:
            return ('set', c & 1)
        m = re.fullmatch(r'((?:this|param:\w+|local:\w+))(?:->|\.)_count_flag', rhs)
        if m:
            return ('copy', m.group(1))
        return ('unknown',)
    if op in ('+=', '-='):
        if c is None:
            return ('unknown',)
        return ('flip',) if (c & 1) else ('keep',)
    if op in ('++', '--'):
        return ('flip',)
    if op == '=':
        if c is not None:
            return ('set', c & 1)
        rhs = ev.get('rhs') or ''
        if re.search(r'(<< 1|\* 2)\)$', rhs):
            return ('set', 0)
        m = re.fullmatch(r'((?:this|param:\w+|local:\w+))(?:->|\.)_count_flag', rhs)
        if m:
            return ('copy', m.group(1))
        m2 = re.fullmatch(r'\((.*?)(?:->|\.)_count_flag ([+-]) (\d+)\)', rhs)
        if m2:
            return ('keep',) if int(m2.group(3)) % 2 == 0 else ('flip',)
        return ('unknown',)
    if op in ('|=',) and c is not None and c & 1:
        return ('set', 1)
    if op in ('&=',) and c is not None and not (c & 1):
        return ('set', 0)
    return ('unknown',)


def sp_functions(db):
    out = []
    for k in db.keys():
        f = db.rep(k)
        g = f
        while g is not None and g.get('lambda') and g.get('parent_key'):
            g = db.get(g['parent_key'])
        cls = norm((g or {}).get('class') or '')
        if cls == SP and '/suspend_point.h' in k:
            out.append(f)
    return out


def typestate(ctx, db, rid='C06.storage-typestate'):
    rid = ctx.rule(rid, 'ABSTRACT-INTERPRETATION', 'per CFG path and per suspend-point object: inline storage accessed only in inline mode, heap storage only in heap mode '
                   '(or once the new array is installed); clearing the heap bit / overwriting the array requires delete[] (or transfer) of the old array first; delete[] only in '
                   'heap mode; setting the heap bit requires an installed array. Mode facts come from branches on the code\'s own predicate (_count_flag & 1)', floor=8)
    fns = sp_functions(db)
    if len(fns) < 10:
        raise Broken('suspend_point<void> members not instantiated (have %d)' % len(fns))
    npred = 0
    T = Tracer(db, depth=5, inline_filter=lambda caller, ev, callee: is_helper(db, caller, callee) and not callee.get('lambda'), maxvisit=2, limit=20000)
    in_class_callers = lambda f: [c for c in callers_of(db, f['nname']) if c.startswith(SP + '::') or c.startswith(SP + '<')]
    for f in fns:
        touches = any(re.search(r'_count_flag|\._ext|\._local', (e.get('path') or '') + (e.get('rhs') or '')) for e in f.events() if e.k in ('read', 'write', 'delete'))
        if not touches:
            continue
        trs = T.traces(f)
        if T.truncated:
            raise Broken('path bound exceeded in ' + f['nname'])
        ctx.paths(rid, len(trs))
        bad = None
        is_ctor = f.get('kind') == 'ctor'
        for tr in trs:
            if bad:
                break
            if not consistent(tr):
                continue          # a combination of edges that contradicts itself (one flag local read as true and as false) is no path
            heap = {}; deleted = {}; installed = {}; transferred = {}; boolvars = {}; eq = {}; pending_xchg = None; words = {}
            if is_ctor:
                deleted['this'] = True          # a fresh object has no old array
            for i, it in enumerate(tr):
                if it.k == 'abort':
                    break
                if it.k == 'decl' and it.get('init'):
                    if re.fullmatch(r'(?:this|param:\w+|local:\w+)(?:->|\.)_count_flag', it['init']) and it.get('var'):
                        words[it['var']] = it['init']          # a local that holds the whole count word (const unsigned state = other._count_flag;)
                        continue
                    hp = heap_pred(_word_subst(it['init'], words), boolvars)
                    if hp:
                        boolvars[it['var']] = hp
                    continue
                if it.k == 'branch':
                    hp = heap_pred(_word_subst(it.path or '', words), boolvars)
                    if hp:
                        npred += 1
                        obj, pol = hp
                        val = (it.val == pol)
                        heap[obj] = val
                        if obj in eq:
                            heap[eq[obj]] = val
                        if not is_ctor or obj != 'this':
                            deleted[obj] = False if val else deleted.get(obj, False)
                    continue
                if it.k == 'call' and norm(it.get('callee') or '') == 'std::exchange' and it.get('args') and (it['args'][0].get('path') or '').endswith('_count_flag') and objof(it['args'][0]['path']):
                    # std::exchange(X._count_flag, c): X's word becomes c, the old word (and with it the storage it describes) goes to whoever takes the result
                    xo = objof(it['args'][0]['path'])
                    pending_xchg = (xo, heap.get(xo))
                    c_ = it['args'][1].get('const') if len(it['args']) > 1 else None
                    transferred[xo] = True
                    heap[xo] = bool(c_ & 1) if c_ is not None else None
                    continue
                if it.k == 'call' and norm(it.get('callee') or '').endswith('::operator=') and re.search(r'\._(ext|local)$', it.get('recv') or ''):
                    # trivial struct assignment of the storage union member: a write of the whole member
                    it = Item(it, k='write', path=it.get('recv'), rhs=(it.get('args') or [{}])[0].get('path'), op='=')
                if it.k not in ('read', 'write', 'delete'):
                    continue
                p = it.get('path') or ''
                obj = objof(p)
                if obj is None:
                    continue
                # a whole-member copy reads its source: X._ext may be read only in heap mode of X, X._local only in inline mode of X
                rhs_ = it.get('rhs') or ''
                if it.k == 'write' and re.search(r'\._(ext|local)$', rhs_) and objof(rhs_):
                    so = objof(rhs_)
                    want = rhs_.endswith('_ext')
                    known = heap.get(so)
                    if known is None and so in eq.values():
                        known = next((heap.get(k_) for k_, v_ in eq.items() if v_ == so and heap.get(k_) is not None), None)
                    if known is not want:
                        bad = ('%s storage of %s is copied while its storage mode is not known to be %s (the two alternatives differ in size: handles are lost or garbage is taken over)' % ('heap' if want else 'inline', so, 'heap' if want else 'inline'), tr, i); break
                if it.k == 'delete' and re.search(r'\._ext\._handles$', p):
                    if heap.get(obj) is not True:
                        bad = ('delete[] of %s while the storage mode is not known to be heap (would free inline bytes / garbage)' % p, tr, i); break
                    deleted[obj] = True
                    continue
                if re.search(r'\._local\b', p) and it.k in ('read', 'write'):
                    if heap.get(obj) is not False and not (is_ctor and obj == 'this' and it.k == 'write' and heap.get(obj) is None and False):
                        if not (f.get('kind') == 'ctor' and it.k == 'write' and heap.get(obj) is None and '_count_flag' not in p and _ctor_sets_inline(f)):
                            bad = ('%s of inline storage %s while the storage mode is not known to be inline' % (it.k, p), tr, i); break
                    continue
                if re.search(r'\._ext\b', p):
                    whole = bool(re.search(r'\._ext(\._handles)?$', p))
                    if it.k == 'read':
                        if heap.get(obj) is not True and not installed.get(obj):
                            bad = ('read of heap storage %s while the storage mode is not known to be heap' % p, tr, i); break
                    else:
                        if whole:
                            if heap.get(obj) is not False and not deleted.get(obj):
                                bad = ('the heap array %s is overwritten without delete[] of the old array' % p, tr, i); break
                            installed[obj] = True
                            src = objof(it.get('rhs') or '')
                            if src and src != obj and re.search(r'\._ext', it.get('rhs') or ''):
                                transferred[src] = True
                        elif heap.get(obj) is not True and not installed.get(obj):
                            bad = ('write into heap storage %s while the storage mode is not known to be heap' % p, tr, i); break
                    continue
                if p.endswith('_count_flag') and it.k == 'write':
                    for k_ in [k_ for k_, v_ in words.items() if v_ == p]:
                        del words[k_]          # the copy is the old word from here on
                    eff = parity_effect(it)
                    old = heap.get(obj)
                    if eff[0] == 'unknown' and (it.get('rhs') or '') == 'call(std::exchange)' and pending_xchg is not None:
                        # initialised from the old word of another suspend point: same mode as that one had, and it describes that one's storage
                        eff = ('copy', pending_xchg[0]); heap[pending_xchg[0] + '@old'] = pending_xchg[1]
                        new = pending_xchg[1]; eq[obj] = pending_xchg[0]
                    elif eff[0] == 'copy':
                        new = heap.get(eff[1]); eq[obj] = eff[1]
                    elif eff[0] == 'set':
                        new = bool(eff[1])
                    elif eff[0] == 'flip':
                        new = (not old) if old is not None else None
                    elif eff[0] == 'keep':
                        new = old
                    else:
                        new = None
                    if eff[0] in ('set', 'flip', 'unknown'):
                        may_clear = (new is False or new is None)
                        if may_clear and old is not False and not (deleted.get(obj) or transferred.get(obj)) and not it.get('init'):
                            bad = ('the heap bit of %s may be cleared while a heap array may still be owned (no delete[] / transfer on this path): the array leaks and the handles in it are lost' % obj, tr, i); break
                        if new is True and old is not True and not installed.get(obj) and not it.get('init'):
                            bad = ('the heap bit of %s is set without a heap array having been installed' % obj, tr, i); break
                    heap[obj] = new
                    if new is False:
                        installed[obj] = False
        if bad and f.get('access') != 0 and not f.get('lambda') and in_class_callers(f):
            # a non-public helper is judged in the context of its callers (it is inlined into them above), not from an unknown entry state
            ctx.notes.append('helper %s judged in the context of its callers only' % f['nname']) if ('helper %s judged in the context of its callers only' % f['nname']) not in ctx.notes else None
            bad = None
        ctx.ob(rid, f, f['key'], bad is None, 'storage typestate holds on all %d path(s) of %s' % (len(trs), f['nname'].split('::')[-1]) + ('' if not bad else ' -- ' + bad[0]),
               desc=(re.sub(r'(this|param:\w+|local:\w+)', 'OBJ', bad[0])[:120] if bad else None), trace=short_trace(bad[1], bad[2]) if bad else None)
    if npred < 5:
        raise Broken('the heap-in-use predicate (_count_flag & 1) was recognised at %d branch(es) only: the encoding changed' % npred)


def _word_subst(path, words):
    """a test written on a local copy of the count word is a test of the word (as long as the word has not been stored to since)"""
    if not words or not path:
        return path
    return re.sub(r'local:\w+(#\d+)?', lambda m: words.get(m.group(0), m.group(0)), path)


def _ctor_sets_inline(f):
    """suspend_point(coroutine_handle) : _count_flag(2) {_local._handles[0] = ...} : constant even initialiser = inline mode"""
    for e in f.events():
        if e.k == 'write' and e.get('init') and (e.get('path') or '').endswith('_count_flag'):
            return e.get('const') is not None and (e['const'] & 1) == 0
    # default member initialiser _count_flag = 0 is not an event: absence of an initialiser means the default (0)
    return True


def source_reset(ctx, db, rid='C06.source-reset'):
    rid = ctx.rule(rid, 'COUNT+ORDER', 'move construction and merge (operator<<(suspend_point&&), hence move-assignment) leave the source empty on every path: the '
                   'source\'s _count_flag is set to 0 (assignment or std::exchange) and nothing else is written to it afterwards; the merge hands each source element to add() exactly once per loop iteration', floor=2)
    targets = []
    for f in db.fns('cocls::suspend_point::suspend_point'):
        if any('suspend_point' in p['type'] and '&&' in p['type'] for p in f['params']) and f.get('class_inst') == 'cocls::suspend_point<void>':
            targets.append(f)
    for f in db.fns('cocls::suspend_point::operator<<'):
        if any('suspend_point' in p['type'] and '&&' in p['type'] for p in f['params']):
            targets.append(f)
    if len(targets) < 2:
        raise Broken('move constructor / merge operator of suspend_point<void> not instantiated')
    # helpers of the class are expanded (the body may live in take_storage(other) / other.move_handles_to(*this)); add() is the sink the
    # elements are handed to and stays a call
    T = Tracer(db, depth=4, maxvisit=2, inline_filter=lambda caller, ev, callee: is_helper(db, caller, callee) and not callee.get('lambda') and callee['nname'] != 'cocls::suspend_point::add')
    seen = set()
    for f in targets:
        if f['key'] in seen:
            continue
        seen.add(f['key'])
        src = 'param:' + next(p['name'] for p in f['params'] if 'suspend_point' in p['type'])
        trs = [t for t in T.traces(f) if live(t) and consistent(t)]
        if T.truncated:
            raise Broken('path bound exceeded in ' + f['nname'])
        ctx.paths(rid, len(trs))
        bad = None
        for tr in trs:
            acc = [(i, it) for i, it in enumerate(tr) if it.k in ('read', 'write', 'delete') and rooted(it.get('path') or '', src)]
            acc += [(i, it) for i, it in enumerate(tr) if it.k == 'call' and any(rooted(a.get('path') or '', src) for a in it.get('args', []))]
            acc.sort(key=lambda x: x[0])
            if not acc:
                bad = bad or ('a path never touches the source', tr); continue
            # the source's count word ends up 0: written 0 (or exchanged with 0) and not written anything else afterwards.  Reading the
            # source's storage bytes after that is harmless (they are plain words), so the zeroing need not be the last access
            def _cf_write(it):
                if it.k == 'write' and rooted(it.get('path') or '', src) and (it.get('path') or '').endswith('_count_flag'):
                    return 'zero' if (it.get('const') == 0 and (it.get('op') or '=') == '=') else 'other'
                if it.k == 'call' and norm(it.get('callee') or '') in ('std::exchange',) and it.get('args') and rooted(it['args'][0].get('path') or '', src) and (it['args'][0].get('path') or '').endswith('_count_flag'):
                    return 'zero' if len(it['args']) > 1 and it['args'][1].get('const') == 0 else 'other'
                return None
            cw = [_cf_write(it) for it in tr if _cf_write(it)]
            # the source still counts the handles that were just handed over: nothing that runs or drops "its" handles may be called on it
            run_ = [it for it in tr if it.k == 'call' and rooted(it.get('recv') or '', src) and
                    norm(it.get('callee') or '') in ('cocls::suspend_point::clear', 'cocls::suspend_point::suspend_now', 'cocls::suspend_point::flush', 'cocls::suspend_point::pop',
                                                     'cocls::suspend_point::~suspend_point', 'cocls::suspend_point::await_suspend')]
            if run_:
                bad = bad or ('%s() is called on the source while it still counts the handles that were handed over: they are resumed by the source and again by the target' % norm(run_[0].get('callee')).split('::')[-1], tr)
            if not cw or cw[-1] != 'zero':
                bad = bad or ('on some path the source is not reset to empty after its handles were taken (they would be resumed twice)', tr)
            if f['nname'].endswith('operator<<'):
                # per loop iteration exactly one add(source element)
                seg = []; inloop = False
                for it in tr:
                    if it.k == 'branch' and it.term in ('ForStmt', 'WhileStmt', 'CXXForRangeStmt'):
                        if inloop and len([x for x in seg if x]) != 1:
                            bad = bad or ('a loop iteration of the merge hands over %d source elements instead of one' % len(seg), tr)
                        inloop = bool(it.val); seg = []
                    elif it.k == 'call' and norm(it.get('callee')) == 'cocls::suspend_point::add' and inloop:
                        seg.append(any((rooted(a.get('path') or '', src) or (src + '.') in (a.get('path') or '')) and '[]' in (a.get('path') or '') for a in it.get('args', [])))
        ctx.ob(rid, f, f['key'], bad is None, 'source emptied last, elements handed over once' + ('' if not bad else ' -- ' + bad[0]), desc=bad[0] if bad else None, trace=fmt_trace(bad[1]) if bad else None)
    for f in db.fns('cocls::suspend_point::operator=')[:1]:
        n = [e for e in f.events() if e.k == 'call' and norm(e.get('callee')) == 'cocls::suspend_point::operator<<']
        # ... and nothing but the merge: the handles the target already holds are ready coroutines too; emptying the target first (clear_internal,
        # a write to its own count word) drops them without resuming them - only the running forms (clear / suspend_now / flush) may precede
        drops = []
        if n:
            Tm = Tracer(db, depth=4, inline_filter=lambda c, e, callee: is_helper(db, c, callee) and callee['nname'] != 'cocls::suspend_point::operator<<', maxvisit=2)
            for tr in Tm.traces(f):
                mi = index_of(tr, callee_is('cocls::suspend_point::operator<<'))
                for e in (tr[:mi] if mi >= 0 else tr):
                    if (e.k == 'call' and norm(e.get('callee')) == 'cocls::suspend_point::clear_internal' and rooted(e.get('recv') or 'this', 'this')) or \
                            (e.k == 'write' and (e.get('path') or '') == 'this->_count_flag') or (e.k == 'delete' and rooted(e.get('path') or '', 'this')):
                        drops.append(e)
        ctx.ob(rid, f, f['key'], len(n) == 1 and not drops, 'move-assignment is the merge' + ('' if not drops else ' -- the target is emptied without running what it held (%s at %s)' % (drops[0].k, relloc(drops[0]['loc']))),
               desc='move-assignment is not implemented by the merge' if len(n) != 1 else ('move-assignment drops the handles the target already holds' if drops else None))


def consumers_clear(ctx, db, rid='C06.consumers-clear'):
    rid = ctx.rule(rid, 'COUNT', 'suspend_now clears the storage exactly once on every path; await_suspend clears exactly once on the coroutine-mode edge after it queued '
                   'the handles; the destructor runs suspend_now on the non-empty edge; pop decrements the count by exactly one handle on the non-empty edge and writes nothing on '
                   'the empty edge', floor=4)
    for f, trs in traces_of(db, 'cocls::suspend_point::suspend_now', depth=0, per_instance=False):
        trs = [t for t in trs if live(t) and consistent(t)]
        ctx.paths(rid, len(trs))
        bad = None
        for tr in trs:
            ci = all_indices(tr, callee_is('cocls::suspend_point::clear_internal'))
            if len(ci) != 1:
                bad = bad or ('clear_internal called %d times on a path' % len(ci), tr)
            elif any(it.k == 'call' and norm(it.get('callee') or '') in ('cocls::coro_queue::queue_impl::push', 'cocls::coro_queue::install_queue_and_call') for it in tr[ci[0]:]):
                bad = bad or ('the storage is cleared before its handles were run/queued', tr)
        ctx.ob(rid, f, f['key'], bad is None, 'suspend_now: clear exactly once, last' + ('' if not bad else ' -- ' + bad[0]), desc=bad[0] if bad else None)
    for f, trs in traces_of(db, 'cocls::suspend_point::await_suspend', depth=1, inline=inline_only('cocls::coro_queue::is_active'), per_instance=False):
        trs = [t for t in trs if live(t) and consistent(t)]
        ctx.paths(rid, len(trs))
        bad = None; na = 0
        for tr in trs:
            act = None
            for it in tr:
                if it.k == 'branch' and ('is_active' in (it.path or '') or 'coro_queue::instance' in (it.path or '')):
                    n = nullness(it); act = n[1] if n else None; break
            ci = all_indices(tr, lambda ev: ev.k == 'call' and norm(ev.get('callee')) == 'cocls::suspend_point::clear_internal')
            if act:
                na += 1
                if len(ci) != 1:
                    bad = bad or ('coroutine-mode edge clears %d times' % len(ci), tr)
                pi = all_indices(tr, lambda ev: ev.k == 'call' and norm(ev.get('callee')) == 'cocls::suspend_point::pop')
                if len(pi) != 1 or (ci and pi[0] > ci[0]):
                    bad = bad or ('the handle to transfer to is not popped exactly once before the clear', tr)
            elif ci:
                bad = bad or ('normal-mode edge clears although its handles are only run by the nested call', tr)
            elif not act and all_indices(tr, lambda ev: ev.k == 'call' and norm(ev.get('callee')) == 'cocls::suspend_point::pop'):
                bad = bad or ('the normal-mode edge takes a handle out of the suspend point before it delegates to the nested call: that handle is resumed by nobody', tr)
        if na == 0 and not bad:
            bad = ('no coroutine-mode edge', trs[0] if trs else [])
        ctx.ob(rid, f, f['key'], bad is None, 'await_suspend: pop once, queue the rest, clear once' + ('' if not bad else ' -- ' + bad[0]), desc=bad[0] if bad else None)
    # normal-mode edge of await_suspend: the closure run under the temporary queue must consume the handles (delegate to the nested
    # await_suspend / suspend_now, or clear after running them): handles that are run but stay in the list are run again by the destructor
    lams = lambdas_of(db, 'cocls::suspend_point::await_suspend')
    if not lams:
        # the normal-mode arm may have been moved into a helper of the class (await_suspend_no_queue(h)): its closures are the ones meant
        hk = {g['key'] for f in db.fns('cocls::suspend_point::await_suspend')[:1] for g in helper_bodies(db, f)}
        lams = [lf for k in db.keys() for lf in db.instances(k) if lf.get('lambda') and lf.get('parent_key') in hk and
                any(e.k == 'lambda' and e.get('fn_key') == k and 'install_queue_and_call' in (e.get('use') or '') for e in (db.get(lf['parent_key']) or {'blocks': []}).events())]
    EMPTY = ('cocls::suspend_point::await_suspend', 'cocls::suspend_point::suspend_now', 'cocls::suspend_point::clear', 'cocls::suspend_point::clear_internal', 'cocls::suspend_point::flush')
    seenl = set()
    for lf in lams:
        if lf['key'] in seenl:
            continue
        seenl.add(lf['key'])
        trs = [t for t in htracer(db).traces(lf) if live(t)]
        ctx.paths(rid, len(trs))
        bad = None
        for tr in trs:
            em = [c for c in tr if c.k == 'call' and norm(c.get('callee')) in EMPTY and c.get('depth', 0) == 0]
            run_ = [c for c in tr if c.k == 'call' and norm(c.get('callee')) in ('std::coroutine_handle::resume', 'std::coroutine_handle::operator()')]
            if len(em) != 1:
                bad = bad or ('the closure run on the normal-mode edge empties the suspend point %d times%s: its handles are %s' % (len(em), ' while it resumes handles itself' if run_ else '', 'run again by the destructor' if not em else 'consumed twice'), tr)
            elif norm(em[0].get('callee')) == 'cocls::suspend_point::await_suspend' and (em[0].get('use') == 'discard' or not run_):
                # the nested call queues all handles but one and returns that one for symmetric transfer: it has to be resumed here
                bad = bad or ('the handle the nested await_suspend returns for transfer is dropped: that coroutine is in no queue and is never resumed', tr)
        ctx.ob(rid, lf, lf['key'], bad is None and bool(trs), 'await_suspend, normal-mode closure: the handles are consumed exactly once' + ('' if not bad else ' -- ' + bad[0]), desc=bad[0] if bad else None,
               trace=fmt_trace(bad[1]) if bad else None)
    for f, trs in traces_of(db, 'cocls::suspend_point::~suspend_point', depth=0, per_instance=False):
        trs = [t for t in trs if live(t)]
        ctx.paths(rid, len(trs))
        bad = None; n = 0
        for tr in trs:
            nz = None
            for it in tr:
                if it.k == 'branch' and it.get('depth', 0) == 0 and '_count_flag' in (it.path or ''):
                    nl = nullness(it); nz = nl[1] if nl else None
            s = all_indices(tr, callee_is('cocls::suspend_point::suspend_now', 'cocls::suspend_point::clear'))
            if nz is True:
                n += 1
                if len(s) != 1:
                    bad = bad or ('a non-empty suspend point is destroyed without running its handles exactly once', tr)
            elif nz is None and len(s) != 1:
                bad = bad or ('destructor neither tests for empty nor runs the handles', tr)
        ctx.ob(rid, f, f['key'], bad is None and (n > 0 or not bad), 'destructor runs what is left exactly once' + ('' if not bad else ' -- ' + bad[0]), desc=bad[0] if bad else None)
    for f, trs in traces_of(db, 'cocls::suspend_point::pop', depth=0, per_instance=False):
        trs = [t for t in trs if live(t)]
        ctx.paths(rid, len(trs))
        bad = None; ne = 0
        for tr in trs:
            ws = [it for it in tr if it.k == 'write' and (it.get('path') or '').endswith('_count_flag')]
            # the path as a transformer of the count word, over small start values: whatever the test of "non-empty" is spelled like (a local
            # holding the count, _count_flag >= 2, !empty(), an early return), a word that counts >= 1 handle must lose exactly one handle and
            # keep its storage bit, a word that counts none (0, or 1 = emptied heap storage) must stay as it is
            step = word_step(tr, 'this->_count_flag')
            if step is not None:
                for v0, v1 in sorted(step.items()):
                    if v0 >> 1:
                        ne += 1
                        if v1 != v0 - 2:
                            bad = bad or ('pop on a non-empty suspend point does not decrement the count by exactly one handle (found %s)' % [(w.get('op'), w.get('const'), w.get('rhs')) for w in ws], tr)
                    elif v1 != v0:
                        bad = bad or ('pop on an empty suspend point changes the count', tr)
                continue
            nonempty = None; known = False
            for it in tr:
                if it.k == 'branch' and not known and not heap_pred(it.path or '', {}):
                    nl = nullness(it); nonempty = nl[1] if nl else None; known = True
                    if nl is None:
                        raise Broken('pop: the test of the count (%s) is not understood' % it.path)
            if nonempty:
                ne += 1
                if len(ws) != 1 or delta_of_write(ws[0]) != -2:
                    bad = bad or ('pop on a non-empty suspend point does not decrement the count by exactly one handle (found %s)' % [(w.get('op'), w.get('const'), w.get('rhs')) for w in ws], tr)
            elif ws:
                bad = bad or ('pop on an empty suspend point changes the count', tr)
        if ne == 0 and not bad:
            bad = ('pop has no non-empty edge', trs[0] if trs else [])
        ctx.ob(rid, f, f['key'], bad is None, 'pop: count -= one handle iff non-empty' + ('' if not bad else ' -- ' + bad[0]), desc=(bad[0][:90] if bad else None), trace=fmt_trace(bad[1]) if bad else None)


def growth(ctx, db, rid='C06.growth'):
    rid = ctx.rule(rid, 'LINEAR+GUARDED', 'suspend_point::add: every allocation is control-dependent on the count having reached the current capacity (inline_count or '
                   '_ext._capacity); the capacity stored afterwards is the expression that sized the allocation; the new array is installed on the same path', floor=1)
    for f, trs in traces_of(db, 'cocls::suspend_point::add', depth=0, per_instance=False):
        trs = [t for t in trs if live(t) and consistent(t)]
        ctx.paths(rid, len(trs))
        bad = None; nnew = 0
        for tr in trs:
            for i, it in enumerate(tr):
                if it.k != 'new' or not it.get('array'):
                    continue
                nnew += 1
                guards = [b for b in tr[:i] if b.k == 'branch' and re.search(r'_capacity|inline_count', b.path or '')]
                if not guards:
                    bad = bad or ('an allocation is not guarded by a capacity test', tr); continue
                g = guards[-1]
                full = reached_capacity(g, tr, pos(tr, g))
                if not full:
                    bad = bad or ('an allocation happens although the count has not reached the capacity', tr)
                size = re.sub(r'\s+', '', it.get('size') or '')
                cap = next((w for w in tr[i:] if w.k == 'write' and (w.get('path') or '').endswith('._ext._capacity')), None)
                inst = next((w for w in tr[i:] if w.k == 'write' and (w.get('path') or '').endswith('._ext._handles')), None)
                if cap is None or re.sub(r'\s+', '', cap.get('rhs') or '') != size:
                    bad = bad or ('the capacity recorded (%s) is not the size that was allocated (%s): later adds write past the end of the array' % ((cap or {}).get('rhs'), it.get('size')), tr)
                if inst is None:
                    bad = bad or ('the allocated array is not installed', tr)
        if nnew < 2 and not bad:
            raise Broken('suspend_point::add lost its growth paths (found %d allocations)' % nnew)
        ctx.ob(rid, f, f['key'], bad is None, 'allocations guarded by capacity, recorded capacity = allocated size' + ('' if not bad else ' -- ' + bad[0]), desc=(bad[0][:80] if bad else None),
               trace=fmt_trace(bad[1]) if bad else None)


def _linear(side):
    """side of a comparison as (count coefficient, capacity coefficient, constant); None when not of that shape"""
    side = side.strip()
    while side.startswith('(') and side.endswith(')') and side.count('(') == side.count(')'):
        inner = side[1:-1]
        depth = 0; ok = True
        for ch in inner:
            if ch == '(':
                depth += 1
            elif ch == ')':
                depth -= 1
                if depth < 0:
                    ok = False; break
        if not ok:
            break
        side = inner.strip()
    m = re.fullmatch(r'(.+?) ([+-]) (\d+)', side)
    k = 0
    if m:
        side = m.group(1).strip(); k = int(m.group(3)) * (1 if m.group(2) == '+' else -1)
    else:
        m = re.fullmatch(r'(\d+) \+ (.+)', side)
        if m:
            side = m.group(2).strip(); k = int(m.group(1))
    if re.search(r'inline_count$|_capacity$', side):
        return (0, 1, k)
    if re.fullmatch(r'local:count(#\d+)?|\(?(this|param:\w+)(->|\.)_count_flag >> 1\)?', side):
        return (1, 0, k)
    if re.fullmatch(r'\d+', side):
        return (0, 0, int(side))
    return None


def _resolve_calls(path, tr, i):
    """replace values of expanded helpers in an expression by what they returned on this path (sp_count(_count_flag) -> (_count_flag >> 1))"""
    if tr is None or not path:
        return path
    def rep(m):
        o, _ = origin_in_trace(tr, i, m.group(0))
        return ('(%s)' % o.strip('()')) if o and o != m.group(0) and not o.startswith('call(') else m.group(0)
    return re.sub(r'call\([^()]*\)', rep, path)


def reached_capacity(br, tr=None, i=None):
    """does the taken edge of this comparison imply count >= capacity (inline_count / _ext._capacity)?"""
    m = re.fullmatch(r'\((.+) (<=|>=|==|!=|<|>) (.+)\)', _resolve_calls(br.path or '', tr, i))
    if not m:
        return False
    L, op, R = _linear(m.group(1)), m.group(2), _linear(m.group(3))
    if L is None or R is None:
        return False
    # bring to: count*cc + cap*cp + k  OP  0
    cc, cp, k = L[0] - R[0], L[1] - R[1], L[2] - R[2]
    if (cc, cp) == (-1, 1):        # cap - count + k OP 0  -> flip
        cc, cp, k = 1, -1, -k
        op = {'<': '>', '>': '<', '<=': '>=', '>=': '<='}.get(op, op)
    if (cc, cp) != (1, -1):
        return False
    # now: count - cap + k OP 0 ; edge taken: br.val
    if op == '<':
        return (br.val is False) and k <= 0            # count - cap + k >= 0 -> count >= cap - k
    if op == '>=':
        return (br.val is True) and k <= 0
    if op == '<=':
        return (br.val is False) and k <= 1            # count - cap + k > 0
    if op == '>':
        return (br.val is True) and k <= 1
    if op == '==':
        return (br.val is True) and k <= 0
    if op == '!=':
        return (br.val is False) and k <= 0
    return False


def value_writers(ctx, db):
    rid = ctx.rule('C06.value', 'WHO', 'the value attached to a typed suspend point is written only by its constructors (from the producer\'s argument)', floor=1)
    found = who(db, lambda f, e: e.k == 'write' and field_of(e) == 'cocls::suspend_point::value')
    bad = {n: v for n, v in found.items() if not all(e.get('init') for _, e in v)}
    for n, lst in found.items():
        f, e = lst[0]
        ctx.ob(rid, f, e['loc'], n not in bad and f.get('kind') == 'ctor', 'value written by constructor initialiser in %s' % n, desc='suspend_point::value written outside a constructor in ' + n)


def _in_cycle(f, bid):
    from ..core import reach_blocks
    return any(bid in reach_blocks(f, s_) for s_ in f['_blocks'][bid]['succ'] if s_ >= 0)


def _unwrap(p):
    """ctor(move(ctor(x))) -> x: copies and moves of a handle are the handle"""
    while True:
        m = re.fullmatch(r'(?:ctor|move|forward)\((.*)\)', p)
        if not m:
            return p
        p = m.group(1)


def self_inclusion(ctx, db, rid_='C06.self-inclusion'):
    """await_suspend (coroutine mode) queues every handle of the suspend point and then the awaiting coroutine itself unless it was among them.
    The flag that remembers "my own handle was in the list" is computed in a loop: every write to it inside the loop must be monotone
    (|=, or a constant true, or an expression over its old value), otherwise only the last handle scanned counts and an earlier own handle
    is queued twice - the coroutine would be resumed twice"""
    rid = ctx.rule(rid_, 'DATAFLOW', 'suspend_point::await_suspend: the push of the awaiting coroutine (param h) is guarded by a flag; every write to that flag inside the scan loop '
                   'is monotone (|=, constant true, or mentions the flag itself): an own handle found early is not forgotten', floor=1)
    for f, trs in traces_of(db, 'cocls::suspend_point::await_suspend', per_instance=False):
        if not any('coroutine_handle' in p['type'] for p in f['params']):
            continue
        hname = 'param:' + f['params'][0]['name']
        guard = None; unguarded = None
        for tr in trs:
            if not live(tr):
                continue
            for i, it in enumerate(tr):
                if it.k == 'call' and not it.get('expanded') and norm(it.get('callee') or '').endswith('::push') and any(_unwrap(a.get('path') or '') == hname for a in it.get('args', [])):
                    g = None
                    for b in reversed(tr[:i]):
                        if b.k == 'branch' and b.get('depth', 0) == it.get('depth', 0) and re.search(r'local:\w+(#\d+)?', (b.get('opath') or '') + ' ' + (b.get('path') or '')):
                            # the flag itself, or - when the scan was extracted into a helper that returns it - the helper's flag
                            g = re.search(r'local:\w+(#\d+)?', (b.get('opath') or '') if re.search(r'local:\w+', b.get('opath') or '') else (b.get('path') or '')).group(0); break
                    if g is None:
                        unguarded = unguarded or tr
                    else:
                        guard = guard or g
        if unguarded is not None or guard is None:
            if guard is None and unguarded is None:
                raise Broken('await_suspend no longer queues the awaiting coroutine: anchor changed')
            ctx.ob(rid, f, f['key'], False, 'the awaiting coroutine is queued without a test whether its handle was already in the list', desc='own handle queued unguarded', trace=fmt_trace(unguarded))
            continue
        var = guard
        ws = list({(it.get('fn'), it.get('id')): it for tr in trs for it in tr if it.k == 'write' and it.get('path') == var and not it.get('init')}.values())
        bad = None
        for e in ws:
            fo = db.get(e.get('fn')) or f
            b = fo.block_of(e['id'])
            if b is None or not _in_cycle(fo, b):
                continue
            mono = (e.get('op') in ('|=',)) or (e.get('const') in (1, True) and (e.get('op') or '=') == '=') or (var in (e.get('rhs') or ''))
            if not mono:
                bad = bad or e
        ctx.ob(rid, f, (bad or (ws[0] if ws else {'loc': f['key']}))['loc'], bad is None, 'the flag %s only ever accumulates inside the scan loop' % var.split(':')[1],
               desc='self-inclusion flag overwritten inside the loop')


def listed_queued_once(ctx, db, rid_='C06.listed-handles-queued-once'):
    """await_suspend, coroutine-mode edge: every handle still listed is queued exactly once, and so is the awaiting coroutine - which may itself be
    one of the listed handles.  One iteration of the scan is judged under both hypotheses about the scanned element x (x is / is not the awaiting
    coroutine); the flag that suppresses the final push is evaluated along the path, so paths on which the flag and the comparison disagree are
    not considered.  A scan that skips the own handle and still marks it as queued loses the awaiting coroutine"""
    rid = ctx.rule(rid_, 'COUNT', 'suspend_point::await_suspend, coroutine-mode edge, one scan iteration under both hypotheses: an element that is not the awaiting coroutine is queued exactly '
                   'once and the awaiting coroutine is queued once after the scan; an element that is the awaiting coroutine is queued exactly once in total (in the scan or after it)', floor=1)
    n = 0
    for f, trs in traces_of(db, 'cocls::suspend_point::await_suspend', per_instance=False):
        if not any('coroutine_handle' in p['type'] for p in f['params']):
            continue
        hname = 'param:' + f['params'][0]['name']
        bad = None; judged = 0
        for tr in trs:
            if not live(tr):
                continue
            # the comparison of a scanned element with the awaiting coroutine's address
            cm = []
            for i, it in enumerate(tr):
                if it.k == 'cmp' and it.get('op') in ('==', '!='):
                    sides = [it.get('lhs') or '', it.get('rhs') or '']
                    me = [x for x in sides if hname in x or re.search(r'coroutine_handle(<[^>]*>)?::address', x)]
                    if len(me) == 1:
                        cm.append((i, it, sides[1 - sides.index(me[0])]))
            found_means_me = False
            if not cm:
                # the comparison may be inside a standard search over the listed handles (std::find(begin, end, me) != end): "found" is
                # "some listed handle is the awaiting coroutine"; judged on the paths where the loop over the same range runs once
                sr = _membership_search(tr, hname)
                if sr is None:
                    continue
                ci, cit, elem = sr
                found_means_me = True
            elif len(cm) != 1:
                continue        # no iteration, or more than one unrolled: judged on the single-iteration paths
            else:
                ci, cit, elem = cm[0]
                if not elem.startswith('local:'):
                    continue
            pushes = [(i, it) for i, it in enumerate(tr) if it.k == 'call' and not it.get('expanded') and norm(it.get('callee') or '').endswith('::push')]
            def mentions(it, name, d=0):
                for a in it.get('args', []) or []:
                    if name in (a.get('path') or ''):
                        return True
                    if a.get('ev') is not None and d < 3:
                        src = next((x for x in tr if x.get('id') == a['ev'] and x.get('fn') == it.get('fn') and x.get('depth') == it.get('depth') and x.k in ('call', 'construct')), None)
                        if src is not None and (name in (src.get('recv') or '') or mentions(src, name, d + 1)):
                            return True
                return False
            pe = sum(1 for i, it in pushes if mentions(it, elem))
            ph = sum(1 for i, it in pushes if mentions(it, hname))
            cbr = next((b for b in tr[ci + 1:] if tests(b, cit)), None)
            for hyp in (False, True):       # is the element the awaiting coroutine?
                cval = hyp if (cit.get('op') == '==') != found_means_me else (not hyp)        # (a search: "!= end" is "found")
                if cbr is not None and bool(cbr.val) != cval:
                    continue
                # evaluate bool locals written from the comparison along the path
                env = {}
                feasible = True
                for i, it in enumerate(tr):
                    if it.k == 'decl' and (it.get('var') or '').startswith('local:') and it.get('const') in (0, 1) and (it.get('init') in ('false', 'true')):
                        env[it['var']] = bool(it['const'])
                    elif it.k == 'decl' and i > ci and (it.get('var') or '').startswith('local:') and it.get('init_ev') is not None and it.get('init_ev') == cit.get('id') and it.get('fn') == cit.get('fn'):
                        env[it['var']] = cval          # const bool included = <the comparison>;
                    elif it.k == 'decl' and i > ci and (it.get('var') or '').startswith('local:') and it.get('init') and elem in it['init'] and ('==' in it['init'] or '!=' in it['init']):
                        env[it['var']] = cval if '==' in it['init'] else (not cval)
                    elif it.k == 'write' and (it.get('path') or '') in env or (it.k == 'write' and (it.get('path') or '').startswith('local:') and i > ci and it.get('op') in ('=', '|=', '&=')):
                        v = it['path']
                        rhs = it.get('rhs') or ''
                        if it.get('const') in (0, 1) and rhs in ('true', 'false', '0', '1'):
                            rv = bool(it['const'])
                        elif elem in rhs and ('==' in rhs or '!=' in rhs):
                            rv = cval if '==' in rhs else (not cval)
                        elif rhs in env:
                            rv = env[rhs]
                        else:
                            rv = None
                        old = env.get(v)
                        if it.get('op') == '=':
                            env[v] = rv
                        elif it.get('op') == '|=':
                            env[v] = True if (rv is True or old is True) else (None if (rv is None or old is None) else False)
                        elif it.get('op') == '&=':
                            env[v] = False if (rv is False or old is False) else (None if (rv is None or old is None) else True)
                    elif it.k == 'branch' and i > ci and (it.get('path') in env or it.get('opath') in env):
                        k = it.get('path') if it.get('path') in env else it.get('opath')
                        if env[k] is not None and bool(it.val) != env[k]:
                            feasible = False; break
                if not feasible:
                    continue
                judged += 1
                if hyp and pe + ph != 1:
                    bad = bad or ('a listed handle that is the awaiting coroutine itself is queued %d times (scan %d, after the scan %d): %s' % (pe + ph, pe, ph, 'the awaiting coroutine is never resumed' if pe + ph == 0 else 'it is resumed twice'), tr)
                elif not hyp and pe != 1:
                    bad = bad or ('a listed handle is queued %d times by the scan' % pe, tr)
                elif not hyp and ph != 1:
                    bad = bad or ('the awaiting coroutine is queued %d times although it was not among the listed handles' % ph, tr)
        if judged == 0:
            continue
        n += 1
        ctx.ob(rid, f, f['key'], bad is None, 'every listed handle and the awaiting coroutine are queued exactly once' + ('' if not bad else ' -- ' + bad[0]), desc=bad[0][:80] if bad else None,
               trace=fmt_trace(bad[1]) if bad else None)
    if n == 0:
        raise Broken('await_suspend: the scan that compares the listed handles with the awaiting coroutine was not found')


# what makes a coroutine handle run: it is put into a ready queue / resumed under one (argument), resumed directly (receiver), or returned
# by await_suspend for symmetric transfer
HANDOVER_ARG = ('cocls::suspend_point::await_suspend', 'cocls::coro_queue::resume', 'cocls::coro_queue::install_queue_and_resume', 'cocls::coro_queue::swap_coroutine',
                'cocls::coro_queue::resume_handle')
HANDOVER_RECV = ('std::coroutine_handle::resume', 'std::coroutine_handle::operator()')


def _frame_value(db, tr, i, name):
    """variable `name` of the function that owns item tr[i] (a captured variable of a closure created there), in the terms of the root
    function of the trace: (path, index) - a parameter of an expanded helper is the argument it was called with"""
    it = tr[i]; d = it.get('depth', 0)
    owner = db.get(it.get('fn'))
    if owner is None:
        return None, i
    pn = [p['name'] for p in owner['params']]
    if name not in pn:
        return 'local:%s%s' % (name, '#%d' % d if d else ''), i
    if d == 0:
        return 'param:' + name, i
    for j in range(i - 1, -1, -1):
        x = tr[j]
        if x.k == 'enter' and x.get('depth') == d - 1:
            a = x.ev.get('args') or []
            k = pn.index(name)
            return (a[k].get('path') if k < len(a) else None), j
    return None, i


def _is_value(tr, i, path, target):
    """does `path`, read at tr[i], hold the value of `target` (through copies, locals, values returned by expanded helpers)?"""
    for _ in range(4):
        if path is None:
            return False
        path = _unwrap(path)
        if path == target:
            return True
        o, j = origin_in_trace(tr, i, path)
        o = _unwrap(o or '')
        if o == target:
            return True
        if o == path:
            return False
        path, i = o, j
    return False


def _handovers(tr, is_me, d0=None):
    """the events of one trace that hand the coroutine recognised by is_me(index, path) over to something that resumes it"""
    out = []
    for i, it in enumerate(tr):
        if it.k != 'call' or it.get('expanded'):
            continue
        c = norm(it.get('callee') or '')
        if c in HANDOVER_ARG or c.endswith('::push') or (c.endswith('::push_back') and 'coroutine_handle' in ''.join((a.get('type') or '') for a in it.get('args') or [])):
            if any(is_me(i, a.get('path')) for a in it.get('args') or []):
                out.append(it)
        elif c in HANDOVER_RECV and is_me(i, it.get('recv')):
            out.append(it)
    return out


def awaiter_handed_over_once(ctx, db, rid_='C06.awaiter-handed-over-once'):
    """await_suspend(h) disposes of the awaiting coroutine h: it is queued, or given to a nested await_suspend that queues it (in the closure run
    under the temporary queue), or resumed, or returned for symmetric transfer.  Every one of these makes h run once; two of them on one path
    resume it twice by one co_await (the second time from whatever suspension point it reached meanwhile, or after it was destroyed)"""
    rid = ctx.rule(rid_, 'COUNT', 'suspend_point::await_suspend(h), every path (helpers expanded, closures created on the path and handed to a call included): the awaiting coroutine h is '
                   'handed over for resumption at most once - queue push / nested await_suspend(h) / coro_queue::resume(h) / h.resume() / being the returned value (symmetric transfer) '
                   'are each one hand-over', floor=1)
    noself = lambda c, e, callee: norm(callee.get('nname') or '') != 'cocls::suspend_point::await_suspend'
    TL = Tracer(db, depth=4, maxvisit=2, inline_filter=lambda c, e, callee: is_helper(db, c, callee) and noself(c, e, callee))
    TL.closures_on_stack = True
    lam_cache = {}
    nfn = 0; nhand = 0
    for f, trs in traces_of(db, 'cocls::suspend_point::await_suspend', per_instance=False):
        if not f['params'] or 'coroutine_handle' not in f['params'][0]['type']:
            continue
        nfn += 1
        hname = 'param:' + f['params'][0]['name']
        trs = [t for t in trs if live(t) and consistent(t)]
        ctx.paths(rid, len(trs))
        bad = None
        for tr in trs:
            sites = [('%s(h)' % norm(x.get('callee')).split('::')[-1], x) for x in _handovers(tr, lambda i, p: _is_value(tr, i, p, hname))]
            for i, it in enumerate(tr):
                if it.k != 'lambda' or not (it.get('use') or '').startswith('arg:'):
                    continue
                caps = [c['name'] for c in it.get('captures') or [] if 'coroutine_handle' in (c.get('canon_type') or c.get('type') or '')]
                mine = {'capture:' + n for n in caps if _is_value(tr, i, _frame_value(db, tr, i, n)[0], hname)}
                if not mine:
                    continue
                key = (it['fn_key'], tuple(sorted(mine)))
                if key not in lam_cache:
                    best = []
                    for lf in db.closure_instances(db.get(it.get('fn')), it['fn_key'])[:1]:
                        for lt in TL.traces(lf):
                            if not live(lt):
                                continue
                            hs = _handovers(lt, lambda j, p: any(_is_value(lt, j, p, m) for m in mine))
                            rp = ret_expr(lt)
                            if rp and any(_is_value(lt, len(lt), rp, m) for m in mine):
                                hs = hs + [Item(k='return', callee='closure::return', loc=lf['key'])]
                            if len(hs) > len(best):
                                best = hs
                        if TL.truncated:
                            raise Broken('path bound exceeded in a closure of ' + f['nname'])
                    lam_cache[key] = best
                sites += [('closure given to %s: %s(h)' % (it['use'][4:].split('::')[-1], norm(x.get('callee')).split('::')[-1]), x) for x in lam_cache[key]]
            rp = ret_expr(tr)
            if rp and _is_value(tr, len(tr), rp, hname):
                sites.append(('return h (symmetric transfer)', None))
            nhand += len(sites)
            if len(sites) > 1 and bad is None:
                bad = ('the awaiting coroutine is handed over for resumption %d times on one path (%s): it is resumed twice by one co_await' % (len(sites), '; '.join(s for s, _ in sites)), tr)
        ctx.ob(rid, f, f['key'], bad is None, 'the awaiting coroutine is handed over at most once on each of %d path(s)' % len(trs) + ('' if not bad else ' -- ' + bad[0]),
               desc='awaiting coroutine handed over for resumption more than once on a path of await_suspend' if bad else None, trace=short_trace(bad[1]) if bad else None)
    if nfn == 0 or nhand == 0:
        raise Broken('await_suspend(coroutine_handle): no hand-over of the awaiting coroutine recognised on any path: anchor changed')


def _membership_search(tr, hname):
    """std::find(first, last, <address of the awaiting coroutine>) compared with `last`, and one loop over the same range [first, last) that ran
    exactly once on this trace: (index of the comparison, the comparison, the element the loop visits) or None"""
    for i, it in enumerate(tr):
        if it.k != 'cmp' or it.get('op') not in ('==', '!='):
            continue
        sides = [it.get('lhs') or '', it.get('rhs') or '']
        fs = [x for x in sides if re.fullmatch(r'call\(std::(ranges::)?find\)', x)]
        if len(fs) != 1:
            continue
        other = sides[1 - sides.index(fs[0])]
        fc = next((x for x in reversed(tr[:i]) if x.k == 'call' and norm(x.get('callee') or '') in ('std::find', 'std::ranges::find') and x.get('depth', 0) == it.get('depth', 0)), None)
        if fc is None or len(fc.get('args') or []) != 3:
            continue
        first, last, what = [(a.get('path') or '') for a in fc['args']]
        if other != last or not (hname in what or hname in (fc['args'][2].get('opath') or '') or re.search(r'coroutine_handle(<[^>]*>)?::address', what)):
            continue
        # the loop over the same range: its condition compares an iterator that started at `first` with `last`
        its = []
        for j, b in enumerate(tr):
            if j > i and b.k == 'branch' and b.term in ('ForStmt', 'WhileStmt', 'DoStmt') and last in (b.path or ''):
                m = re.fullmatch(r'\((local:\w+(?:#\d+)?) (?:!=|<) %s\)' % re.escape(last), b.path or '') or re.fullmatch(r'\(%s (?:!=|>) (local:\w+(?:#\d+)?)\)' % re.escape(last), b.path or '')
                if not m:
                    return None
                d = next((x for x in reversed(tr[:j]) if x.k == 'decl' and x.get('var') == m.group(1)), None)
                if d is None or (d.get('init') or '') != first:
                    return None
                its.append((m.group(1), bool(b.val)))
        if len({v for v, _ in its}) != 1 or sum(1 for _, t in its if t) != 1:
            continue          # no loop over that range, or not exactly one iteration on this path
        return i, it, '*(%s)' % its[0][0]
    return None


RQ = 'cocls::coro_queue::queue_impl::_queue'


def collected_is_removed(ctx, db, rid='C06.collected-is-removed'):
    """create_suspend_point moves the coroutines that became ready during fn() from the ready queue into the suspend point: every handle it
    copies into the suspend point must be the very element it then removes, otherwise one coroutine is in both places (resumed twice) and
    another in neither (never resumed)"""
    rid = ctx.rule(rid, 'COUNT+ORDER', 'coro_queue::create_suspend_point: in every iteration of the collecting loop exactly one element of the ready queue is read into the suspend point and '
                   'exactly one is removed, at the same end (back + pop_back, or front + pop_front); the loop runs while the queue is longer than it was before fn()', floor=1)
    # a loop moved into a free helper of the detail namespace (handed the queue by reference) is followed too
    T = htracer(db, maxvisit=3, extra=lambda c, e, callee: bool(re.match(r'cocls::(_details|_detail|detail|details)::', callee.get('nname') or '')) and not callee.get('coroutine'))
    fns = db.need('cocls::coro_queue::create_suspend_point')
    seen = set(); n = 0
    for f in fns:
        if f['key'] in seen and n > 1:
            continue
        seen.add(f['key'])
        trs = [t for t in T.traces(f) if live(t)]
        ctx.paths(rid, len(trs))
        bad = None; pairs = 0
        for tr in trs:
            pend = None
            for it in tr:
                if it.k != 'call' or (efield(f, it) != RQ and norm(it.get('field') or '') != RQ and not re.search(r'coro_queue::instance->_queue$', it.get('recv') or '')):
                    continue
                o = norm(it.get('callee') or '').split('::')[-1]
                if o in ('back', 'front', 'operator[]', 'at'):
                    if pend is not None:
                        bad = bad or ('two elements are read for one removal', tr)
                    pend = o
                elif o in ('pop_back', 'pop_front', 'erase'):
                    if pend is None:
                        bad = bad or ('an element is removed from the ready queue without having been put into the suspend point (lost)', tr)
                    elif (pend, o) not in (('back', 'pop_back'), ('front', 'pop_front')):
                        bad = bad or ('the element copied into the suspend point (%s) is not the one removed (%s): one coroutine ends up in both places, another in neither' % (pend, o), tr)
                    else:
                        pairs += 1
                    pend = None
            if pend is not None:
                bad = bad or ('an element is copied into the suspend point but stays in the ready queue (resumed twice)', tr)
        n += 1
        if pairs == 0 and not bad:
            raise Broken('create_suspend_point: the collecting loop was not recognised')
        ctx.ob(rid, f, f['key'], bad is None, 'every collected handle is the removed one' + ('' if not bad else ' -- ' + bad[0]), desc=bad[0] if bad else None, trace=fmt_trace(bad[1]) if bad else None, inst=f.get('inst'))


def parallel_resume_keeps_value(ctx, db, rid='C06.parallel-resume-moves-handles-only'):
    """parallel_resume hands the prepared coroutines to a new thread and returns the value attached to the suspend point: what moves into the
    thread is the handle list (the suspend_point<void> part) only"""
    rid = ctx.rule(rid, 'TYPE', 'parallel_resume(suspend_point<T>&&), every instantiation: the closure given to the thread captures a suspend_point<void> built from the argument (the handle list), '
                   'never the whole suspend_point<T>: the attached value stays in the argument for the await_resume() that returns it', floor=1)
    fns = db.need('cocls::parallel_resume')
    seen = set()
    for f in fns:
        if f['inst'] in seen:
            continue
        seen.add(f['inst'])
        caps = [c for e in f.events() if e.k == 'lambda' for c in (e.get('captures') or []) if 'suspend_point' in (c.get('canon_type') or '')]
        bad = [c for c in caps if 'suspend_point<void>' not in (c.get('canon_type') or '').replace(' ', '') or c.get('byref')]
        ctx.ob(rid, f, f['key'], bool(caps) and not bad, 'the thread\'s closure owns only the handle list (%s)' % ', '.join((c.get('type') or '?') for c in caps),
               desc='parallel_resume moves the whole suspend point (%s) into the thread: the value it is about to return is moved out' % (bad[0].get('type') if bad else None) if bad else ('no suspend point captured' if not caps else None), inst=f.get('inst'))
