# C12 - scheduler: never early, in deadline order, cancel hits exactly its target
import re
from ..core import norm, relloc, live, calls, evs, Broken, value_origin, Tracer, fmt_trace, rooted, has_back_edge, cond_event, efield, pos, tests, find_ev, Item, STD_IMMEDIATE
from .. import locks
from ..rules import *
from .tables import GUARDED
from .C09 import callable_bodies, feasible

EXPLANATION = ('Static analysis of scheduler: the heap of sleepers is mutated only by the heap operations (push_back+push_heap in schedule, pop_heap+pop_back in pop_item) with the one '
               'comparator, so deadline order is maintained by std::push_heap/pop_heap; every removal of an entry in get_expired_lk is justified in the same iteration by a fresh '
               'test that the top entry is due (tp <= now, comparison shape checked) or cancelled (empty promise) - nothing is handed out early; the top entry / pop is reached only '
               'under a non-empty fact; schedule computes "is the new entry the earliest" before inserting and notifies the worker on that edge; the worker keeps the lock from '
               'computing the next deadline until it waits on it (no lost wake-up window); no function is called with the mutex held that locks it again; cancel resolves the '
               'removed promise exactly once, after the lock is released, and reports true exactly then; the stop callback of interval() cancels the identifier the sleeps are '
               'scheduled with; pending sleepers are promise<void> values inside the heap (destruction cancels them); all heap accesses are under the mutex. Undecided: timing '
               'itself (never-early / prompt wake-up as measured time); which of several live entries with one identifier a cancel picks.')
ASSUMPTIONS = ['std::push_heap / std::pop_heap maintain a binary heap w.r.t. the comparator', 'std::condition_variable semantics']

S = 'cocls::scheduler::_scheduled'
HEAP_MUTATORS = {'push_back': {'cocls::scheduler::schedule'}, 'emplace_back': {'cocls::scheduler::schedule'}, 'pop_back': {'cocls::scheduler::pop_item'}}
FORBIDDEN_MUT = {'erase', 'insert', 'emplace', 'clear', 'resize', 'swap', 'assign', 'operator=', 'push_front', 'pop_front'}


def run(ctx, db, tier):
    undecided = []

    def rule(fn, *a, **kw):
        # a rule that cannot decide (analysis-broken) does not keep the later rules from being evaluated: the first such answer is
        # re-raised at the end, so the check still exits 2 - but with every violation the other rules found on record
        try:
            return fn(*a, **kw)
        except Broken as ex:
            undecided.append(ex)
            return None
    rule(heap_discipline, ctx, db)
    rule(justified_pop, ctx, db)
    rule(nonempty, ctx, db)
    rule(schedule_notifies, ctx, db)
    rule(no_window, ctx, db)
    la = rule(locks.check_guarded, ctx, db, 'C12.locks', {S: GUARDED[S]}, ['cocls::scheduler'], per_instance=False, floor=8)
    if la is not None:
        rule(locks.check_no_relock, ctx, db, 'C12.no-relock', la, ['cocls::scheduler'], floor=3)
    rule(cancel, ctx, db)
    rule(cancel_finds_live, ctx, db)
    rule(interval_ident, ctx, db)
    rule(by_value, ctx, db)
    rule(destructor_joins, ctx, db)
    rule(sleep_through_heap, ctx, db)
    rule(sleeper_never_disarmed, ctx, db)
    rule(interval_owns_params, ctx, db)
    rule(relative_deadline_not_shortened, ctx, db)
    if undecided:
        raise undecided[0]


def op(ev):
    return norm(ev.get('callee') or '').split('::')[-1]


# the top of the heap in its source forms: _scheduled[0], _scheduled.front(), *_scheduled.begin()
TOP = r'(?:_scheduled\[\]|call\(std::vector::front\)|\*\(call\(std::vector::begin\)\))'
TOP_TP = TOP + r'\._tp$'


def is_top_access(it):
    return it.k == 'call' and norm(it.get('field') or '') == S and ((op(it) == 'operator[]' and (it.get('args') or [{}])[0].get('const') == 0) or op(it) == 'front')


def heap_discipline(ctx, db):
    rid = ctx.rule('C12.heap-discipline', 'WHO+ORDER', 'the sleepers\' vector is mutated only as a heap: push_back followed by std::push_heap(compare_item) in schedule, std::pop_heap(compare_item) '
                   'followed by pop_back in pop_item; no erase/insert/clear/swap anywhere (they would break the heap order and with it the deadline order)', floor=4)
    seen = set()
    for f in db.all_instances():
        for e in f.events():
            if e.k != 'call' or norm(e.get('field') or '') != S:
                continue
            o = op(e)
            site = (f['key'], e['loc'], o)
            if site in seen:
                continue
            seen.add(site)
            if o in FORBIDDEN_MUT:
                ctx.ob(rid, f, e['loc'], False, '%s on the heap vector' % o, desc='%s on the sleepers heap in %s' % (o, f['nname']))
            elif o in HEAP_MUTATORS:
                ctx.ob(rid, f, e['loc'], who_ok(db, f, HEAP_MUTATORS[o]), '%s on the heap vector from %s' % (o, f['nname']), desc='%s on the sleepers heap in %s' % (o, f['nname']))
    for name, first, second in (('cocls::scheduler::schedule', ('push_back', 'emplace_back'), 'std::push_heap'), ('cocls::scheduler::pop_item', ('std::pop_heap',), 'pop_back')):
        for f, trs in traces_of(db, name, depth=0, per_instance=False):
            trs = [t for t in trs if live(t)]
            ctx.paths(rid, len(trs))
            bad = None
            for tr in trs:
                a = index_of(tr, lambda ev: ev.k == 'call' and (op(ev) in first and norm(ev.get('field') or '') == S or norm(ev.get('callee')) in first))
                b = index_of(tr, lambda ev: ev.k == 'call' and (norm(ev.get('callee')) == second or (op(ev) == second and norm(ev.get('field') or '') == S)))
                if a < 0 or b < 0 or a > b:
                    bad = bad or ('%s is not followed by %s on every path' % (first[0], second), tr); continue
                h = tr[a] if norm(tr[a].get('callee')).startswith('std::p') else tr[b]
                args = h.get('args') or []
                if len(args) < 3 or 'compare_item' not in (args[2].get('path') or ''):
                    bad = bad or ('the heap operation does not use the scheduler\'s comparator', tr)
            ctx.ob(rid, f, f['key'], bad is None, '%s: %s then %s with compare_item' % (name.split('::')[-1], first[0], second) + ('' if not bad else ' -- ' + bad[0]), desc=bad[0] if bad else None)
    comps = db.fns('cocls::scheduler::compare_item')
    if not comps:
        # the comparator may be a class-scope closure object (static constexpr auto compare_item = [](a, b){...})
        comps = [g for g in db.all_instances() if g.get('lambda') and not g.get('parent_key') and g['nname'].startswith('cocls::scheduler::(anonymous class)::operator()')
                 and len(g.get('params') or []) == 2 and any(e.k == 'cmp' and '_tp' in (e.get('lhs') or '') for e in g.events())]
    if not comps:
        comps = db.need('cocls::scheduler::compare_item')
    for f in comps[:1]:
        pn = [(x.get('name') if isinstance(x, dict) else x) for x in (f.get('params') or [])]
        a, b = ('param:%s._tp' % pn[0], 'param:%s._tp' % pn[1]) if len(pn) == 2 else ('param:a._tp', 'param:b._tp')
        c = [e for e in f.events() if e.k == 'cmp' and e.get('op') in ('<', '>', '<=', '>=')]
        ok = len(c) == 1 and ((c[0]['op'] == '>' and (c[0].get('lhs'), c[0].get('rhs')) == (a, b)) or
                              (c[0]['op'] == '<' and (c[0].get('lhs'), c[0].get('rhs')) == (b, a)))
        if not ok:
            # any other spelling of the same order (negated <=, a helper that compares): judge the expression returned on every path
            trs_ = [t for t in htracer(db).traces(f) if live(t)]
            ok = bool(trs_)
            for tr in trs_:
                r_ = next((it for it in reversed(tr) if it.k == 'return' and it.get('depth', 0) == 0), None)
                e_ = origin_in_trace(tr, pos(tr, r_), r_.get('path'))[0] if r_ is not None and r_.get('path') else None
                neg = False
                while e_ and e_.startswith('!(') and e_.endswith(')'):
                    e_ = e_[2:-1]; neg = not neg
                sc = split_cmp(e_ if (e_ or '').startswith('(') else '(%s)' % (e_ or ''))
                if not sc:
                    ok = False; break
                op_ = {'<': '>=', '<=': '>', '>': '<=', '>=': '<'}.get(sc[1]) if neg else sc[1]
                ok = ok and ((op_ == '>' and (sc[0], sc[2]) == (a, b)) or (op_ == '<' and (sc[0], sc[2]) == (b, a)))
        ctx.ob(rid, f, f['key'], ok, 'compare_item orders by a._tp > b._tp (min-heap on the time point)', desc='comparator is not a._tp > b._tp')


def _due_or_cancelled(tr, i):
    """does branch item i establish that the heap top is due (tp <= now) or cancelled (empty promise)?"""
    it = tr[i]
    ce = cond_event(tr, i)
    if ce is None or ce.k not in ('call', 'cmp'):
        return None
    if ce.k == 'cmp':
        c = 'operator' + (ce.get('op') or '')
        a = [ce.get('lhs') or '', ce.get('rhs') or '']
    else:
        c = norm(ce.get('callee') or '')
        a = [x.get('path') or '' for x in ce.get('args', [])]
    m = re.search(r'operator(<=|>=|<|>)$', c)
    if m and len(a) == 2:
        tp = [k for k, x in enumerate(a) if re.search(TOP_TP, x)]
        nw = [k for k, x in enumerate(a) if x == 'param:now']
        if len(tp) == 1 and len(nw) == 1:
            o = m.group(1)
            if tp[0] == 1:
                o = {'<=': '>=', '>=': '<=', '<': '>', '>': '<'}[o]
            # tp OP now
            if (o == '<=' and it.val is True) or (o == '>' and it.val is False):
                return 'due'
            if (o == '<' and it.val is True) or (o == '>=' and it.val is False):
                return 'due-strict'
            return 'not-due'
    r = ce.get('recv') or ''
    if re.search(TOP + r'\._p$', r):
        if c == 'cocls::promise::operator!' and it.val is True:
            return 'cancelled'
        if c == 'cocls::promise::operator bool' and it.val is False:
            return 'cancelled'
        return 'live'
    return None


def _root_return(tr):
    d0 = min((it.get('depth', 0) for it in tr if it.k not in ('enter', 'leave', 'abort')), default=0)
    return next((i for i in range(len(tr) - 1, -1, -1) if tr[i].k == 'return' and tr[i].get('depth', 0) == d0), None)


def _answer(tr):
    """the expression the root function answers with on this trace: conditional expressions resolved by the branches taken, and a value
    that is (a conversion / copy of) what an expanded helper returned followed into that helper"""
    ri = _root_return(tr)
    p = ret_expr(tr) or ''
    if ri is None:
        return resolve_select(p, tr) or ''
    for _ in range(4):
        p = resolve_select(p, tr) or ''
        q = origin_in_trace(tr, ri, p)[0] or ''
        if q == p:
            break
        p = q
    return p


def justified_pop(ctx, db):
    rid = ctx.rule('C12.never-early', 'PATHS', 'scheduler::get_expired_lk: every removal of the top entry (pop_item) is preceded, since the previous removal, by a branch that established the '
                   'current top is due (tp <= now, or an equivalent comparison shape) or cancelled (its promise is empty): no entry whose time has not come is handed out', floor=1)
    for f, trs in traces_of(db, 'cocls::scheduler::get_expired_lk', depth=0, per_instance=False, maxvisit=3):
        trs = [t for t in trs if live(t)]
        ctx.paths(rid, len(trs))
        bad = None; npop = 0
        for tr in trs:
            just = False
            for i, it in enumerate(tr):
                if it.k == 'branch':
                    j = _due_or_cancelled(tr, i)
                    if j in ('due', 'due-strict', 'cancelled'):
                        just = True
                    elif j in ('not-due',) :
                        just = False
                elif it.k == 'call' and norm(it.get('callee')) == 'cocls::scheduler::pop_item':
                    npop += 1
                    if not just:
                        bad = bad or ('an entry is removed from the heap without a fresh test that it is due or cancelled (it may complete before its time point)', tr)
                    just = False
        if npop == 0:
            raise Broken('get_expired_lk no longer pops: anchor changed')
        # the function answers "next time point = top._tp" when nothing is due: a caller that comes back at exactly that time (the worker's
        # wait_until, a manual event loop driven by the reported time) must then be handed the entry, so "due" is tp <= now, not tp < now
        strict = None
        for tr in trs:
            for i, it in enumerate(tr):
                if it.k == 'branch' and _due_or_cancelled(tr, i) == 'due-strict':
                    strict = strict or tr
        ctx.ob(rid, f, f['key'], strict is None, 'an entry is due when its time point is reached (tp <= now), not only after it',
               desc='the due test is strict (tp < now): at the very time point get_expired answers "wake me at now" instead of handing the sleeper out - the caller spins or oversleeps',
               trace=fmt_trace(strict) if strict else None)
        ctx.ob(rid, f, f['key'], bad is None, 'each pop justified by due-or-cancelled' + ('' if not bad else ' -- ' + bad[0]), desc=bad[0] if bad else None, trace=fmt_trace(bad[1]) if bad else None)
        outcomes = set()
        for tr in trs:
            rp = _answer(tr)
            outcomes.add('next' if '_tp' in rp else ('nothing' if 'max' in rp else 'due'))
        ctx.ob(rid, f, f['key'], outcomes >= {'due', 'next', 'nothing'}, 'get_expired_lk reports either a due promise, the next time point, or "nothing scheduled" (found %s)' % sorted(outcomes), desc='get_expired_lk lost an outcome')


def nonempty(ctx, db):
    rid = ctx.rule('C12.nonempty', 'GUARDED', 'the top of the heap (_scheduled[0]) and pop_item() are reached only under a fact "not empty" from a branch on empty(); pop_item() kills the fact, '
                   'push_back generates it', floor=4)
    _io = inline_only('cocls::scheduler::remove', 'cocls::scheduler::get_expired_lk')
    T = Tracer(db, depth=3, inline_filter=lambda c, e, callee: _io(c, e, callee) or (is_helper(db, c, callee) and callee['nname'] not in ('cocls::scheduler::pop_item', 'cocls::scheduler::cancel')), maxvisit=3)
    T.closures_on_stack = True
    seen = set()
    for name in ('cocls::scheduler::schedule', 'cocls::scheduler::remove', 'cocls::scheduler::get_expired_lk', 'cocls::scheduler::get_expired', 'cocls::scheduler::cancel'):
        for f in db.fns(name):
            if f['key'] in seen:
                continue
            seen.add(f['key'])
            trs = T.traces(f)
            if T.truncated:
                raise Broken('path bound exceeded in ' + name)
            ctx.paths(rid, len(trs))
            badsite = {}
            sites = set()
            for tr in trs:
                fact = False
                for i, it in enumerate(tr):
                    if it.k == 'branch':
                        ce = cond_event(tr, i)
                        if ce is not None and ce.k == 'call' and op(ce) == 'empty' and norm(ce.get('field') or '') == S:
                            fact = (it.val is False)
                        continue
                    if it.k == 'call' and norm(it.get('field') or '') == S:
                        o = op(it)
                        if is_top_access(it):
                            sites.add(it['loc'])
                            if not fact:
                                badsite.setdefault(it['loc'], tr)
                        if o in ('push_back', 'emplace_back'):
                            fact = True
                    ev = it
                    if ev.k == 'call' and norm(ev.get('callee')) == 'cocls::scheduler::pop_item' and it.k not in ('enter', 'leave'):
                        sites.add(ev['loc'])
                        if not fact:
                            badsite.setdefault(ev['loc'], tr)
                        fact = False
            for l in sorted(sites):
                b = badsite.get(l)
                ctx.ob(rid, f, l, b is None, 'heap top / pop_item only when not empty', desc='heap top accessed while the heap may be empty in ' + f['nname'], trace=fmt_trace(b) if b else None)


def schedule_notifies(ctx, db):
    rid = ctx.rule('C12.schedule-wakes-worker', 'PATHS+ORDER', 'scheduler::schedule decides whether the new entry is the earliest before it inserts it, and notifies the worker on every path where the '
                   'heap was empty or the decision flag is true (otherwise the worker keeps sleeping until the old, later deadline)', floor=1)
    for f, trs in traces_of(db, 'cocls::scheduler::schedule', depth=0, per_instance=False):
        trs = [t for t in trs if live(t)]
        ctx.paths(rid, len(trs))
        bad = None; nn = 0
        for tr in trs:
            pb = index_of(tr, lambda ev: ev.k == 'call' and norm(ev.get('field') or '') == S and op(ev) in ('push_back', 'emplace_back'))
            ntf = all_indices(tr, lambda ev: ev.k == 'call' and norm(ev.get('callee')) in ('std::condition_variable::notify_all', 'std::condition_variable::notify_one'))
            was_empty = None; flag = None
            for i, it in enumerate(tr):
                if it.k == 'branch':
                    ce = cond_event(tr, i)
                    if ce is not None and ce.k == 'call' and op(ce) == 'empty' and norm(ce.get('field') or '') == S and i < pb:
                        was_empty = bool(it.val)
                    if re.fullmatch(r'local:\w+', it.get('opath') or it.path or '') and it.term == 'IfStmt':
                        flag = bool(it.get('oval', it.val))
            cmp_after = [it for it in tr[pb:] if is_top_access(it)] if pb >= 0 else []
            if pb < 0:
                bad = bad or ('the entry is not inserted', tr); continue
            # what the branches taken say about (current top) vs (new entry): the subset of {<, =, >} that is still possible
            rel = None
            for i, it in enumerate(tr):
                if it.k != 'branch':
                    continue
                ce = cond_event(tr, i)
                if ce is None or ce.k != 'cmp' or ce.get('op') not in ('<', '>', '<=', '>='):
                    continue
                l_, r_ = ce.get('lhs') or '', ce.get('rhs') or ''
                top_l = bool(re.search(TOP_TP, l_)); top_r = bool(re.search(TOP_TP, r_))
                if top_l == top_r:
                    continue
                o = ce['op'] if top_l else {'<': '>', '>': '<', '<=': '>=', '>=': '<='}[ce['op']]
                r = {'>': {'>'}, '>=': {'>', '='}, '<': {'<'}, '<=': {'<', '='}}[o]
                if not it.val:
                    r = {'<', '=', '>'} - r
                rel = r if rel is None else (rel & r)
            if rel is None:
                # direction of the decision when it is not branched on directly: the worker must be woken when the current top is LATER than the new entry
                for it in tr[:pb]:
                    if it.k == 'cmp' and it.get('op') in ('<', '>', '<=', '>='):
                        l_, r_ = it.get('lhs') or '', it.get('rhs') or ''
                        top_l = bool(re.search(TOP_TP, l_)); top_r = bool(re.search(TOP_TP, r_))
                        if top_l == top_r:
                            continue
                        later = it['op'] in ('>', '>=') if top_l else it['op'] in ('<', '<=')
                        if not later:
                            bad = bad or ('the decision compares the wrong way round (%s %s %s): the worker is woken for entries later than the current top, not for earlier ones' % (l_, it['op'], r_), tr)
            if cmp_after:
                bad = bad or ('"is the new entry the earliest" is evaluated after the insertion', tr)
            if was_empty is True and flag is False and rel is None:
                continue       # infeasible: empty heap makes the flag true
            if was_empty is True or (rel is not None and '>' in rel) or (rel is None and flag is True):
                nn += 1
                if not ntf:
                    bad = bad or ('the worker is not notified although the new entry is the earliest' + ('' if rel is None or was_empty else ' (the current top is later than the new entry on this path)'), tr)
        if nn == 0 and not bad:
            bad = ('no path notifies the worker', trs[0] if trs else [])
        if not bad and not any(it.k == 'cmp' and re.search(TOP_TP, (it.get('lhs') or '')) != re.search(TOP_TP, (it.get('rhs') or '')) and (re.search(TOP_TP, (it.get('lhs') or '')) or re.search(TOP_TP, (it.get('rhs') or ''))) for tr in trs for it in tr):
            raise Broken('schedule: the comparison of the new entry with the top of the heap was not recognised')
        ctx.ob(rid, f, f['key'], bad is None, 'decide before insert, notify when earliest' + ('' if not bad else ' -- ' + bad[0]), desc=bad[0] if bad else None, trace=fmt_trace(bad[1]) if bad else None)


def _splice_functor_calls(db, T, f, trs, limit=20000):
    """the path enumerator expands a closure handed to std::visit / find_if / ... where it is invoked; a visitor written as a named functor
    class (one call operator per alternative) is the same code: every call of such an entry point with a functor object of the library is
    followed by the paths of its call operators (each operator is one alternative outcome), enumerated with the same expansion filter"""
    cache = {}

    def bodies_of(it):
        idx = STD_IMMEDIATE.get(norm(it.get('callee') or ''))
        args = it.get('args') or []
        if idx is None or idx >= len(args) or it.get('expanded'):
            return None
        a = args[idx]
        if (a.get('opath') or a.get('path') or '').startswith('lambda@'):
            return None
        if '(lambda at ' in (a.get('type') or '') or 'fn:' in (a.get('path') or ''):
            return None
        gs = callable_bodies(db, f, a)
        if not gs:
            if norm(it.get('callee') or '') == 'std::visit':
                raise Broken('the visitor handed to std::visit (%s) is not a closure or a functor class whose call operators are known' % (a.get('type') or a.get('path')))
            return None
        k = tuple((g['key'], g.get('inst')) for g in gs)
        if k not in cache:
            subs = []
            for g in gs:
                subs += T.traces(g, 1)
                if T.truncated:
                    raise Broken('path bound exceeded in %s' % g['nname'])
            cache[k] = subs
        return cache[k]
    out = []
    for tr in trs:
        variants = [[]]
        for it in tr:
            subs = bodies_of(it) if it.k == 'call' and it.get('depth', 0) == 0 else None
            if not subs:
                for v in variants:
                    v.append(it)
                continue
            nv = []
            for v in variants:
                if v and v[-1].k == 'abort':
                    nv.append(v); continue
                for sub in subs:
                    w = v + [Item(it, expanded=True), Item(k='enter', ev=it, depth=0)] + list(sub)
                    if not (sub and sub[-1].k == 'abort'):
                        w.append(Item(k='leave', ev=it, ret=None, depth=0))
                    nv.append(w)
            variants = nv
            if len(variants) + len(out) > limit:
                raise Broken('path bound exceeded while expanding the functor passed to %s' % norm(it.get('callee') or ''))
        for v in variants:
            # nothing follows an abort
            cut = next((i for i, x in enumerate(v) if x.k == 'abort'), None)
            out.append(v if cut is None else v[:cut + 1])
    return out


def no_window(ctx, db):
    rid = ctx.rule('C12.no-lost-wakeup-window', 'LOCKSET', 'scheduler::worker_coro: from the call that computes the next deadline under the lock (get_expired_lk) to the wait on the condition '
                   'variable, the lock is never released (a schedule() landing in such a window would be noticed only at the old, later deadline); and the wait is a wait_until '
                   'on exactly that deadline', floor=1)
    fns = db.fns('cocls::scheduler::worker_coro')
    if not fns:
        raise Broken('anchor vanished: scheduler::worker_coro')
    # local lambdas (std::visit arms) and the scheduler's own helpers that wait on its condition variable; get_expired_lk stays a call (it is the anchor)
    T = Tracer(db, depth=3, inline_filter=lambda c, e, callee: bool(callee.get('lambda')) or (is_helper(db, c, callee) and callee['nname'] != 'cocls::scheduler::get_expired_lk' and any(x.k == 'call' and norm(x.get('callee') or '').startswith('std::condition_variable::wait') for x in callee.events())), maxvisit=2, limit=20000)
    seen = set()
    for f in fns:
        if f['inst'] in seen:
            continue
        seen.add(f['inst'])
        trs = T.traces(f)
        if T.truncated:
            raise Broken('path bound exceeded in worker_coro')
        trs = _splice_functor_calls(db, T, f, trs)
        ctx.paths(rid, len(trs))
        bad = None; nw = 0
        for tr in trs:
            g = -1
            for i, it in enumerate(tr):
                ev = it
                if it.k in ('enter', 'leave'):
                    continue
                if ev.k == 'call' and norm(ev.get('callee')) == 'cocls::scheduler::get_expired_lk':
                    g = i
                if ev.k == 'call' and norm(ev.get('callee') or '').startswith('std::condition_variable::wait'):
                    nw += 1
                    if norm(ev.get('callee')) != 'std::condition_variable::wait_until':
                        bad = bad or ('the worker waits without a deadline', tr)
                    if g < 0:
                        bad = bad or ('the worker waits without having computed the next deadline', tr)
                    else:
                        for x in tr[g:i]:
                            xe = x
                            if x.k not in ('enter', 'leave') and xe.k == 'call' and norm(xe.get('callee')) in ('std::unique_lock::unlock', 'std::mutex::unlock'):
                                bad = bad or ('the scheduler lock is released between computing the deadline and waiting on it (lost wake-up window)', tr)
                            if x.k not in ('enter', 'leave') and xe.k in ('co_await',):
                                bad = bad or ('the coroutine suspends between computing the deadline and waiting on it', tr)
        if nw == 0 and not bad:
            bad = ('the worker never waits', [])
        ctx.ob(rid, f, f['key'], bad is None, 'deadline computed and waited on under one continuous lock' + ('' if not bad else ' -- ' + bad[0]), desc=bad[0] if bad else None,
               trace=fmt_trace(bad[1][-40:]) if bad and bad[1] else None, inst=f['inst'])


def cancel(ctx, db):
    rid = ctx.rule('C12.cancel', 'COUNT+LOCKSET', 'scheduler::cancel(id, e): the promise obtained from remove(id) (which has released the lock on return) is resolved exactly once with the '
                   'exception on its non-empty edge and true is reported; on the empty edge nothing is resolved and false is reported; remove() holds the lock for its whole body', floor=2)
    fns = [f for f in db.fns('cocls::scheduler::cancel') if len(f['params']) == 2]
    if not fns:
        raise Broken('anchor vanished: scheduler::cancel(id, exception)')
    # helpers of the class are expanded (the resolve may sit in a small static member); remove() stays a call: it is the anchor
    T = Tracer(db, depth=4, inline_filter=lambda c, e, callee: is_helper(db, c, callee) and callee['nname'] != 'cocls::scheduler::remove')
    T.closures_on_stack = True
    f = fns[0]
    trs = feasible([t for t in T.traces(f) if live(t)])
    if T.truncated:
        raise Broken('path bound exceeded in scheduler::cancel')
    ctx.paths(rid, len(trs))
    exc_params = {'param:' + p_['name'] for p_ in f['params'] if 'exception_ptr' in (p_.get('type') or '') + (p_.get('ctype') or '')} or {'param:e'}

    def unwrapped(p_):
        # the exception may be handed on by value: ctor(param:e), move(param:e)
        p_ = p_ or ''
        for _ in range(4):
            m_ = re.fullmatch(r'(?:ctor|move|forward)\((.*)\)', p_)
            if not m_:
                break
            p_ = m_.group(1)
        return p_

    def reported(tr):
        """the constant the bool of the returned suspend_point<bool> is built from (followed into an expanded helper that builds it)"""
        ri = _root_return(tr)
        for _ in range(4):
            if ri is None:
                return None
            r = tr[ri]
            if r.get('ret_ev') is None:
                return r.get('const')
            e = find_ev(tr, ri, r['ret_ev'], r.get('fn'), r.get('depth', 0))
            if e is None:
                return r.get('const')
            if e.k == 'construct':
                cs = [a.get('const') for a in e.get('args', []) if (a.get('type') or '') in ('_Bool', 'bool') and a.get('const') is not None]
                return cs[-1] if cs else None
            if e.k == 'call' and e.get('callee_key'):
                # what the expanded helper returned on this path
                li = next((j for j in range(ri - 1, -1, -1) if tr[j].k == 'leave' and tr[j].get('depth') == r.get('depth', 0) and tr[j].ev.get('id') == e.get('id')), None)
                if li is None:
                    return r.get('const')
                ri = next((j for j in range(li - 1, -1, -1) if tr[j].k == 'return' and tr[j].get('depth') == r.get('depth', 0) + 1), None)
                continue
            return r.get('const')
        return None
    bad = None; ny = nn = 0
    for tr in trs:
        ri = index_of(tr, callee_is('cocls::scheduler::remove'))
        if ri < 0:
            bad = bad or ('cancel does not remove by identifier', tr); continue
        found = None
        for i, it in enumerate(tr[ri:]):
            if it.k == 'branch':
                ce = cond_event(tr, ri + i)
                if ce is not None and ce.k == 'call' and norm(ce.get('callee')) in ('cocls::promise::operator bool', 'cocls::promise::operator!'):
                    found = bool(it.val) if norm(ce['callee']).endswith('bool') else (not it.val)
        res = [c for c in calls(tr) if norm(c.get('callee')) in ('cocls::promise::operator()', 'cocls::promise::set_exception', 'cocls::promise::set_value') and not c.get('expanded')]
        rv = reported(tr)
        if found is True:
            ny += 1
            if len(res) != 1 or not any(unwrapped(a.get('path')) in exc_params for a in res[0].get('args', [])):
                bad = bad or ('the cancelled sleeper is not completed exactly once with the given exception', tr)
            if rv not in (1, None):
                bad = bad or ('a successful cancel does not report true', tr)
        elif found is False:
            nn += 1
            if res:
                bad = bad or ('something is resolved although nothing matched', tr)
            if rv not in (0, None):
                bad = bad or ('an unsuccessful cancel reports true', tr)
        else:
            bad = bad or ('the result of remove is not tested', tr)
    if not bad and (ny == 0 or nn == 0):
        bad = ('cancel lost its outcomes', [])
    ctx.ob(rid, f, f['key'], bad is None, 'resolve-once-and-true iff removed' + ('' if not bad else ' -- ' + bad[0]), desc=bad[0] if bad else None)
    la = locks.LockAnalysis(db, GUARDED)
    held = la.held_map(f)
    lk = [e for e in f.events() if e.k == 'construct' and locks.LOCKT.search(e.get('callee') or '')]
    lk += [it for tr in trs for it in tr if it.k == 'construct' and it.get('depth', 0) > 0 and locks.LOCKT.search(it.get('callee') or '')]
    ctx.ob(rid, f, f['key'], not lk, 'cancel itself takes no lock: the promise is resolved with no scheduler lock held', desc='cancel resolves under a lock')
    for g in db.need('cocls::scheduler::remove')[:1]:
        hm = la.held_map(g)
        evl = [e for e in g.events() if e.k in ('call', 'read', 'write') and norm(e.get('field') or '') == S]
        ctx.ob(rid, g, g['key'], bool(evl) and all(hm.get(e['id']) for e in evl), 'remove() touches the heap only under its lock', desc='remove touches the heap unlocked')


def cancel_finds_live(ctx, db):
    """cancelled entries stay in the heap with an empty promise until they surface, and they keep their identifier: whoever looks an entry up by
    identifier and leaves it in the heap must consider entries with a live promise only, otherwise a stale entry shadows a pending sleep that
    re-uses the identifier (cancel reports false, the sleep stays pending)"""
    rid = ctx.rule('C12.cancel-finds-live-entry', 'GUARDED', 'scheduler::remove (its loops, helpers and search predicates): on every path on which an entry is matched by identifier, the entry '
                   'either leaves the heap on that path (pop_item), or its promise was tested non-empty in the same evaluation, or its identifier is overwritten when the promise is taken: '
                   'an already cancelled entry never shadows a pending sleep with the same identifier; a matched top entry that is removed is answered with only after its promise tested non-empty', floor=2)
    T = htracer(db, extra=lambda caller, ev, callee: callee['nname'] == 'cocls::scheduler::pop_item')
    PB = ('cocls::promise::operator bool', 'cocls::promise::operator!')
    IDENT = r'(\.|->)_ident$'
    n = [0]

    def is_ident_cmp(x):
        return x.k == 'cmp' and any(s_ and re.search(IDENT, s_) for s_ in (x.get('lhs'), x.get('rhs')))

    def value_names(tr, idx, path):
        """every name the value `path` goes by on its way back along the trace (locals, results of expanded helpers, the moved-from member)"""
        names = []; cur = path
        for _ in range(16):
            if not cur:
                break
            if cur not in names:
                names.append(cur)
            nxt, ni = origin_in_trace(tr, idx, cur, maxsteps=1)
            if nxt == cur and ni == idx:
                break
            cur, idx = nxt, ni
        return names

    def judge(f, tr, i, sites, standalone=False):
        it = tr[i]
        side = next((x for x in (it.get('lhs'), it.get('rhs')) if x and re.search(IDENT, x)), None)
        obj = re.sub(IDENT, '', side)
        # the evaluation this comparison belongs to.  Inside a search predicate (a closure / functor run by a std algorithm): the predicate's
        # body.  Anywhere else - the function itself or a helper of the class it was split into -: up to the next identifier comparison / the exit
        depth = 0; lo = 0
        for j in range(i - 1, -1, -1):
            if tr[j].k == 'leave':
                depth += 1
            elif tr[j].k == 'enter':
                if depth == 0:
                    lo = j; break
                depth -= 1
        inner = standalone or (lo > 0 and STD_IMMEDIATE.get(norm(tr[lo].ev.get('callee') or '')) is not None)
        if not inner:
            lo = 0
        depth = 0; hi = len(tr)
        for j in range(i + 1, len(tr)):
            if tr[j].k == 'enter':
                depth += 1
            elif tr[j].k == 'leave':
                if depth == 0 and inner and not standalone:
                    hi = j; break
                depth -= 1
            elif not inner and is_ident_cmp(tr[j]):
                hi = j; break
        # decided "no match" on this path: nothing matched here (== taken false, != taken true)
        br = next((b_ for b_ in tr[i + 1:hi] if tests(b_, it)), None)
        if br is not None and it.get('op') in ('==', '!=') and bool(br.val) != (it['op'] == '=='):
            return
        n[0] += 1
        # only paths that go on to take a promise out of an entry matter (a search that ends without a hit takes nothing)
        def mentions_p(x):
            return any(re.search(r'(\.|->)_p\b', t or '') for t in [x.get('path'), x.get('recv')] + [a.get('path') for a in (x.get('args') or [])])
        if not standalone and not any(mentions_p(x) for x in tr[i + 1:] if x.k in ('call', 'construct', 'return', 'decl', 'read')):
            return
        seg = tr[lo:hi]
        tested = any(c.k == 'call' and norm(c.get('callee') or '') in PB and (c.get('recv') or '').startswith(obj) for c in seg)
        popped = (not inner) and any(c.k == 'call' and op(c) in ('pop_back', 'pop_heap') for c in tr[i:hi])
        wiped = any(w.k == 'write' and re.search(IDENT, w.get('path') or '') for w in tr[i:])
        ok = tested or popped or wiped
        why = None
        if ok and not inner and popped and not tested:
            # the entry leaves the heap: fine - unless the function answers with its promise untested, which ends the search on a cancelled entry
            ret = next((x for x in tr[i:hi] if x.k == 'return' and not x.get('depth')), None)
            if ret is not None and ret.get('path'):
                ri = pos(tr, ret)
                names = value_names(tr, ri, ret['path'])
                lv = re.search(r'local:\w+(#\d+)?', ret['path'])
                derived = any(nm == obj + '._p' or nm.endswith('(' + obj + '._p)') or ('(' + obj + '._p)') in nm for nm in names)
                if lv or derived:
                    cands = set(names) | {obj + '._p'} | ({lv.group(0)} if lv else set())
                    live_tested = False
                    for j in range(i, ri):
                        b_ = tr[j]
                        if b_.k == 'branch':
                            ce = cond_event(tr, j)
                            if ce is not None and ce.k == 'call' and norm(ce.get('callee') or '') in PB and (ce.get('recv') or '') in cands:
                                live_tested = bool(b_.val) == norm(ce['callee']).endswith('bool')
                    if not live_tested:
                        ok = False; why = 'scheduler::remove answers with the promise of the matched top entry without testing it: when that entry was cancelled earlier the search ends with an empty answer although a pending sleep with the identifier may follow'
        key = (it.get('fn'), 0 if standalone else it.get('depth'), it.get('id'))
        if key not in sites or (sites[key][0] and not ok):
            sites[key] = (ok, it, tr, why)

    for f in db.need('cocls::scheduler::remove')[:1]:
        sites = {}
        preds = {}
        trs_ = T.traces(f)
        if T.truncated:
            raise Broken('path bound exceeded in scheduler::remove')
        for tr in trs_:
            if not live(tr):
                continue
            for i, it in enumerate(tr):
                if it.k == 'call' and not it.get('expanded') and STD_IMMEDIATE.get(norm(it.get('callee') or '')) is not None:
                    # a search predicate written as a named functor class is not expanded by the path enumerator: its call operator is
                    # judged as an evaluation of its own
                    ix = STD_IMMEDIATE[norm(it['callee'])]; args = it.get('args') or []
                    if ix < len(args) and not (args[ix].get('opath') or args[ix].get('path') or '').startswith('lambda@'):
                        g0 = db.get(it.get('fn')) or f
                        for g in callable_bodies(db, g0, args[ix]):
                            preds[(g['key'], g.get('inst'))] = g
                if is_ident_cmp(it):
                    judge(f, tr, i, sites)
        for g in preds.values():
            for tr in T.traces(g):
                if not live(tr):
                    continue
                for i, it in enumerate(tr):
                    if is_ident_cmp(it):
                        judge(g, tr, i, sites, standalone=True)
        for key, (ok, it, tr, why) in sorted(sites.items(), key=lambda kv: str(kv[0])):
            ctx.ob(rid, f, relloc(it.get('loc')) if it.get('loc') else f['key'], ok, 'an entry matched by identifier is removed, or was tested live',
                   desc=None if ok else why or 'scheduler::remove matches an entry by identifier without testing that its promise is still there and leaves it in the heap: an entry cancelled earlier '
                   '(empty promise, same identifier) shadows a pending sleep - cancel reports false and the sleep is never cancelled', trace=fmt_trace(tr) if not ok else None)
    if n[0] < 2:
        raise Broken('scheduler::remove: the identifier comparisons (top loop and search) were not found')


def _member_init(db, g, arg, member):
    """the expression data member `member` of the functor object `arg` (created by a braced initialiser) is initialised with, None when the
    initialiser's elements are not part of the facts (the extractor prints a list of several elements as {...})"""
    p = arg.get('opath') or arg.get('path') or ''
    m = re.fullmatch(r'(?:ctor\()?\{(.*)\}\)?', p)
    if not m or '...' in m.group(1):
        return None
    body = m.group(1); elems = []; depth = 0; cur = ''
    for ch in body:
        if ch in '([{':
            depth += 1
        elif ch in ')]}':
            depth -= 1
        if ch == ',' and depth == 0:
            elems.append(cur.strip()); cur = ''
        else:
            cur += ch
    if cur.strip():
        elems.append(cur.strip())
    cls = norm(g['nname']).rsplit('::', 1)[0]
    for c in db.class_insts(cls)[:1]:
        names = [x['name'] for x in c.get('fields', [])]
        if member in names and names.index(member) < len(elems):
            return elems[names.index(member)]
    return None


def interval_ident(ctx, db):
    rid = ctx.rule('C12.interval-cancel', 'SIBLINGS', 'scheduler::interval: the stop callback cancels the same identifier the generator\'s sleeps are scheduled with, and takes no scheduler lock '
                   'itself (cancel -> remove locks)', floor=1)
    fns = db.fns('cocls::scheduler::interval')
    if not fns:
        raise Broken('anchor vanished: scheduler::interval')
    f = fns[0]
    sl = None
    for lf in lambdas_of(db, 'cocls::scheduler::interval'):
        for e in lf.events():
            if e.k == 'call' and norm(e.get('callee')) == 'cocls::scheduler::sleep_until' and len(e.get('args', [])) > 1:
                sl = e['args'][1].get('path')
    cb = None; cb_lock = False; undecided = None
    for lf in lambdas_of(db, 'cocls::scheduler::interval'):
        for e in lf.events():
            if e.k == 'call' and norm(e.get('callee')) == 'cocls::scheduler::cancel':
                cb = (e.get('args') or [{}])[0].get('path')
                cb_lock = any(x.k == 'construct' and locks.LOCKT.search(x.get('callee') or '') for x in lf.events())
    if cb is None:
        # the stop callback may be an object of a named functor class handed to std::stop_callback: the identifier it cancels is a data member,
        # whose value is the corresponding element of the braced initialiser the object is created from
        for e in f.events():
            if e.k != 'construct' or not norm(e.get('callee') or '').startswith('std::stop_callback::stop_callback'):
                continue
            for a in (e.get('args') or [])[1:]:
                for g in callable_bodies(db, f, a):
                    for x in g.events():
                        if x.k == 'call' and norm(x.get('callee')) == 'cocls::scheduler::cancel':
                            mp = (x.get('args') or [{}])[0].get('path') or ''
                            m_ = re.fullmatch(r'this->(\w+)', mp)
                            init = _member_init(db, g, a, m_.group(1)) if m_ else None
                            if init is None:
                                undecided = ('scheduler::interval: the stop callback is an object of %s; the identifier it cancels (%s) is set by an initialiser the facts do not carry'
                                             % (norm(g['nname']).rsplit('::', 1)[0], mp))
                            cb = init
                            cb_lock = any(y.k == 'construct' and locks.LOCKT.search(y.get('callee') or '') for y in g.events())
    norm_id = lambda p: re.sub(r'(capture|local):', '', p or '')
    ok = sl is not None and cb is not None and norm_id(sl) == norm_id(cb)
    if undecided is None:
        ctx.ob(rid, f, f['key'], ok, 'stop callback cancels %s, sleeps are scheduled with %s' % (cb, sl), desc='interval stop callback cancels a different identifier than it sleeps with')
    ctx.ob(rid, f, f['key'], not cb_lock, 'the stop callback does not hold the scheduler lock when it calls cancel', desc='interval stop callback locks around cancel')
    # "cancel(id) hits exactly its target": the identifier must be unique to this activation of the generator - the address of an object in
    # its own frame (automatic storage), not of a static / namespace-scope object shared by every generator made from this function
    own = bool(re.fullmatch(r'&\((capture|local):\w+\)', sl or '')) or (sl or '') == 'this'
    ctx.ob(rid, f, f['key'], own or sl is None, 'the identifier of the generator\'s sleeps (%s) is the address of an object of this activation' % sl,
           desc='interval identifies its sleeps by %s, which is shared between generators: the stop of one cancels the sleep of another' % sl if not own else None)
    # the cancel issued by the stop callback only hits a sleep that is pending: a stop that arrives while the generator is parked in co_yield
    # (or before its first step) finds nothing to cancel, so every round must look at the token before it schedules the next sleep
    T = Tracer(db, depth=0, maxvisit=2)
    trs = T.traces(f)
    ctx.paths(rid, len(trs))
    bad = None; nsl = 0
    for tr in trs:
        for i, it in enumerate(tr):
            if it.k == 'call' and (norm(it.get('callee') or '').endswith('future::operator<<') or norm(it.get('callee') or '') == 'cocls::scheduler::sleep_until'):
                nsl += 1
                polled = False
                for b in reversed(tr[:i]):
                    if b.k == 'co_yield':
                        break
                    if b.k == 'branch':
                        ce = cond_event(tr, pos(tr, b))
                        if ce is not None and ce.k == 'call' and norm(ce.get('callee') or '') == 'std::stop_token::stop_requested' and b.val is False:
                            polled = True; break
                if not polled:
                    bad = bad or tr
    if nsl == 0:
        raise Broken('scheduler::interval schedules no sleep: anchor changed')
    ctx.ob(rid, f, f['key'], bad is None, 'every round tests stop_requested() before it schedules the next sleep', desc='interval schedules a sleep without polling the stop token', trace=fmt_trace(bad) if bad else None)
    if undecided:
        raise Broken(undecided)       # the other clauses of the rule were evaluated; which identifier the callback cancels cannot be decided


def by_value(ctx, db):
    rid = ctx.rule('C12.cancel-by-destruction', 'TYPE', 'a pending sleeper is a promise<void> held by value inside the heap entry: destroying the scheduler destroys it and its future resolves '
                   'to await_canceled (C01.dtor-resolves)', floor=1)
    cs = db.class_insts('cocls::scheduler::SchItem')
    if not cs:
        raise Broken('scheduler::SchItem not found')
    fl = next((x for x in cs[0]['fields'] if x['name'] == '_p'), None)
    t = (fl or {}).get('canon_type') or ''
    ctx.ob(rid, 'cocls::scheduler::SchItem', cs[0]['loc'], fl is not None and 'promise<void>' in t and not t.rstrip().endswith(('*', '&')), 'SchItem::_p is %s' % t, desc='SchItem::_p is not a promise<void> value')
    sc = db.class_insts('cocls::scheduler')
    fl2 = next((x for x in (sc[0]['fields'] if sc else []) if x['name'] == '_scheduled'), None)
    t2 = (fl2 or {}).get('canon_type') or ''
    ctx.ob(rid, 'cocls::scheduler', (sc[0]['loc'] if sc else '?'), fl2 is not None and 'vector<' in t2 and 'SchItem' in t2 and '*' not in t2, '_scheduled owns its entries (%s)' % t2[:80], desc='_scheduled does not own its entries')


SLEEPER_OPS_OK = ('cocls::promise::operator bool', 'cocls::promise::operator!', 'cocls::promise::promise', 'cocls::promise::operator=', 'cocls::promise::operator()',
                  'cocls::promise::set_value', 'cocls::promise::set_exception', 'cocls::promise::get_id', 'cocls::promise::~promise')


def sleeper_never_disarmed(ctx, db):
    """a pending sleeper is completed by resolving its promise (on expiry, on cancel) or by destroying it (cancel by destruction).  claim() /
    release() take the future away from the promise without resolving it: whoever waits on it is left hanging"""
    rid = ctx.rule('C12.sleeper-never-disarmed', 'WHO', 'the promise held in a heap entry (SchItem::_p) is only tested, moved, resolved or destroyed by the scheduler; it is never disarmed '
                   '(claim / release) - not even in the destructor, where pending sleeps must be cancelled, not silenced', floor=1)
    seen = set(); n = 0
    for f in db.all_instances():
        if not f['nname'].startswith('cocls::scheduler::') or f['key'] in seen:
            continue
        seen.add(f['key'])
        for e in f.events():
            if e.k == 'call' and norm(e.get('lfield') or '') == 'cocls::scheduler::SchItem::_p':
                n += 1
                c = norm(e.get('callee') or '')
                ctx.ob(rid, f, e['loc'], c in SLEEPER_OPS_OK, '%s on a pending sleeper in %s' % (c.split('::')[-1], f['nname'].split('::')[-1]),
                       desc='%s disarms a pending sleeper (%s) without resolving it: the sleep never completes' % (f['nname'], c.split('::')[-1]) if c not in SLEEPER_OPS_OK else None)
    if n == 0:
        raise Broken('no use of SchItem::_p found in the scheduler: anchor changed')


def destructor_joins(ctx, db):
    rid = ctx.rule('C12.destructor-stops-worker', 'ORDER', '~scheduler: when a background worker was started, the stop is requested and the worker\'s completion future is waited for, in that order, '
                   'before the members (heap, mutex, condition variable) are destroyed', floor=1)
    T = htracer(db)
    for f in db.need('cocls::scheduler::~scheduler')[:1]:
        bad = None; n = 0
        for tr in [t for t in T.traces(f) if live(t)]:
            started = None
            for i, it in enumerate(tr):
                if it.k == 'branch':
                    ce = cond_event(tr, i)
                    if ce is not None and ce.k == 'call' and norm(ce.get('callee') or '').endswith('optional::has_value') or (ce is not None and ce.k == 'call' and 'optional' in norm(ce.get('callee') or '') and 'bool' in norm(ce.get('callee') or '')):
                        started = bool(it.val)
            rq = index_of(tr, lambda ev: ev.k == 'call' and norm(ev.get('callee')) == 'std::stop_source::request_stop')
            wt = index_of(tr, lambda ev: ev.k == 'call' and norm(ev.get('callee')) in ('cocls::future::wait', 'cocls::future::sync', 'cocls::future::join', 'cocls::future::force_wait', 'cocls::future::force_sync'))
            if started is True:
                n += 1
                if not (0 <= rq < wt):
                    bad = bad or 'a started worker is not stopped and then waited for (it would run on a destroyed scheduler)'
            elif started is False and (rq >= 0 or wt >= 0):
                bad = bad or 'stop/wait on a scheduler that never started a worker'
            elif started is None:
                bad = bad or 'the destructor does not test whether a worker was started'
        if n == 0 and not bad:
            bad = 'no path stops a started worker'
        ctx.ob(rid, f, f['key'], bad is None, 'request_stop then wait iff a worker was started' + ('' if not bad else ' -- ' + bad), desc=bad)


def sleep_through_heap(ctx, db):
    """time-point order is the order of the heap: a sleep that is completed without entering the heap (an "already reached" shortcut) overtakes
    overdue sleepers with earlier time points and never yields to the scheduler"""
    rid = ctx.rule('C12.sleep-through-heap', 'PATHS', 'scheduler::sleep_until: on every path the returned future is built from a closure that hands its promise to schedule() exactly once; no path '
                   'answers with an already resolved future (sleepers complete in time-point order only if every one of them passes through the heap)', floor=1)
    T = htracer(db)
    def enters_heap(f, fname):
        trs = [t for t in T.traces(f) if live(t)]
        ctx.paths(rid, len(trs))
        bad = None
        lams = [lf for lf in lambdas_of(db, fname)]

        def schedules_once(lf):
            return all(sum(1 for c in calls(t) if norm(c.get('callee')) == 'cocls::scheduler::schedule') == 1 for t in T.traces(lf) if live(t)) and any(live(t) for t in T.traces(lf))
        sched = {lf['key'] for lf in lams if schedules_once(lf)}

        def functor_made(it):
            # the future built from an object of a named functor class (the closure written out as a class): its call operator is the closure body
            if it.k != 'construct' or norm(it.get('callee') or '') != 'cocls::future::future':
                return False
            for a in it.get('args') or []:
                if (a.get('opath') or a.get('path') or '').startswith('lambda@'):
                    continue
                gs = callable_bodies(db, f, a)
                if gs and all(schedules_once(g) for g in gs):
                    return True
            return False
        for tr in trs:
            made = [it for it in tr if (it.k == 'lambda' and it.get('fn_key') in sched) or functor_made(it)]
            direct = [c for c in calls(tr) if norm(c.get('callee')) in ('cocls::future::set_value', 'cocls::future::set_exception', 'cocls::future::set_not_value')]
            if direct:
                bad = bad or ('a path answers with an already resolved future (%s): that sleep bypasses the heap and overtakes earlier, overdue sleepers' % norm(direct[0].get('callee')).split('::')[-1], tr)
            elif len(made) != 1:
                bad = bad or ('a path does not build the future from a closure that schedules its promise exactly once', tr)
        return bad, trs
    for f in db.need('cocls::scheduler::sleep_until')[:1]:
        bad, trs = enters_heap(f, 'cocls::scheduler::sleep_until')
        ctx.ob(rid, f, f['key'], bad is None and bool(trs), 'every sleep enters the heap' + ('' if not bad else ' -- ' + bad[0]), desc=bad[0] if bad else None, trace=fmt_trace(bad[1]) if bad else None)
    for f in db.need('cocls::scheduler::sleep_for')[:1]:
        trs = [t for t in T.traces(f) if live(t)]
        ok = bool(trs) and all(sum(1 for c in calls(t) if norm(c.get('callee')) == 'cocls::scheduler::sleep_until' and c.get('depth', 0) == 0) == 1 for t in trs)
        if not ok and trs and not any(norm(c.get('callee')) == 'cocls::scheduler::sleep_until' for t in trs for c in calls(t)):
            # sleep_until written out in place: the same obligation applies to sleep_for itself
            bad, trs = enters_heap(f, 'cocls::scheduler::sleep_for')
            ok = bad is None and bool(trs)
        ctx.ob(rid, f, f['key'], ok, 'sleep_for is sleep_until(now + duration)', desc='sleep_for does not go through sleep_until exactly once')


def interval_owns_params(ctx, db):
    """interval() is a generator coroutine: it starts lazily, so its parameters are read long after the call expression that created it has
    ended - a reference parameter (the stop token in particular, usually a temporary or a default argument) dangles by then"""
    rid = ctx.rule('C12.interval-owns-its-arguments', 'TYPE', 'scheduler::interval (lazily started coroutine): every parameter is taken by value, so the stop token through which the pending '
                   'sleep is cancelled lives in the coroutine frame', floor=1)
    seen = set()
    for f in db.need('cocls::scheduler::interval'):
        if f['key'] in seen:
            continue
        seen.add(f['key'])
        refs = [p['name'] + ': ' + p['type'] for p in f['params'] if p['type'].rstrip().endswith('&')]
        ctx.ob(rid, f, f['key'], not refs, 'all parameters of interval() are by value' + ('' if not refs else ' -- by reference: ' + ', '.join(refs)), desc='interval() takes %s by reference' % ', '.join(r.split(':')[0] for r in refs) if refs else None)


# conversions of a chrono value that may make it smaller (they round towards zero / down / to nearest, or leave the chrono domain)
SHORTENING = ('std::chrono::duration_cast', 'std::chrono::floor', 'std::chrono::round', 'std::chrono::time_point_cast', 'std::chrono::trunc', 'std::chrono::abs',
              'std::chrono::duration::count', 'std::chrono::operator-', 'std::chrono::operator/', 'std::chrono::operator%', 'std::chrono::operator*',
              'std::chrono::duration::operator-', 'std::chrono::duration::operator--', 'std::chrono::duration::operator-=', 'std::chrono::duration::operator/=',
              'std::chrono::duration::operator%=', 'std::chrono::duration::operator*=', 'std::min', 'std::clamp')
CLOCK_TICK = 'ratio<1, 1000000000>'       # std::chrono::system_clock::duration (libstdc++): the resolution the heap stores time points in


def _sum_terms(tr, idx, arg, out, budget=24):
    """the value `arg` (an argument / path read at position idx of a trace) as a sum: its leaves are appended to out as
    ('now', None) | ('param', name) | ('short', callee, event) | ('other', what)"""
    path = arg.get('path') if isinstance(arg, dict) else arg
    evid = arg.get('ev') if isinstance(arg, dict) else None
    for _ in range(budget):
        if not path:
            out.append(('other', '?')); return
        m = re.fullmatch(r'(?:move|forward|ctor)\((.*)\)', path)
        if m and not m.group(1).startswith('call('):
            path = m.group(1); evid = None; continue
        if re.fullmatch(r'local:\w+(#\d+)?', path):
            # later compound updates of the local (tp += x, tp -= x) are part of its value
            for j in range(idx - 1, -1, -1):
                x = tr[j]
                if x.k == 'decl' and x.get('var') == path:
                    break
                if x.k == 'call' and x.get('recv') == path and re.search(r'::operator(\+=|-=|\*=|/=|%=|\+\+|--)$', norm(x.get('callee') or '')):
                    if norm(x['callee']).endswith('operator+='):
                        _sum_terms(tr, j, (x.get('args') or [{}])[0], out, budget - 1)
                    else:
                        out.append(('short', norm(x['callee']), x))
            q, j = origin_in_trace(tr, idx, path, maxsteps=1)
            if (q, j) == (path, idx):
                out.append(('other', path)); return
            d = tr[j] if j < len(tr) else None
            evid = d.get('init_ev') if d is not None and d.k == 'decl' else None
            path, idx = q, j
            continue
        if re.fullmatch(r'param:\w+', path):
            out.append(('param', path[6:])); return
        m = re.fullmatch(r'(?:ctor\()?call\((.*?)\)\)?', path)
        if m:
            callee = norm(m.group(1))
            cands = [j for j in range(idx - 1, -1, -1) if tr[j].k in ('call', 'construct') and norm(tr[j].get('callee') or '') == callee]
            byid = [j for j in cands if evid is not None and tr[j].get('id') == evid]
            j = (byid or cands or [None])[0]
            if j is None:
                out.append(('other', path)); return
            c = tr[j]
            # a local initialised with this value is named by its initialiser along the path: compound updates of it (tp += x, tp -= x)
            # appear as operators on that name and are part of the value
            for x in tr[j + 1:idx]:
                if x.k == 'call' and x.get('recv') in (path, 'call(%s)' % m.group(1)) and x.get('depth', 0) == c.get('depth', 0) and \
                        re.search(r'::operator(\+=|-=|\*=|/=|%=|\+\+|--)$', norm(x.get('callee') or '')):
                    if norm(x['callee']).endswith('operator+=') and x.get('args'):
                        _sum_terms(tr, pos(tr, x), x['args'][0], out, budget - 1)
                    else:
                        out.append(('short', norm(x['callee']), x))
            if c.get('expanded'):
                q, k = origin_in_trace(tr, idx, 'call(%s)' % m.group(1), maxsteps=1)
                if (q, k) == ('call(%s)' % m.group(1), idx):
                    out.append(('other', path)); return
                path, idx, evid = q, k, None
                continue
            if callee.endswith('::now'):
                out.append(('now', callee)); return
            args = c.get('args') or []
            if callee == 'std::chrono::operator+' and len(args) == 2:
                _sum_terms(tr, j, args[0], out, budget - 1); _sum_terms(tr, j, args[1], out, budget - 1); return
            if callee == 'std::chrono::ceil' and args:
                _sum_terms(tr, j, args[0], out, budget - 1); return
            if callee == 'std::chrono::duration_cast' and args:
                # a conversion to the clock's own tick is what the addition to now() performs anyway
                tgt = re.match(r'[^<]*<\s*(?:struct |class )?std::chrono::duration<[^<>]*, (?:struct |class )?std::(%s)\s*>' % re.escape(CLOCK_TICK), c.get('callee_inst') or '')
                if tgt:
                    _sum_terms(tr, j, args[0], out, budget - 1); return
            if callee in SHORTENING:
                out.append(('short', callee, c)); return
            if c.k == 'construct' and re.search(r'std::chrono::(duration|time_point)\b', callee) and len(args) == 1:
                _sum_terms(tr, j, args[0], out, budget - 1); return       # implicit (lossless) chrono conversion / copy
            out.append(('other', callee)); return
        out.append(('other', path)); return
    out.append(('other', path))


def relative_deadline_not_shortened(ctx, db):
    """never early, for the relative form: the sleeper is due at the time point handed to sleep_until, so that time point must not lie before
    (time of the call) + (the duration asked for)"""
    rid = ctx.rule('C12.relative-deadline-not-shortened', 'PATHS+VALUE', 'scheduler::sleep_for: on every path the time point the sleep is registered with (argument of sleep_until / schedule) is '
                   'the sum of a clock reading taken in the call and the duration parameter itself; on its way into that sum the duration passes through no conversion that can make it '
                   'smaller (duration_cast / floor / round / time_point_cast / count() arithmetic / subtraction; ceil and the implicit, lossless chrono conversions are fine): a sleep '
                   'never completes before call time + duration, whatever the resolution of the duration type', floor=1)
    T = htracer(db)
    seen = set()
    for f in db.need('cocls::scheduler::sleep_for'):
        if f['key'] in seen:
            continue
        seen.add(f['key'])
        durs = {p_['name'] for p_ in f['params'] if 'duration' in (p_.get('type') or '') + (p_.get('ctype') or '')}
        trs = [t for t in T.traces(f) if live(t)]
        if T.truncated:
            raise Broken('path bound exceeded in scheduler::sleep_for')
        ctx.paths(rid, len(trs))
        bad = None; und = None; n = 0
        for tr in trs:
            regs = [i for i, it in enumerate(tr) if it.k == 'call' and not it.get('expanded') and norm(it.get('callee') or '') == 'cocls::scheduler::sleep_until' and it.get('args')]
            if not regs:
                # sleep_until written out in place / expanded: the time point is the one the heap entry is built from
                regs = [i for i, it in enumerate(tr) if it.k == 'call' and norm(it.get('callee') or '') in ('cocls::scheduler::sleep_until', 'cocls::scheduler::schedule') and it.get('args') and it.get('depth', 0) == 0]
            if not regs:
                und = und or 'scheduler::sleep_for: the call that registers the sleep (sleep_until / schedule) was not found on a path'
                continue
            for i in regs:
                n += 1
                terms = []
                _sum_terms(tr, i, tr[i]['args'][0], terms)
                short = [t for t in terms if t[0] == 'short']
                other = [t for t in terms if t[0] == 'other']
                nows = [t for t in terms if t[0] == 'now']
                pars = [t for t in terms if t[0] == 'param']
                if short:
                    bad = bad or ('the duration reaches the registered time point through %s, which can make it smaller (sub-resolution part dropped / value reduced): the sleep is registered, '
                                  'and completes, before call time + duration' % short[0][1], tr)
                elif other:
                    und = und or 'scheduler::sleep_for: the time point handed to %s is not a recognised sum of a clock reading and the duration (%s)' % (norm(tr[i]['callee']).split('::')[-1], other[0][1])
                elif len(nows) != 1 or not pars or any(t[1] not in durs for t in pars):
                    bad = bad or ('the registered time point is not (one clock reading) + (the duration parameter): found %s' % ', '.join('%s:%s' % (t[0], t[1]) for t in terms), tr)
        ctx.ob(rid, f, f['key'], bad is None and (n > 0 or und is not None), 'the sleep is registered at now() + the unshortened duration' + ('' if not bad else ' -- ' + bad[0]),
               desc=bad[0] if bad else None, trace=fmt_trace(bad[1]) if bad else None)
        if und and not bad:
            raise Broken(und)
