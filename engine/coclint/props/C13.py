# C13 - generator: consumer sees exactly the yielded sequence, in every access style
import re
from ..core import tests, norm, relloc, live, calls, evs, Broken, value_origin, Tracer, fmt_trace, rooted, has_back_edge, cond_event, pos
from .. import atomic, witness
from ..rules import *

EXPLANATION = ('Static analysis of the hand-over record between consumer and generator body (a modest set of necessary conditions, not the sequence property itself): the three ways '
               'to ask (next_sync / next_async / next_future) agree as siblings - each refuses a finished coroutine with no_more_values_exception and records the asker before the '
               'body is resumed; the coroutine hooks update the record on every path (yield_value stores the address of the yielded object, final_suspend clears it, return_void '
               'marks done, unhandled_exception stores the exception); yield_suspend takes the asker by exchange-with-null, clears the argument pointer before and touches nothing '
               'of the promise after resuming the asker, and resumes it exactly once; unblock_future resolves the waiting promise exactly once on each arm - end only when done, '
               'the stored exception when present, otherwise the yielded value; next_sync resets the blocking flag before it resumes the body and waits afterwards, with '
               'release/acquire orders; every adapter that advances triggers exactly one ask per path and every adapter that observes triggers none (interval summaries); the '
               'generator is move-only, starts suspended and owns its frame through a unique_ptr whose deleter destroys it. Undecided: that the consumer sees exactly the yielded '
               'sequence; argument routing as values; the position at which an escaping exception surfaces.')
ASSUMPTIONS = ['the compiler calls yield_value / return_void / unhandled_exception / final_suspend as the language prescribes']

P = 'cocls::generator::promise_type'
ASK = (P + '::next_sync', P + '::next_async', P + '::next_future')


def run(ctx, db, tier):
    ask_siblings(ctx, db)
    hooks(ctx, db)
    wake_asker_once(ctx, db)
    unblock_future(ctx, db)
    sync_block(ctx, db)
    one_step(ctx, db)
    state_recorded(ctx, db)
    postfix_snapshots(ctx, db)
    done_means_returned(ctx, db)
    symmetric_hand_over(ctx, db)
    from . import C01
    C01.has_value_agrees(ctx, db, 'C13.has-value-agrees')
    atomic.check_roles(ctx, db, 'C13.block-flag-orders', only_objects={P + '::_block'}, floor=3)
    if ctx.cfg == 'assert':
        witness.positive(ctx, 'C13.types', 'C13_pos.cpp', 'generator is move-only, starts suspended, hands out its awaiter / iterator / future types')
        witness.negative(ctx, 'C13.types-neg', 'C13_neg.cpp', 'copying a generator must not compile')


def _bodies(db, name):
    """the function and, for next_future, the lambda that does the work"""
    out = list(db.fns(name))
    if name.endswith('next_future'):
        # the work is done by the callable the returned future is constructed from: a lambda of next_future, or a functor class
        # (future_t(starter{this})) whose call operator is then the body
        out = lambdas_of(db, name) or _callable_bodies(db, name)
    if not out:
        raise Broken('anchor vanished: ' + name)
    return out


def _callable_bodies(db, name):
    """call operators of the functor objects that functions `name` hand to the constructor of the future they return"""
    out = []; seen = set()
    for f in db.fns(name):
        for e in f.events():
            if e.k != 'construct' or norm(e.get('callee') or '') != 'cocls::future::future':
                continue
            for a in e.get('args') or []:
                t = re.sub(r'^(const )?(struct|class) ', '', (a.get('type') or '').rstrip(' &'))
                if not t or '::' not in t:
                    continue
                for g in db.fns(norm(t) + '::operator()'):
                    if g.get('class_inst') == t and (g['key'], g['inst']) not in seen:
                        seen.add((g['key'], g['inst'])); out.append(g)
    return out


def _same_class_family(a, b):
    a, b = a or '', b or ''
    return bool(a and b) and (a == b or a.startswith(b + '::') or b.startswith(a + '::'))


def _completion_style(db, g):
    """which access style a resume function of the internal awaiter completes: 'sync' (touches the blocking flag), 'future' (touches the awaiting promise)"""
    st = set()
    for b in [g] + helper_bodies(db, g):
        for e in b.events():
            fld = norm(e.get('field') or '')
            if fld == P + '::_block':
                st.add('sync')
            if fld == P + '::_awaiting':
                st.add('future')
    return st


def ask_siblings(ctx, db, rid_='C13.ask-siblings'):
    rid = ctx.rule(rid_, 'SIBLINGS', 'next_sync, next_async and next_future each (a) throw no_more_values_exception on the edge where the coroutine handle reports done, and (b) '
                   'write the asker (_caller) before the generator is resumed / its handle is returned, on every other path', floor=3)
    T = htracer(db)
    for name in ASK:
        seen_bad = None; f0 = None
        for f in _bodies(db, name)[:4]:
            f0 = f0 or f
            trs = T.traces(f)
            ctx.paths(rid, len(trs))
            refused = False
            for tr in trs:
                done = None
                for i, it in enumerate(tr):
                    if it.k == 'branch':
                        ce = cond_event(tr, i)
                        if ce is not None and ce.k == 'call' and norm(ce.get('callee')) == 'std::coroutine_handle::done':
                            done = bool(it.val)
                thr = [it for it in tr if it.k == 'throw']
                if done is True:
                    if not thr or 'no_more_values_exception' not in (thr[-1].get('type') or ''):
                        seen_bad = seen_bad or (f, 'a finished generator is asked again without no_more_values_exception', tr)
                    else:
                        refused = True
                        # the refusal unwinds the future that is being constructed: its promise must not have been parked in the generator
                        kept = [it for it in tr if (it.k == 'call' and norm(it.get('callee') or '').endswith('operator=') and norm(it.get('field') or it.get('lfield') or '') == P + '::_awaiting') or
                                (it.k == 'write' and field_of(it) == P + '::_awaiting')]
                        if kept:
                            seen_bad = seen_bad or (f, 'the caller\'s promise is stored in the generator before the finished test refuses the call: it dangles once the refused future is gone and is resolved later into freed memory', tr)
                elif live(tr):
                    if done is None:
                        seen_bad = seen_bad or (f, 'a path asks without testing whether the coroutine is finished (resuming a finished coroutine is undefined)', tr)
                    w = index_of(tr, lambda ev: ev.k == 'write' and field_of(ev) == P + '::_caller')
                    go = index_of(tr, lambda ev: (ev.k == 'call' and norm(ev.get('callee')) in ('std::coroutine_handle::resume', 'std::coroutine_handle::operator()')) or ev.k == 'return' and ev.get('depth', 0) == 0 and name.endswith('next_async'))
                    if w < 0 or (go >= 0 and w > go):
                        seen_bad = seen_bad or (f, 'the asker is not recorded before the generator body runs (the yield would find nobody to wake)', tr)
                    # (c) an access style that parks the shared internal awaiter as the asker configures it for itself first: the other style
                    # may have left its own completion function there
                    if w >= 0 and '_internal' in (tr[w].get('rhs') or ''):
                        want = {'next_sync': 'resume_fn_sync', 'next_future': 'resume_fn_future'}.get(name.split('::')[-1])
                        cfg = [i for i, it in enumerate(tr) if it.k == 'call' and norm(it.get('callee') or '') == 'cocls::awaiter::set_resume_fn' and (it.get('recv') or '').endswith('_internal')]
                        if not cfg or (go >= 0 and cfg[-1] > go):
                            seen_bad = seen_bad or (f, 'the internal awaiter is made the asker without being configured for this access style before the generator runs (it may still carry the other style\'s completion function)', tr)
                        elif want:
                            # what the installed function does decides the style (a named static member, a capture-less lambda, whatever its name):
                            # the synchronous completion releases the blocking flag, the future completion resolves the awaiting promise
                            inst = functions_named_by(db, f, (tr[cfg[-1]].get('args') or [{}])[0].get('path')) or resume_functions(db, [f] + helper_bodies(db, f))
                            if not inst:
                                raise Broken('%s: the resume function given to the internal awaiter was not resolved' % name)
                            # a name may denote several instances: the same function in every instantiation of the generator (they agree), or
                            # the specialisations of a function template (resume_fn<bool through_future>): the facts name the template only,
                            # so when its specialisations of this generator complete different styles the question cannot be decided here
                            per = {}
                            for g in inst:
                                per.setdefault((g.get('class_inst') or '', g.get('plain_inst') or g['inst']), set()).update(_completion_style(db, g))
                            mine = {k: v for k, v in per.items() if _same_class_family(k[0], f.get('class_inst') or class_of(db, f))} or per
                            if len({frozenset(v) for v in mine.values()}) > 1:
                                raise Broken('%s: the internal awaiter is configured with %s, which names a function template whose specialisations complete different access styles (%s); '
                                             'the extracted facts do not record which specialisation is taken' % (name.split('::')[-1], (tr[cfg[-1]].get('args') or [{}])[0].get('path'),
                                                                                                              ' / '.join(sorted('+'.join(sorted(v)) or 'none' for v in mine.values()))))
                            styles = set()
                            for v in mine.values():
                                styles |= v
                            wstyle = 'sync' if want == 'resume_fn_sync' else 'future'
                            if wstyle not in styles or (styles - {wstyle}):
                                seen_bad = seen_bad or (f, 'the internal awaiter is configured with %s, which completes the %s access style, not the %s one' % (
                                    (tr[cfg[-1]].get('args') or [{}])[0].get('path'), '/'.join(sorted(styles)) or 'no', wstyle), tr)
            if not refused and not seen_bad:
                seen_bad = (f, 'no path refuses a finished generator', [])
        ctx.ob(rid, f0, f0['key'], seen_bad is None, '%s refuses finished, records asker first' % name.split('::')[-1] + ('' if not seen_bad else ' -- ' + seen_bad[1]), desc=seen_bad[1] if seen_bad else None,
               trace=fmt_trace(seen_bad[2]) if seen_bad and seen_bad[2] else None)


def hooks(ctx, db, rid_='C13.hooks'):
    rid = ctx.rule(rid_, 'COUNT', 'coroutine hooks of the generator promise, on every path: yield_value(T&)/(T&&) store the address of their argument into _ret; final_suspend stores null into '
                   '_ret; return_void stores true into _done; unhandled_exception stores current_exception() into _exp', floor=4)
    spec = ((P + '::final_suspend', P + '::_ret', lambda w: w.get('const') == 0 or (w.get('rhs') or '') in NULLS, 'final_suspend clears the value pointer'),
            (P + '::return_void', P + '::_done', lambda w: w.get('const') == 1, 'return_void marks the generator done'),
            (P + '::unhandled_exception', P + '::_exp', None, 'unhandled_exception stores the exception'))
    T = htracer(db)
    for f in db.need(P + '::yield_value'):
        if any('nullptr_t' in p['type'] for p in f['params']):
            continue
        trs_ = [t for t in T.traces(f) if live(t)]
        ok = bool(trs_)
        for tr in trs_:
            ws = [it for it in tr if it.k == 'write' and field_of(it) == P + '::_ret']
            ok = ok and len(ws) == 1 and bool(re.fullmatch(r'&\(param:\w+\)', ws[0].get('rhs') or ''))
        ctx.ob(rid, f, f['key'], bool(ok), 'yield_value publishes the address of the yielded object', desc='yield_value does not store the address of its argument into _ret')
    for name, fld, pred, what in spec:
        for f in db.need(name)[:1]:
            trs = [t for t in T.traces(f) if live(t)]
            ok = bool(trs)
            for tr in trs:
                if fld.endswith('_exp'):
                    ws = [it for it in tr if it.k == 'call' and norm(it.get('field') or it.get('lfield') or '') == fld and norm(it.get('callee') or '').endswith('operator=') and 'current_exception' in ((it.get('args') or [{}])[0].get('path') or '')]
                else:
                    ws = [it for it in tr if it.k == 'write' and field_of(it) == fld and pred(it)]
                ok = ok and len(ws) == 1
            ctx.ob(rid, f, f['key'], ok, what, desc=what + ' (violated)')


def _caller_cleared(ev):
    """null is stored into the asker slot of the generator promise, whatever the promise is reached through (pointer or reference);
    a plain write carries the owning declaration, which must then be the promise's _caller"""
    if not (null_store(ev, '->_caller') or null_store(ev, '._caller')):
        return False
    return ev.k != 'write' or not field_of(ev) or field_of(ev) == P + '::_caller'


def wake_asker_once(ctx, db, rid_='C13.wake-asker-once'):
    rid = ctx.rule(rid_, 'COUNT+NO-TOUCH', 'yield_suspend::await_suspend: the argument pointer is cleared and the asker taken by exchange(_caller, nullptr) before the asker is resumed; '
                   'the asker is resumed exactly once; nothing of the generator promise is read or written after that resume (the consumer may already have supplied the next '
                   'argument, re-entered or destroyed the generator)', floor=1)
    T = htracer(db)
    fns = db.need(P + '::yield_suspend::await_suspend')
    seen_bad = None
    for f in fns:
        trs = [t for t in T.traces(f) if live(t)]
        ctx.paths(rid, len(trs))
        for tr in trs:
            rs = all_indices(tr, callee_is('cocls::awaiter::resume'))
            if len(rs) != 1:
                seen_bad = seen_bad or ('the asker is resumed %d times' % len(rs), tr); continue
            # the promise may be reached through the stored pointer (p->_caller) or through a reference to it (gen._caller); the take may be
            # one exchange or its unrolled form (read into a local, then store null): the value resumed must have been read before the store
            ex = index_of(tr, lambda ev: _caller_cleared(ev))
            org, rd = origin_in_trace(tr, rs[0], tr[rs[0]].get('recv'))
            if ex < 0 or ex > rs[0]:
                seen_bad = seen_bad or ('the asker is not taken by exchange(_caller, nullptr) before it is resumed (it could be woken twice)', tr)
            elif not re.search(r'(->|\.)_caller$', org or '') or rd > ex:
                seen_bad = seen_bad or ('the awaiter resumed is not the one taken from _caller', tr)
            for it in tr[rs[0] + 1:]:
                p = it.get('path') or ''
                if it.k in ('read', 'write') and re.search(r'this->p->|coroutine_handle::promise\)\)?[.>-]', p):
                    seen_bad = seen_bad or ('%s of %s after the asker was resumed' % (it.k, p), tr)
    f0 = fns[0]
    ctx.ob(rid, f0, f0['key'], seen_bad is None, 'take asker, clear argument, resume once, touch nothing after' + ('' if not seen_bad else ' -- ' + seen_bad[0]), desc=seen_bad[0] if seen_bad else None,
           trace=fmt_trace(seen_bad[1]) if seen_bad else None)


def _switch_feasible(db, tr):
    """False when the trace follows a `case` (or `default`) of a switch over a local whose value on this very path is another enumerator:
    `const outcome what = a ? finished : (b ? failed : item); switch (what) {...}` - the conditional expression is decided by the branches the
    path took on a and b, so only one label can be reached.  (The path enumerator prunes this for switch (classify()); for a local that
    names the classification it walks every label.)  Undecided values keep the trace"""
    for i, it in enumerate(tr):
        if it.k != 'switch' or not re.fullmatch(r'local:\w+(#\d+)?', it.get('path') or ''):
            continue
        d = next((x for x in reversed(tr[:i]) if x.k == 'decl' and x.get('var') == it['path'] and x.get('depth', 0) == it.get('depth', 0)), None)
        if d is None or not d.get('init') or any(x.k == 'write' and x.get('path') == it['path'] for x in tr[pos(tr, d):i]):
            continue
        v = deep_resolve_select(d['init'], tr[:pos(tr, d)]) or ''
        while v.startswith('(decl:') and v.endswith(')') and not split_select(v):
            v = v[1:-1]
        if not re.fullmatch(r'decl:[^?]+', v) or ' : ' in v or v.count('(') != v.count(')'):
            continue          # not (the name of) one enumerator: undecided
        f = db.get(it.get('fn')) if it.get('fn') else None
        blk = (f or {}).get('_blocks', {}).get(it.get('block')) if f is not None else None
        if blk is None:
            continue
        labs = [(f['_blocks'][s].get('label') or {}) for s in blk['succ'] if s >= 0 and s in f['_blocks']]
        # (the label table is read from the pattern's representative instance: enumerators are compared without template arguments)
        named = [norm(l_.get('text') or '') for l_ in labs if l_.get('kind') == 'case']
        if not named or not all(t.startswith('decl:') for t in named):
            continue
        lab = it.get('label') or {}
        v = norm(v)
        if lab.get('kind') == 'case':
            if norm(lab.get('text') or '') != v:
                return False
        elif v in named:
            return False          # default (or falling out of the switch) while a case names the value
    return True


def unblock_future(ctx, db, rid_='C13.unblock-future'):
    rid = ctx.rule(rid_, 'COUNT', 'unblock_future resolves the waiting promise exactly once on every path: with drop only on the edge where done() is true, with the stored exception '
                   'exactly when one is present (tested before the value), otherwise with the yielded value *_ret', floor=1)
    T = htracer(db)
    fns = db.need(P + '::unblock_future')
    seen_bad = None
    for f in fns:
        trs = [t for t in T.traces(f) if live(t) and _switch_feasible(db, t)]
        ctx.paths(rid, len(trs))
        arms = set()
        for tr in trs:
            pc = [c for c in calls(tr) if norm(c.get('callee')) in ('cocls::promise::operator()', 'cocls::promise::set_value', 'cocls::promise::set_exception') and (c.get('recv') or '').endswith('_awaiting')]
            if len(pc) != 1:
                seen_bad = seen_bad or ('the waiting promise is resolved %d times on a path' % len(pc), tr); continue
            a = (pc[0].get('args') or [{}])[0]
            done = None; exc = None
            for i, it in enumerate(tr):
                if it.k == 'branch':
                    ce = cond_event(tr, i)
                    if (ce is not None and ce.k == 'call' and norm(ce.get('callee')) == P + '::done') or any(tests(it, c) for c in calls(tr) if norm(c.get('callee')) == P + '::done') or \
                            (it.path or '') == 'this->_done':          # the flag done() answers with (done-means-returned), read directly
                        done = bool(it.val)
                    if ce is not None and ce.k == 'call' and 'exception_ptr::operator bool' in norm(ce.get('callee') or ''):
                        exc = bool(it.val)
                    else:
                        nt = null_test(tr, i)
                        if nt and (nt[0] or '').endswith('_exp'):
                            exc = bool(nt[1])
            ap = a.get('path') or ''
            if 'drop' in ap or 'DropTag' in (a.get('type') or ''):
                arms.add('end')
                if done is not True:
                    seen_bad = seen_bad or ('end-of-sequence is reported on a path where done() was not true (an escaping exception or a pending value is turned into a normal end)', tr)
            elif ap.endswith('_exp'):
                arms.add('exc')
                if exc is not True:
                    seen_bad = seen_bad or ('an empty exception is delivered', tr)
            else:
                arms.add('val')
                if exc is not False or done is not False:
                    seen_bad = seen_bad or ('a value is delivered without having excluded end and exception', tr)
                if '_ret' not in ap:
                    seen_bad = seen_bad or ('the delivered value is not *_ret', tr)
                elif re.match(r'(move|forward)\(', ap):
                    # the yielded object is a variable of the generator body (the aggregator even yields a reference to its source's): it is
                    # handed out by reference / copied into the future, never moved from
                    seen_bad = seen_bad or ('the yielded object is moved from (%s): the generator body finds its own variable gutted when it continues' % ap, tr)
        if arms != {'end', 'exc', 'val'} and not seen_bad:
            seen_bad = ('unblock_future lost an arm: %s' % sorted(arms), [])
    f0 = fns[0]
    ctx.ob(rid, f0, f0['key'], seen_bad is None, 'one resolution per path: end iff done, else exception if present, else value' + ('' if not seen_bad else ' -- ' + seen_bad[0]), desc=(seen_bad[0][:110] if seen_bad else None),
           trace=fmt_trace(seen_bad[1]) if seen_bad and seen_bad[1] else None)


def _on_block(ev):
    """does the event operate on the blocking flag of the generator promise?  The flag may be reached as this->_block or through a reference /
    pointer to the promise held by a helper object (guard._owner._block): the innermost declaration decides"""
    return P + '::_block' in (norm(ev.get('field') or ''), norm(ev.get('lfield') or ''))


def _flag_observations(tr, after):
    """what the thread learns about the blocking flag after position `after` of a trace: [(index, flag seen released)].  An atomic wait(old)
    returns only once the flag differs from `old`; a branch on a load of the flag tells the value that was read"""
    out = []
    for i in range(after + 1, len(tr)):
        it = tr[i]
        if it.k == 'call' and atomic.is_atomic_call(it) and _on_block(it) and atomic.opname(it) == 'wait':
            out.append((i, (it.get('args') or [{}])[0].get('const') == 0))
        elif it.k == 'branch':
            ce = cond_event(tr, i)
            if ce is not None and ce.k == 'call' and atomic.is_atomic_call(ce) and _on_block(ce) and atomic.opname(ce) in ('load', 'conv'):
                out.append((i, bool(it.val)))
    return out


def sync_block(ctx, db, rid_='C13.sync-block'):
    rid = ctx.rule(rid_, 'ORDER', 'next_sync: the blocking flag is reset (store false) before the generator is resumed, and the thread waits on it after the resume; unblock_sync stores true '
                   'and then notifies', floor=2)
    T = htracer(db)
    fns = db.need(P + '::next_sync')
    seen_bad = None
    for f in fns[:3]:
        for tr in [t for t in T.traces(f) if live(t)]:
            st = index_of(tr, lambda ev: ev.k == 'call' and atomic.is_atomic_call(ev) and atomic.opname(ev) in ('store', 'operator=') and _on_block(ev) and (ev.get('args') or [{}])[0].get('const') == 0)
            rs = index_of(tr, lambda ev: ev.k == 'call' and norm(ev.get('callee')) == 'std::coroutine_handle::resume')
            # "waits afterwards": what the thread knows about the flag when it leaves, from its observations after the resume - an atomic
            # wait(false) returns only once the flag has left false; a tested load says what it read (while (!_block.load()) _block.wait(false);
            # leaves without a wait when the first load already saw the flag set).  The last observation must say "released"
            obs = _flag_observations(tr, rs) if rs >= 0 else []
            wt = obs[-1][0] if obs else -1
            early = index_of(tr, lambda ev: ev.k == 'call' and atomic.is_atomic_call(ev) and atomic.opname(ev) == 'wait' and _on_block(ev))
            if 0 <= early < rs:
                wt = early          # blocking on the flag before the body was resumed: nobody is running who could release it
            if not (0 <= st < rs < wt):
                seen_bad = seen_bad or ('reset(%d) < resume(%d) < wait(%d) does not hold: a stale "ready" flag lets next() return before an asynchronous body has yielded' % (st, rs, wt), tr)
            elif not obs[-1][1]:
                seen_bad = seen_bad or ('the wait does not wait for the flag to leave false', tr)
    f0 = fns[0]
    ctx.ob(rid, f0, f0['key'], seen_bad is None, 'reset < resume < wait' + ('' if not seen_bad else ' -- ' + seen_bad[0]), desc=(seen_bad[0][:80] if seen_bad else None), trace=fmt_trace(seen_bad[1]) if seen_bad else None)
    # the synchronous completion: whichever function releases the blocking flag (unblock_sync, or the resume function itself when it was inlined)
    rel = []; seenk = set()
    for g in db.all_instances():
        if g['nname'].startswith(P + '::') and g['key'] not in seenk and any(e.k == 'call' and atomic.is_atomic_call(e) and atomic.opname(e) in ('store', 'operator=', 'exchange') and _on_block(e)
                                                 and (e.get('args') or [{}])[0].get('const') == 1 for e in g.events()):
            seenk.add(g['key']); rel.append(g)
    if not rel:
        raise Broken('anchor vanished: no function of the generator promise sets the blocking flag')
    for f in rel:
        evl = [e for e in f.events() if e.k == 'call' and atomic.is_atomic_call(e) and _on_block(e)]
        names = [atomic.opname(e) for e in evl]
        ok = names[:2] in (['store', 'notify_all'], ['operator=', 'notify_all'], ['exchange', 'notify_all']) and (evl[0].get('args') or [{}])[0].get('const') == 1
        ctx.ob(rid, f, f['key'], ok, '%s: store(true) then notify_all' % f['nname'].split('::')[-1], desc='unblock_sync is not store(true) then notify_all')


# (adapter, minimum asks): adapters built on next_awt::operator bool ask zero times when the generator is known finished
ADVANCE = [('cocls::generator_iterator::operator++', 0), ('cocls::generator::begin', 0), ('cocls::generator::next_awt::await_suspend', 1), ('cocls::generator::next_awt::subscribe', 1),
           ('cocls::generator::operator()', 1), ('cocls::generator_iterator::generator_iterator', 0)]
OBSERVE = ['cocls::generator_iterator::operator*', 'cocls::generator_iterator::operator->', 'cocls::generator::value', 'cocls::generator::end', 'cocls::generator::done',
           'cocls::generator::operator bool', 'cocls::generator::next_awt::await_resume', 'cocls::generator::next_awt::await_ready', 'cocls::generator_iterator::operator==', 'cocls::generator::next']


def one_step(ctx, db, rid_='C13.one-step'):
    rid = ctx.rule(rid_, 'COUNT (interval summaries)', 'every adapter that advances the generator (iterator ++, begin, next_awt::await_suspend / subscribe / operator bool on an unknown state, '
                   'generator::operator()) triggers exactly one of next_sync / next_async / next_future on every path through its call tree; every adapter that only observes '
                   '(operator*, ->, value, end, done, operator bool, await_resume, await_ready, next) triggers none', floor=10)
    is_ask = lambda it: it.k == 'call' and norm(it.get('callee')) in ASK
    cache = {}
    only_gen = lambda c: c['nname'].startswith(('cocls::generator', 'cocls::generator_iterator'))

    def is_generator_inst(f):
        ci = f.get('class_inst') or ''
        return 'subscriber' not in ci and 'publisher' not in ci
    for name, want in ADVANCE:
        seen = set()
        for f in db.fns(name):
            if not is_generator_inst(f) or (name.endswith('generator_iterator') and len(f['params']) != 1):
                continue
            a, b = interval_count(db, f, is_ask, cache, follow=only_gen)
            # the bool conversion of the awaiter returned by next() happens in the caller: iterator ++ / begin / ctor use `_next = gen.next()` (awaiter -> bool)
            ok = b == 1 and a >= want
            k = (f['key'], ok)
            if k in seen:
                continue
            seen.add(k)
            ctx.ob(rid, f, f['key'], ok, '%s advances by one step and never two (found between %d and %d asks)' % (name.split('::', 1)[1], a, b), desc='%s advances [%d,%d] steps' % (name, a, b))
    for f in db.fns('cocls::generator::next_awt::operator bool')[:3]:
        a, b = interval_count(db, f, is_ask, cache, follow=only_gen)
        ctx.ob(rid, f, f['key'], (a, b) == (0, 1), 'next_awt::operator bool asks at most once (known state / finished: none)', desc='next_awt::operator bool asks [%d,%d] times' % (a, b))
    for name in OBSERVE:
        seen = set()
        for f in db.fns(name):
            if not is_generator_inst(f):
                continue
            a, b = interval_count(db, f, is_ask, cache, follow=only_gen)
            ok = (a, b) == (0, 0)
            k = (f['key'], ok)
            if k in seen:
                continue
            seen.add(k)
            ctx.ob(rid, f, f['key'], ok, '%s observes without advancing' % name.split('::', 1)[1], desc='%s advances the generator [%d,%d] steps' % (name, a, b))


def state_recorded(ctx, db, rid_='C13.step-recorded'):
    """next_awt remembers in _state that the step has been taken; operator bool and operator! use it to decide whether to call the generator.
    Every way of finishing a step must record it, otherwise co_await n followed by if (n) advances the generator twice (every other item is skipped)"""
    rid = ctx.rule(rid_, 'PATHS', 'generator::next_awt::await_resume stores the outcome of the step into _state on every path (the same value it returns): a later '
                   'conversion to bool of the same next_awt must not advance the generator again', floor=1)
    for f, trs in traces_of(db, 'cocls::generator::next_awt::await_resume', per_instance=False):
        trs = [t for t in trs if live(t)]
        ctx.paths(rid, len(trs))
        bad = None
        for tr in trs:
            ws = [it for it in tr if it.k == 'write' and (it.get('path') or '').endswith('->_state')]
            if not ws:
                bad = bad or ('a path returns the state of the generator without recording it in _state', tr)
            elif (ret_expr(tr) or '') not in ('this->_state', ws[-1].get('rhs'), '(%s = %s)' % (ws[-1].get('path'), ws[-1].get('rhs'))):      # return _state = x;
                bad = bad or ('the value returned (%s) is not the value recorded' % ret_expr(tr), tr)
        ctx.ob(rid, f, f['key'], bad is None and len(trs) > 0, 'the step taken is recorded' + ('' if not bad else ' -- ' + bad[0]), desc=bad[0] if bad else None, trace=fmt_trace(bad[1]) if bad else None)


def postfix_snapshots(ctx, db, rid_='C13.postfix-snapshots-first'):
    """it++ returns the element the iterator stood on.  The generator hands out a reference to the value the body yielded; advancing the
    generator overwrites or destroys that object, so the element has to be copied out before the advance"""
    rid = ctx.rule(rid_, 'ORDER', 'generator_iterator::operator++(int): the current element is copied/moved into a local by value before the generator is advanced, no '
                   'reference into the generator\'s current value is kept across the advance, and that local is what is returned', floor=1)
    T = htracer(db)
    fns = [f for f in db.fns('cocls::generator_iterator::operator++') if len(f['params']) == 1 and 'subscriber' not in (f.get('class_inst') or '')]
    if not fns:
        raise Broken('anchor vanished: generator_iterator::operator++(int) is not instantiated')
    seen = set()
    for f in fns:
        if f['key'] in seen:
            continue
        seen.add(f['key'])
        trs = [t for t in T.traces(f) if live(t)]
        ctx.paths(rid, len(trs))
        bad = None
        for tr in trs:
            adv = index_of(tr, lambda ev: ev.k == 'call' and (norm(ev.get('callee')) in ('cocls::generator::next', 'cocls::generator_iterator::operator++')))
            if adv < 0:
                bad = bad or ('the iterator is not advanced', tr); continue
            CUR = ('cocls::generator::value', 'cocls::generator_iterator::operator*', 'cocls::generator_iterator::operator->')
            snap = [(i, it) for i, it in enumerate(tr) if it.k == 'decl' and any(c_ in (it.get('init') or '') for c_ in CUR) and it.get('depth', 0) == 0]
            byval = [(i, it) for i, it in snap if not it.get('ref') and not it.get('ptr') and i < adv]
            refs = [(i, it) for i, it in snap if it.get('ref') or it.get('ptr')]
            late = [it for it in tr[adv + 1:] if it.k == 'call' and norm(it.get('callee')) == 'cocls::generator::value']
            if refs:
                bad = bad or ('a reference into the generator\'s current value (%s) is kept across the advance: it then names the next element or a destroyed object' % refs[0][1].get('var'), tr)
            elif late:
                bad = bad or ('the value is read after the generator was advanced: the next element is returned instead of the current one', tr)
            elif not byval:
                bad = bad or ('the current element is not copied out before the advance', tr)
            elif ('local:' + (byval[0][1].get('var') or '?').replace('local:', '')) not in (ret_expr(tr) or ''):
                bad = bad or ('the copy taken before the advance is not what is returned (%s)' % ret_expr(tr), tr)
        ctx.ob(rid, f, f['key'], bad is None and bool(trs), 'it++ returns a copy of the element taken before advancing' + ('' if not bad else ' -- ' + bad[0]), desc=bad[0] if bad else None,
               trace=fmt_trace(bad[1]) if bad else None)


def done_means_returned(ctx, db, rid_='C13.done-means-returned'):
    """every access style decides "end of sequence" by promise_type::done(); an exception that escaped the body is not an end - it is
    delivered at that position (unblock_future tests done() first, next_awt::await_resume reports !done() and value() rethrows)"""
    rid = ctx.rule(rid_, 'PATHS', 'generator::promise_type::done() answers exactly the flag set by return_void (_done) on every path: a generator that left its body by an '
                   'exception is not "done" (the consumer would see a plain end of sequence and the exception would never surface); the public generator::done() answers '
                   'true for an empty handle and otherwise exactly what the promise\'s done() says (not the coroutine handle\'s done(), which is also true after an exception)', floor=2)
    for f, trs in traces_of(db, P + '::done', per_instance=False):
        trs = [t for t in trs if live(t)]
        ctx.paths(rid, len(trs))
        bad = None
        for tr in trs:
            r = re.sub(r'\s+', '', ret_expr(tr) or '')
            o = origin_in_trace(tr, len(tr), ret_expr(tr))[0] if ret_expr(tr) else None
            if r not in ('this->_done', '(this->_done==true)', '(this->_done!=false)') and (o or '') != 'this->_done':
                c = ret_const(tr)
                rb = ret_bool(tr)
                # a constant answer is fine when it is the value of the flag on that path (if (_done) return true; return false;)
                flag = next((bool(it.val) for it in tr if it.k == 'branch' and (it.path or '') == 'this->_done'), None)
                if c is not None and flag is not None and bool(c) == flag:
                    continue
                bad = bad or ('done() answers %s, not the returned-normally flag' % (ret_expr(tr) or c), tr)
        ctx.ob(rid, f, f['key'], bad is None and bool(trs), 'done() is the flag set by return_void' + ('' if not bad else ' -- ' + bad[0]), desc=bad[0] if bad else None, trace=fmt_trace(bad[1]) if bad else None)
    for f, trs in traces_of(db, 'cocls::generator::done', per_instance=False, helpers=False):
        trs = [t for t in trs if live(t)]
        ctx.paths(rid, len(trs))
        bad = None; n = 0
        for tr in trs:
            hd = [c for c in calls(tr) if norm(c.get('callee')) == 'std::coroutine_handle::done']
            pd = [c for c in calls(tr) if norm(c.get('callee')) == P + '::done']
            have = None
            for i, it in enumerate(tr):
                nt = null_test(tr, i) if it.k == 'branch' else None
                if nt and (nt[0] or '').endswith('_promise'):
                    have = bool(nt[1])
            if hd:
                bad = bad or ('done() asks the coroutine handle: a generator that ended by an exception is final-suspended too and would be reported as finished normally', tr)
            elif have is True or (have is None and not pd):
                n += 1
                if len(pd) != 1:
                    bad = bad or ('done() of a live generator does not answer through the promise\'s done()', tr)
            elif have is False and ret_const(tr) not in (1, None):
                bad = bad or ('an empty generator is not reported as done', tr)
        ctx.ob(rid, f, f['key'], bad is None and bool(trs), 'generator::done() = no coroutine, or the promise says it returned' + ('' if not bad else ' -- ' + bad[0]), desc=bad[0] if bad else None,
               trace=fmt_trace(bad[1]) if bad else None)
    # who sets the flag: only return_void (and the constructor / default initialiser).  A flag also set by unhandled_exception makes a body that
    # threw look like one that returned: every access style then reports a plain end of sequence and the exception never surfaces
    found = who(db, lambda f, e: e.k == 'write' and field_of(e) == P + '::_done' and not e.get('init') and e.get('const') != 0)
    seen = set(); n = 0
    for fname, evl in sorted(found.items()):
        for f, e in evl:
            if (fname, e.get('loc')) in seen:
                continue
            seen.add((fname, e.get('loc'))); n += 1
            ok = who_ok(db, f, {P + '::return_void'}) or bool(f.get('ctor'))
            ctx.ob(rid, f, e['loc'], ok, 'the returned-normally flag is set by return_void only', desc='%s sets the returned-normally flag: a generator that did not return (it threw) is reported as finished and its exception is never delivered' % fname)
    if n == 0:
        raise Broken('generator promise: no writer of _done found')


RESUME_NOW = ('std::coroutine_handle::resume', 'std::coroutine_handle::operator()')


def symmetric_hand_over(ctx, db, rid_='C13.symmetric-hand-over'):
    """consumer and generator body hand control to each other once per item; an unbounded sequence is read on a bounded stack only when
    each hand-over replaces the running frame (await_suspend answers with the handle of the other side) instead of nesting in it"""
    rid = ctx.rule(rid_, 'PATHS+TYPE', 'every await_suspend of the generator (next_awt: consumer -> body, yield_suspend: body -> consumer) hands control over by symmetric transfer on '
                   'every path: it answers with a coroutine handle - next_awt with the handle obtained from next_async, yield_suspend with the handle popped from the suspend point '
                   'of the asker it resumed - and resumes no coroutine by a nested call (helpers included): the stack does not grow with the number of items read by co_await', floor=2)
    T = htracer(db)
    seen = set(); n = 0
    for f in db.all_instances():
        nn = f['nname']
        if not nn.startswith('cocls::generator::') or nn.split('::')[-1] != 'await_suspend' or f.get('lambda'):
            continue
        ci = f.get('class_inst') or ''
        if 'subscriber' in ci or 'publisher' in ci or f['key'] in seen:
            continue
        seen.add(f['key']); n += 1
        consumer_side = not nn.startswith(P + '::')
        trs = [t for t in T.traces(f) if live(t)]
        if T.truncated:
            raise Broken('path bound exceeded in ' + nn)
        ctx.paths(rid, len(trs))
        bad = None
        if 'coroutine_handle' not in (f.get('ret') or ''):
            bad = ('await_suspend answers %s, not a coroutine handle: the other side cannot be entered by symmetric transfer, it has to be resumed from inside await_suspend '
                   '(one more stack frame per item)' % (f.get('ret') or 'nothing'), trs[0] if trs else [])
        for tr in trs:
            nested = [c for c in calls(tr) if norm(c.get('callee') or '') in RESUME_NOW and not c.get('expanded')]
            if nested:
                bad = bad or ('await_suspend resumes a coroutine by a nested call (%s on %s): consumer and body then call into each other once per item and the stack grows with the '
                              'length of the sequence' % (norm(nested[0]['callee']).split('::')[-1], nested[0].get('recv')), tr)
                continue
            rp = ret_expr(tr)
            if not rp:
                continue      # (answered by the return-type clause)
            org, at = origin_in_trace(tr, len(tr), rp)
            org = norm(org or '')
            if consumer_side:
                if org != 'call(%s::next_async)' % P:
                    bad = bad or ('the handle answered with (%s) is not the one next_async returned: the generator body is not entered by this transfer' % org, tr)
            else:
                pops = [i for i, it in enumerate(tr) if it.k == 'call' and norm(it.get('callee') or '') == 'cocls::suspend_point::pop' and
                        norm(origin_in_trace(tr, i, it.get('recv'))[0] or '') == 'call(cocls::awaiter::resume)']
                if org != 'call(cocls::suspend_point::pop)' or len(pops) != 1:
                    bad = bad or ('the handle answered with (%s) is not the one popped from the suspend point of the resumed asker: the consumer is then resumed when that suspend '
                                  'point is flushed inside await_suspend, not by transfer' % org, tr)
        ctx.ob(rid, f, f['key'], bad is None and bool(trs), '%s transfers control symmetrically' % nn.split('::', 2)[-1] + ('' if not bad else ' -- ' + bad[0]), desc=bad[0] if bad else None,
               trace=fmt_trace(bad[1]) if bad and bad[1] else None)
    if n < 2:
        raise Broken('generator: the await_suspend functions of next_awt and yield_suspend were not found')
