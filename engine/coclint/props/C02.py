# C02 - no lost, early or duplicate wake-up of a future's waiters
import re
from ..core import norm, relloc, live, calls, evs, Broken, value_origin, Tracer, fmt_trace, rooted, tests, cond_event, pos
from .. import atomic, publish
from ..rules import *
from . import shared

EXPLANATION = ('Static analysis of the wake-up protocol behind C02 over all CFG paths: the CAS-push refuses exactly when it observed the ready marker, returns true only on '
               'the success edge of the CAS and leaves the awaiter unlinked when it refuses; the resolver detaches the whole chain with one exchange whose result '
               'flows only into the walker; the walker reads the link before it resumes a node and never touches a node after resuming it; no caller discards the '
               '"registered?" answer of a subscribe; an awaiter is fully initialised before and untouched after publication; blocking waiters wait only when '
               'registered and before their awaiter dies; the final awaiter of an async coroutine resolves before it destroys the frame and touches nothing of the '
               'frame afterwards; the slot of a future is written only by the tabled functions. Undecided: linearizability of the CAS/exchange protocol for all '
               'interleavings of 1..3 waiters (a model-checking question, not a code-shape one).')
ASSUMPTIONS = ['std::atomic operations are atomic', 'awaiter::resume() of a callback awaiter is noexcept as documented']

SUBSCRIBE_FAMILY = {'cocls::future_common::subscribe', 'cocls::co_awaiter::subscribe', 'cocls::awaiter::subscribe_check_ready', 'cocls::co_awaiter::await_suspend',
                    'cocls::mutex::subscribe', 'cocls::subscriber::subscribe'}
# functions whose atomic operations order the result against the waiter's wake-up (subset of the C03.R1 role table)
RESULT_VISIBILITY_FUNCTIONS = {'cocls::awaiter::subscribe', 'cocls::awaiter::subscribe_check_ready', 'cocls::awaiter::resume_chain', 'cocls::awaiter::resume_chain_set_ready',
                               'cocls::future_common::ready', 'cocls::sync_awaiter::wakeup', 'cocls::sync_awaiter::wait_sync', 'cocls::co_awaiter::sync', 'cocls::co_awaiter::force_sync'}
SLOT = 'cocls::future_common::_awaiter'
SLOT_WRITERS = {'cocls::future_common::future_common', 'cocls::future_common::subscribe', 'cocls::future::resolve', 'cocls::future::get_promise',
                'cocls::async::co_awaiter::await_suspend', 'cocls::future_with_cb::future_with_cb', 'cocls::future::future'}


def run(ctx, db, tier):
    subscribe_protocol(ctx, db)
    registration_one_step(ctx, db)
    link_current(ctx, db)
    await_suspend_siblings(ctx, db)
    resolve_one_rmw(ctx, db)
    walk(ctx, db)
    result_used(ctx, db, 'C02.result-used', SUBSCRIBE_FAMILY)
    summ = publish.Summaries(db)
    publish.check_no_touch(ctx, db, 'C02.publish-discipline', summ, per_instance=(tier == 'thorough'), floor=12)
    init_before_publish(ctx, db, summ)
    sync_waits(ctx, db)
    ready_means_resolved(ctx, db)
    from . import C01
    C01.dtor_and_assign(ctx, db, 'C02.abandoned-promise-releases')
    # a future that is born resolved (set_value / set_exception / set_not_value) must refuse every waiter at once
    C01.resolved_constructors(ctx, db, 'C02.born-resolved-accepts-no-waiter')
    # "however many waiters there are": the resolver collects the released waiters in a suspend point, which spills to the heap beyond three
    # handles; each of them must come out again exactly once (pop, iteration, flush)
    from . import C06
    C06.typestate(ctx, db, 'C02.many-waiters-carried-intact')
    C06.consumers_clear(ctx, db, 'C02.many-waiters-each-taken-once')
    C06.source_reset(ctx, db, 'C02.merged-waiters-woken-once')
    # a payload stored without the resolution that follows it in every resolver leaves the waiters suspended for ever
    C01.receivers(ctx, db, 'C02.no-store-without-release')
    atomic.check_roles(ctx, db, 'C02.observes-complete-result', only_functions=RESULT_VISIBILITY_FUNCTIONS, floor=8)
    shared.final_awaiter(ctx, db, 'C02.final-awaiter')
    shared.set_then_resolve_min(ctx, db, 'C02.not-before-result')


def subscribe_protocol(ctx, db, rid='C02.subscribe-protocol'):
    rid = ctx.rule(rid, 'PATHS', 'awaiter::subscribe_check_ready: the slot is written only by a CAS whose desired value is this; true is returned only on the '
                   'CAS success edge; every failed attempt compares the observed value with the ready marker and equality returns false; a refusal leaves _next null '
                   '(the awaiter stays reusable)', floor=4)
    for f, trs in traces_of(db, 'cocls::awaiter::subscribe_check_ready', per_instance=False, maxvisit=3):
        ctx.paths(rid, len(trs))
        allev = {(it.get('fn'), it.get('id')): it for tr in trs for it in evs(tr) if it.k == 'call'}
        cas = [e for e in allev.values() if atomic.is_atomic_call(e) and atomic.opname(e).startswith('compare_exchange')]
        others = [e for e in allev.values() if atomic.is_atomic_call(e) and atomic.objname(e) == 'param:chain' and atomic.opname(e) in ('store', 'exchange', 'operator=', 'fetch_add')]
        # expected = _next: the expected argument is _next itself, or a location whose value _next was assigned from since that location was
        # last (re)loaded - either way _next holds the expected value at the attempt, so on success it is the link to the previous top
        ok1 = len(cas) >= 1 and not others and all(len(c.get('args', [])) >= 2 and c['args'][1].get('path') == 'this' for c in cas) and \
            all(_expected_is_next(tr) for tr in trs)
        ctx.ob(rid, f, f['key'], ok1, 'the only write to the chain is compare_exchange(expected=_next, desired=this)', desc='slot written other than by CAS(_next,this)')
        bad_true = None; bad_false = None; bad_cmp = None; bad_reset = None; nfalse = 0; ntrue = 0
        for tr in trs:
            if not live(tr):
                continue
            if not [it for it in tr if it.k == 'return']:
                continue
            rv = ret_const(tr)
            cas_tr = [it for it in evs(tr) if it.k == 'call' and atomic.is_atomic_call(it) and atomic.opname(it).startswith('compare_exchange')]
            brs = [(i, it) for i, it in enumerate(tr) if it.k == 'branch' and any(tests(it, c) for c in cas_tr)]
            if rv == 1 or rv is None:
                ntrue += 1
                if not brs or brs[-1][1].val is not True:
                    bad_true = tr
            if rv == 0 or rv is None:
                nfalse += rv == 0
                if rv == 0:
                    # the last CAS attempt failed, then the observed value was compared with the marker
                    if not brs or brs[-1][1].val is not False:
                        bad_false = tr
                    else:
                        after = tr[brs[-1][0]:]
                        # the observed value is what the failed attempt left in its expected argument (_next in the plain spelling)
                        seen_in = next(((c.get('args') or [{}])[0].get('path') for c in reversed(cas_tr) if tests(brs[-1][1], c)), None) or 'this->_next'
                        cmpb = [it for it in after if it.k == 'branch' and 'param:ready_state' in (it.path or '') and _mentions(it.path or '', seen_in)]
                        if not cmpb or not _is_equal_true(cmpb[-1]):
                            bad_cmp = tr
                        wr = [it for it in after if it.k == 'write' and it.get('path') == 'this->_next']
                        if not wr or wr[-1].get('const') != 0:
                            bad_reset = tr
            # every failed attempt that loops back must have compared with the marker (and found it different)
            for k, (i, b) in enumerate(brs):
                if b.val is False:
                    nxt = brs[k + 1][0] if k + 1 < len(brs) else len(tr)
                    seg = tr[i:nxt]
                    if not any(it.k == 'branch' and 'param:ready_state' in (it.path or '') for it in seg):
                        bad_cmp = tr
        ctx.ob(rid, f, f['key'], nfalse > 0, 'some path refuses the registration (returns false): a subscriber that arrives after the resolution must not be parked',
               desc='no path refuses a late registration')
        ctx.ob(rid, f, f['key'], ntrue > 0, 'some path registers (returns true)', desc='no path registers')
        ctx.ob(rid, f, f['key'], bad_true is None, 'returns true only after the CAS succeeded', desc='true returned without successful CAS', trace=fmt_trace(bad_true) if bad_true else None)
        ctx.ob(rid, f, f['key'], bad_false is None and bad_cmp is None, 'every failed CAS attempt compares the observed value with the ready marker; equality refuses (return false)',
               desc='failed CAS not compared with the ready marker', trace=fmt_trace(bad_cmp or bad_false) if (bad_cmp or bad_false) else None)
        ctx.ob(rid, f, f['key'], bad_reset is None, 'a refused awaiter is left with _next == nullptr (otherwise its next subscription would swap the ready marker out)',
               desc='refused awaiter keeps the ready marker in _next', trace=fmt_trace(bad_reset) if bad_reset else None)


def registration_one_step(ctx, db, rid='C02.registration-one-step'):
    """the slot of a future can hold the ready marker, so "is it resolved?" and "push me" must be one atomic step on the slot: the only
    primitive that does both is subscribe_check_ready(slot, marker).  A separate test followed by the unconditional push lets a resolution
    land in between: the waiter is pushed on top of the marker (nobody will resume it) and the marker is gone (the future is pending again)"""
    rid = ctx.rule(rid, 'WHO+PATHS', 'an awaiter is registered on a future\'s slot only by awaiter::subscribe_check_ready(slot, awaiter::disabled): the unconditional push '
                   'awaiter::subscribe is never applied to a future\'s slot; on every path of future_common::subscribe exactly one operation reaches the slot (no separate '
                   'ready test before the push) and what the function answers is the answer of that operation', floor=2)
    MARK = 'cocls::awaiter::disabled'
    seen = set(); n = 0
    for f in db.all_instances():
        for e in f.events():
            if e.k != 'call' or norm(e.get('callee') or '') not in ('cocls::awaiter::subscribe', 'cocls::awaiter::subscribe_check_ready'):
                continue
            a = e.get('args') or []
            if not a or norm(a[0].get('field') or '') != SLOT or (f['key'], e.get('loc')) in seen:
                continue
            seen.add((f['key'], e.get('loc'))); n += 1
            if norm(e['callee']) == 'cocls::awaiter::subscribe':
                ctx.ob(rid, f, e['loc'], False, 'the slot of a future is pushed to by subscribe_check_ready only',
                       desc='unconditional awaiter::subscribe on a future\'s slot: a resolution between the caller\'s ready test and this push is overwritten (the waiter sits on top of the ready marker and is never resumed)')
            else:
                ok = len(a) >= 2 and (norm(a[1].get('field') or '') == MARK or (a[1].get('path') or '').endswith(MARK))
                ctx.ob(rid, f, e['loc'], ok, 'subscribe_check_ready on a future\'s slot refuses on the ready marker awaiter::disabled',
                       desc='registration on a future\'s slot does not test for the ready marker')
    for f, trs in traces_of(db, 'cocls::future_common::subscribe', per_instance=False):
        trs = [t for t in trs if live(t)]
        ctx.paths(rid, len(trs))
        bad = None
        for tr in trs:
            ops = [it for it in tr if it.k == 'call' and not it.get('expanded') and (
                (atomic.is_atomic_call(it) and norm(it.get('field') or '') == SLOT) or
                norm(it.get('callee') or '') in ('cocls::awaiter::subscribe', 'cocls::awaiter::subscribe_check_ready') or
                any(norm(a_.get('field') or '') == SLOT for a_ in it.get('args') or []))]
            reg = [it for it in ops if norm(it.get('callee') or '') == 'cocls::awaiter::subscribe_check_ready']
            if len(ops) != 1 or len(reg) != 1:
                bad = bad or ('%d operations reach the slot on one path (%s): the ready test and the push are not one atomic step' % (
                    len(ops), ', '.join((atomic.opname(o) if atomic.is_atomic_call(o) else norm(o.get('callee') or '?').split('::')[-1]) for o in ops) or 'none'), tr)
                continue
            o = origin_in_trace(tr, len(tr), ret_expr(tr))[0] or ''
            rb = ret_bool(tr)
            if not o.endswith('::subscribe_check_ready)') and not (rb is not None and any(tests(b, reg[0]) and bool(b.val) == rb for b in tr if b.k == 'branch')):
                bad = bad or ('the function does not answer what the registration answered (%s)' % (ret_expr(tr) or ret_const(tr)), tr)
        ctx.ob(rid, f, f['key'], bad is None and bool(trs), 'future_common::subscribe = one subscribe_check_ready on the slot, whose answer is returned' + ('' if not bad else ' -- ' + bad[0]),
               desc=bad[0] if bad else None, trace=fmt_trace(bad[1]) if bad else None)
    if n == 0:
        raise Broken('no registration on a future\'s slot found (future_common::_awaiter handed to subscribe_check_ready)')


def link_current(ctx, db, rid='C02.link-is-current-top'):
    """lock-free push: the new node's link must be the value the CAS expects to replace.  A failed compare_exchange reloads its expected
    argument, so the link has to be rewritten before every retry (or be the expected argument itself)"""
    rid = ctx.rule(rid, 'PATHS', 'awaiter::subscribe / subscribe_check_ready (the lock-free push onto an awaiter chain): at every compare_exchange that publishes this awaiter, _next '
                   'holds exactly the expected value of that attempt - it is the expected argument itself, or it was assigned from it after the last attempt reloaded it: '
                   'no awaiter pushed by another thread between two attempts is cut off the chain', floor=2)
    for name in ('cocls::awaiter::subscribe', 'cocls::awaiter::subscribe_check_ready'):
        for f, trs in traces_of(db, name, per_instance=False, maxvisit=3):
            ctx.paths(rid, len(trs))
            bad = None; ncas = 0
            for tr in trs:
                fresh = {}
                for it in tr:
                    if it.k == 'write' and (it.get('path') or '') == 'this->_next':
                        fresh = {(it.get('rhs') or ''): True}
                    elif it.k == 'write' and re.fullmatch(r'local:\w+(#\d+)?', it.get('path') or ''):
                        fresh.pop(it['path'], None)
                    elif it.k == 'call' and atomic.is_atomic_call(it) and atomic.opname(it).startswith('compare_exchange') and atomic.objname(it) == 'param:chain':
                        a = it.get('args') or [{}]
                        exp = a[0].get('path') or ''
                        if len(a) < 2 or a[1].get('path') != 'this':
                            continue
                        ncas += 1
                        if exp != 'this->_next' and not fresh.get(exp):
                            bad = bad or ('the awaiter is published with a link that is not the expected value of this attempt (%s): after a lost race the awaiters pushed in between are cut off the chain and never resumed' % exp, tr)
                        fresh.pop(exp, None)        # a failed attempt reloads the expected value
            if ncas == 0:
                raise Broken('%s: no publishing compare_exchange on the chain found' % name)
            ctx.ob(rid, f, f['key'], bad is None, '%s: _next is the expected value at every publishing CAS' % name.split('::')[-1] + ('' if not bad else ' -- ' + bad[0]), desc=bad[0] if bad else None,
                   trace=fmt_trace(bad[1]) if bad else None)


def await_suspend_siblings(ctx, db, rid='C02.await-suspend-siblings'):
    """the two registration forms of the generic awaiter (coroutine handle, callback + context) differ only in what they store: both answer
    exactly what the awaited object's subscribe() answered and never run the continuation themselves - on a refused registration the caller
    continues (the coroutine is not suspended; the callback's owner carries on), a second continuation would run it twice"""
    rid = ctx.rule(rid, 'SIBLINGS', 'co_awaiter::await_suspend(coroutine_handle) and co_awaiter::await_suspend(resume_fn, void*): on every path exactly one _owner.subscribe(this), whose answer is '
                   'what the function returns; the handle / function is stored before it; the awaiter is not resumed by the function itself', floor=2)
    T = htracer(db)
    seen = set(); n = 0
    for f in db.need('cocls::co_awaiter::await_suspend'):
        kind = 'callback' if len(f['params']) == 2 else 'handle'
        if (f['key'],) in seen:
            continue
        seen.add((f['key'],)); n += 1
        trs = [t for t in T.traces(f) if live(t)]
        ctx.paths(rid, len(trs))
        bad = None
        for tr in trs:
            sub = [i for i, c in enumerate(tr) if c.k == 'call' and norm(c.get('callee') or '').endswith('::subscribe') and (c.get('recv') or '').endswith('_owner')]
            res = [c for c in tr if c.k == 'call' and norm(c.get('callee')) in ('cocls::awaiter::resume',) and rooted(c.get('recv') or '', 'this')]
            if len(sub) != 1:
                bad = bad or ('the awaited object is asked to register %d times' % len(sub), tr); continue
            o = origin_in_trace(tr, len(tr), ret_expr(tr))[0] or ''
            rb = ret_bool(tr)
            if res:
                bad = bad or ('the awaiter is resumed by await_suspend itself: on a refused registration the caller continues anyway, the continuation runs twice', tr)
            elif not (o.startswith('call(') and o.endswith('::subscribe)')) and not (rb is not None and any(tests(b, tr[sub[0]]) and bool(b.val) == rb for b in tr if b.k == 'branch')):
                bad = bad or ('the function does not answer what subscribe() answered (%s): a refused registration is reported as a suspension nobody will end, or the reverse' % (ret_expr(tr) or ret_const(tr)), tr)
        ctx.ob(rid, f, f['key'], bad is None and bool(trs), 'await_suspend (%s form) = store, then answer subscribe()' % kind + ('' if not bad else ' -- ' + bad[0]), desc=bad[0] if bad else None,
               trace=fmt_trace(bad[1]) if bad else None)
    if n < 2:
        raise Broken('both forms of co_awaiter::await_suspend must be instantiated (found %d)' % n)


def _mentions(expr, path):
    """does the expression text contain the access path `path` as a whole operand (local:w does not occur in local:waiting)"""
    return bool(path) and re.search(r'(?<![\w:>.])' + re.escape(path) + r'(?![\w#]|->|\.)', expr or '') is not None


def _expected_is_next(tr):
    """at every publishing CAS on the chain of this trace the expected argument holds what _next holds: it is this->_next itself, or
    _next was assigned from it after it was last written / reloaded by a failed attempt (the same bookkeeping as link_current)"""
    fresh = {}
    for it in tr:
        if it.k == 'write' and (it.get('path') or '') == 'this->_next':
            fresh = {(it.get('rhs') or ''): True}
        elif it.k == 'write' and re.fullmatch(r'local:\w+(#\d+)?', it.get('path') or ''):
            fresh.pop(it['path'], None)
        elif it.k == 'call' and atomic.is_atomic_call(it) and atomic.opname(it).startswith('compare_exchange'):
            a = it.get('args') or [{}]
            exp = a[0].get('path') or ''
            if exp != 'this->_next' and not fresh.get(exp):
                return False
            fresh.pop(exp, None)
    return True


def _is_equal_true(br):
    p = br.path or ''
    if ' == ' in p:
        return br.val is True
    if ' != ' in p:
        return br.val is False
    return False


def resolve_one_rmw(ctx, db, rid='C02.resolve-one-rmw'):
    rid = ctx.rule(rid, 'ATOMIC+WHO', 'resume_chain_set_ready / resume_chain detach the chain with exactly one exchange whose result flows only into resume_chain_lk; '
                   'resume_chain_set_ready installs the ready marker; the slot of a future is written only by the tabled functions', floor=3)
    for name, newval in (('cocls::awaiter::resume_chain_set_ready', '&(param:ready_state)'), ('cocls::awaiter::resume_chain', 'nullptr')):
        _keys(db, name)
        # judged on the helper-expanded paths: the exchange may sit in a private helper of the class (with the installed value and the order
        # handed down), the installed value may have a name; what counts is what is done to the chain on every path through the function
        for f, trs in traces_of(db, name, per_instance=False):
            trs = [t for t in trs if live(t)]
            ok = bool(trs); found = None; flow = None; site = None
            for tr in trs:
                ops = [(i, it) for i, it in enumerate(tr) if it.k == 'call' and atomic.is_atomic_call(it) and atomic.objname(it) == 'param:chain']
                vals = [_installed(tr, i, o) for i, o in ops]
                good = len(ops) == 1 and atomic.opname(ops[0][1]) == 'exchange' and vals[0] == newval
                if found is None or (ok and not good):
                    found = ['%s(%s)' % (atomic.opname(o), v) for (i, o), v in zip(ops, vals)]
                ok = ok and good
                if ops:
                    site = site or ops[0][1].get('loc')
                    fl = _handed_to_walker(db, tr, ops[0][1])
                    flow = fl if flow is None else (flow and fl)
            ctx.ob(rid, f, f['key'], ok, 'one exchange on the chain installing %s (found %s)' % (newval, found or []),
                   desc='chain not detached by a single exchange')
            if site:
                ctx.ob(rid, f, site, bool(flow), 'the detached chain is handed to resume_chain_lk and nothing else', desc='detached chain not handed to the walker')
    # future::resolve hands the slot to resume_chain_set_ready on every path and does nothing else with it (no "nobody waits" fast path:
    # a waiter whose CAS lands between a load and a store of the slot is accepted and then overwritten)
    for f, trs in traces_of(db, 'cocls::future::resolve', per_instance=False):
        trs = [t for t in trs if live(t)]
        bad = None
        for tr in trs:
            direct = [it for it in tr if it.k == 'call' and atomic.is_atomic_call(it) and norm(it.get('field')) == SLOT and it.get('fname') == f['nname']]
            via = [it for it in tr if it.k == 'call' and norm(it.get('callee')) == 'cocls::awaiter::resume_chain_set_ready' and any(norm(a.get('field') or '') == SLOT for a in it.get('args', []))]
            if direct or len(via) != 1:
                bad = bad or tr
        ctx.ob(rid, f, f['key'], bad is None and bool(trs), 'future::resolve turns the slot to ready only through resume_chain_set_ready, once on every path', desc='future::resolve operates on the slot directly', trace=fmt_trace(bad) if bad else None)
    # writers of the future's slot: atomic writes + constructor initialisers
    def pred(f, e):
        if e.k == 'call' and atomic.is_atomic_call(e) and norm(e.get('field')) == SLOT and atomic.opname(e) in ('store', 'exchange', 'operator=', 'compare_exchange_weak', 'compare_exchange_strong'):
            return True
        if e.k == 'write' and field_of(e) == SLOT:
            return True
        if e.k == 'call' and norm(e.get('callee')) in ('cocls::awaiter::subscribe', 'cocls::awaiter::subscribe_check_ready', 'cocls::awaiter::resume_chain', 'cocls::awaiter::resume_chain_set_ready') \
                and any(norm(a.get('field') or '') == SLOT for a in e.get('args', [])):
            return True
        return False
    check_who(ctx, rid, who(db, pred), SLOT_WRITERS, 'write of a future\'s awaiter slot', db=db)


def _installed(tr, i, op):
    """the value an atomic write (exchange / store) at position i of a trace installs, followed back through named locals"""
    a = (op.get('args') or [{}])[0]
    p = a.get('path')
    v = origin_in_trace(tr, i, p)[0] or p
    if v in ('0', 'ctor(nullptr)') or (v is None and a.get('const') == 0):
        v = 'nullptr'
    return v


def _raw_event(db, it):
    """(function instance, event of its body) behind an item of a trace"""
    for g in db.instances(it['fn']) if it.get('fn') in db.inst else []:
        e = g.ev(it.get('id'))
        if e is not None and e.k == it.k and e.get('loc') == it.get('loc') and e.get('callee') == it.get('callee'):
            return g, e
    return None, None


def _handed_to_walker(db, tr, it, walker='cocls::awaiter::resume_chain_lk'):
    """does the value computed by the trace item `it` flow only into the chain walker: directly as its argument, through one local used for
    nothing else, or - computed inside an expanded helper that returns it - by way of the helper's result in the helper's caller"""
    for _ in range(4):
        g, e = _raw_event(db, it)
        if e is None:
            return False
        if flows_only_into(g, e, walker):
            return True
        if (e.get('use') or '') != 'return' or not it.get('depth'):
            return False
        # returned by a helper: the value is the result of the call that was expanded around this item
        skip = 0; up = None
        for x in reversed(tr[:pos(tr, it)]):
            if x.k == 'leave' and x.get('depth') == it['depth'] - 1:
                skip += 1
            elif x.k == 'enter' and x.get('depth') == it['depth'] - 1:
                if skip == 0:
                    up = x.ev; break
                skip -= 1
        if up is None:
            return False
        it = next((x for x in tr if x.k == 'call' and x.get('expanded') and x.get('id') == up.get('id') and x.get('fn') == up.get('fn') and x.get('depth') == up.get('depth')), None)
        if it is None:
            return False
    return False


def _keys(db, name):
    out = [db.rep(k) for k in db.find(name) if not db.rep(k).get('lambda')]
    if not out:
        raise Broken('anchor vanished: ' + name)
    return out


def walk(ctx, db, rid='C02.walk'):
    rid = ctx.rule(rid, 'ORDER+NO-TOUCH', 'chain walkers (awaiter::resume_chain_lk, mutex::unlock): nothing reachable from a node (or an alias of it) is read or written after '
                   'the node has been resumed / handed over - its owner may already be gone; the link of a node is read (into the cursor) before it is overwritten: '
                   'no path reads the _next of a node whose _next it has already cleared (the walk would end after that node and the rest of the chain is never resumed)', floor=2)
    for name, is_resume in (('cocls::awaiter::resume_chain_lk', lambda ev: ev.k == 'call' and norm(ev.get('callee')) == 'cocls::awaiter::resume'),
                            ('cocls::mutex::unlock', lambda ev: ev.k == 'call' and (ev.get('recv') == 'param:fn' or (ev.get('callee_expr') or '').startswith('param:fn') or norm(ev.get('callee')) == 'cocls::awaiter::resume'))):
        for f, trs in traces_of(db, name, depth=0, per_instance=False, maxvisit=3):
            ctx.paths(rid, len(trs))
            bad = None; nres = 0; lost = None
            for tr in trs:
                alias = {}          # var -> set of aliases (including itself)
                dead = set()
                cleared = set()     # names of the node(s) whose link this path has overwritten with something that is not a link
                inside = None       # id of the resume call whose own (inlined) body is being walked
                for i, it in enumerate(tr):
                    if it.k == 'abort':
                        break
                    if inside is None:
                        # the link is read before it is cleared: a read of <node>->_next through any name of a node whose link was overwritten
                        # on this path yields the overwriting value (null), not the successor
                        m_ = re.fullmatch(r'((?:local|param):\w+(?:#\d+)?|this)->_next', (it.get('path') or '') if it.k in ('read', 'write') else '')
                        if m_ and it.k == 'write':
                            if it.get('const') == 0 or (it.get('rhs') or '') in ('nullptr', '0'):
                                cleared |= set(alias.get(m_.group(1), {m_.group(1)}))
                            else:
                                cleared -= set(alias.get(m_.group(1), {m_.group(1)}))
                        elif m_ and m_.group(1) in cleared:
                            lost = lost or ('the link %s is read after this path has cleared it: the cursor becomes null, the walk ends after the first node and the awaiters behind it are never resumed' % it['path'], tr, i)
                        if it.k == 'decl' and it.get('var'):
                            cleared.discard(it['var'])
                        elif it.k == 'write' and re.fullmatch(r'(?:local|param):\w+(?:#\d+)?', it.get('path') or ''):
                            cleared.discard(it['path'])
                    if inside is not None:
                        if it.k == 'leave' and it.ev.get('id') == inside[0] and it.get('depth') == inside[1]:
                            inside = None
                        continue
                    if it.k == 'decl' and it.get('init') and re.fullmatch(r'(local|param):\w+|this->\w+', it.get('init') or ''):
                        a = alias.setdefault(it['init'], {it['init']})
                        a.add(it['var']); alias[it['var']] = a
                        dead.discard(it['var'])
                        continue
                    if it.k == 'decl':
                        dead.discard(it.get('var'))
                    if it.k == 'write' and (it.get('path') in alias or it.get('path') in dead):
                        p = it['path']
                        if p in alias:
                            alias[p].discard(p); alias.pop(p, None)
                        dead.discard(p)
                        if re.fullmatch(r'(local|param):\w+|this->\w+', it.get('rhs') or '') and it['rhs'] in dead:
                            dead.add(p)
                        continue
                    if it.k == 'call' and not is_resume(it):
                        dead.discard('call(%s)' % norm(it.get('callee')))     # a new call yields a new value under the same textual path
                    if dead and it.k in ('read', 'write', 'call'):
                        p = it.get('path') or it.get('recv') or ''
                        for dvar in dead:
                            if p != dvar and rooted(p, dvar) and not (it.k == 'call' and atomic.is_atomic_call(it)):
                                bad = bad or ('%s of %s after the node was resumed' % (it.k, p), tr, i)
                            if it.k == 'call' and p == dvar and is_resume(it):
                                bad = bad or ('node %s resumed twice' % p, tr, i)
                            if it.k == 'call' and not atomic.is_atomic_call(it):
                                # a field of the node handed to a function (std::exchange(y->_next, nullptr)) is read and written there
                                for a_ in it.get('args') or []:
                                    ap_ = re.sub(r'^(?:move|forward)\((.*)\)$', r'\1', a_.get('path') or '')
                                    if ap_ != dvar and rooted(ap_, dvar):
                                        bad = bad or ('%s is handed to %s after the node was resumed' % (ap_, norm(it.get('callee') or '?')), tr, i)
                    if is_resume(it):
                        if it.get('expanded'):
                            inside = (it.get('id'), it.get('depth'))
                        nres += 1
                        node = it.get('recv') if norm(it.get('callee')) == 'cocls::awaiter::resume' else ((it.get('args') or [{}])[0].get('path'))
                        if node:
                            dead |= set(alias.get(node, {node}))
            if nres == 0:
                raise Broken('no resume/hand-over event found in %s: anchor changed' % name)
            ctx.ob(rid, f, f['key'], bad is None, 'no access to a node after it was resumed' + ('' if not bad else ' -- ' + bad[0]), desc=(bad[0] if bad else None),
                   trace=short_trace(bad[1], bad[2]) if bad else None)
            ctx.ob(rid, f, f['key'], lost is None, 'the link of a node is read before it is cleared' + ('' if not lost else ' -- ' + lost[0]), desc=(lost[0] if lost else None),
                   trace=short_trace(lost[1], lost[2]) if lost else None)


def result_used(ctx, db, rid, family, floor=8, only=None):
    ctx.rule(rid, 'COUNT', 'the "registered?" answer of every subscribe-family call is returned, branched on, or stored in a flag that the caller branches on; never discarded '
             '(a refused registration must complete immediately). Calls synthesised by co_await are consumed by the language; callees that always return true are exempt by derivation', floor=floor)
    always_true = set()
    for name in family:
        for k in db.find(name):
            f = db.rep(k)
            rets = [e for e in f.events() if e.k == 'return']
            if rets and all(r.get('const') == 1 for r in rets):
                always_true.add(k)
    seen = set()
    for f in db.all_instances():
        if only is not None and not only(f):
            continue
        for e in f.events():
            if e.k != 'call' or norm(e.get('callee')) not in family or e.get('implicit'):
                continue
            if 'bool' not in (e.get('ret') or '').lower().replace('_bool', 'bool'):
                continue
            if e.get('callee_key') in always_true:
                continue
            site = (f['key'], e['loc'])
            if site in seen:
                continue
            seen.add(site)
            use = e.get('use') or ''
            ok = True; how = use
            if use == 'discard' or use.startswith('other') or use == 'operand':
                ok = False
            elif use.startswith('init:'):
                v = 'local:' + use[5:]
                tag = 'call(%s)' % e.get('callee')
                ok = any((b.get('cond') or {}).get('path') and (v in b['cond']['path'] or tag in b['cond']['path']) for b in f['blocks']) or \
                    any(r.k == 'return' and (v in (r.get('path') or '') or tag in (r.get('path') or '')) for r in f.events()) or \
                    _flag_tested(f, v, returned=True)
                how = 'bound to %s and %s' % (v, 'tested' if ok else 'never tested')
            elif use.startswith('assign:'):
                tgt = use[7:]
                m = re.fullmatch(r'param:(\w+)', tgt)
                if m:
                    idx = next((i for i, p in enumerate(f['params']) if p['name'] == m.group(1)), None)
                    tested = False; ncall = 0
                    for g in db.all_instances():
                        for ce in g.events():
                            if ce.k in ('call', 'construct') and ce.get('callee_key') == f['key'] and idx is not None and idx < len(ce.get('args') or []):
                                ncall += 1
                                ap = ce['args'][idx].get('path')
                                if any((b.get('cond') or {}).get('path') and ap in b['cond']['path'] for b in g['blocks']) or _flag_tested(g, ap, after=ce.get('loc')):
                                    tested = True
                                else:
                                    tested = tested and False
                                    ok = False
                    ok = ok and tested
                    how = 'stored in out-parameter %s, %s by the caller' % (tgt, 'tested' if ok else 'NOT tested')
                else:
                    ok = any((b.get('cond') or {}).get('path') and tgt in b['cond']['path'] for b in f['blocks']) or _flag_tested(f, tgt, after=e.get('loc'))
                    how = 'assigned to %s and %s' % (tgt, 'tested' if ok else 'never tested')
            ctx.ob(rid, f, e['loc'], ok, 'result of %s is used (%s)' % (norm(e['callee']).split('::', 1)[1], how), desc='result of %s discarded' % norm(e['callee']))


def _flag_tested(g, flag, returned=False, after=None):
    """is the boolean kept at `flag` (a local / parameter path of function g) branched on by g through a name of its own: a bool local
    initialised or assigned from an expression over the flag (const bool resolved_already = !waiting; if (resolved_already) ...), to any depth.
    With returned=True handing such a name back to the caller counts as well (the caller's use is judged at its own call site); with
    after=<source location of the call that sets the flag> a name computed before that call does not count (it carries the stale value)"""
    from ..core import _lc
    def later(e):
        return after is None or not _lc(after) or not _lc(e.get('loc')) or _lc(e['loc']) > _lc(after)
    def is_bool(var):
        return any(d.k == 'decl' and d.get('var') == var and (d.get('type') or '').replace('const ', '').strip() in ('_Bool', 'bool') for d in g.events())
    names = {flag}
    for _ in range(4):
        grew = False
        for e in g.events():
            src = tgt = None
            if e.k == 'decl' and e.get('init') and is_bool(e.get('var')):
                src, tgt = e['init'], 'local:' + e['var']
            elif e.k == 'write' and re.fullmatch(r'local:\w+', e.get('path') or '') and e.get('rhs') and (e.get('op') or '=') == '=' and is_bool(e['path'][6:]):
                src, tgt = e['rhs'], e['path']
            if src and tgt not in names and later(e) and any(_mentions(src, n) for n in names):
                names.add(tgt); grew = True
        if not grew:
            break
    carriers = names - {flag}
    if any((b.get('cond') or {}).get('path') and any(_mentions(b['cond']['path'], n) for n in carriers) for b in g['blocks']):
        return True
    return returned and any(r.k == 'return' and any(_mentions(r.get('path') or '', n) for n in carriers) for r in g.events())


def init_before_publish(ctx, db, summ, rid='C02.init-before-publish'):
    rid = ctx.rule(rid, 'ORDER', 'in every await_suspend that publishes its own awaiter, set_handle / set_resume_fn precedes the publishing call on every path', floor=3)
    T = Tracer(db, depth=0)
    for key in db.keys():
        f = db.rep(key)
        if not f['nname'].endswith('::await_suspend') or f.get('lambda'):
            continue
        trig = [e for e in f.events() if e.k == 'call' and not e.get('implicit') and any(o == 'this' or o.startswith('this->') for o, _ in summ.published_by(e))]
        def self_init(e, depth=2):
            c = db.get(e.get('callee_key'), e.get('callee_inst')) if e.get('callee_key') else None
            if c is None:
                return False
            if any(x.k == 'call' and norm(x.get('callee')) in ('cocls::awaiter::set_handle', 'cocls::awaiter::set_resume_fn') for x in c.events()):
                return True
            # a wrapper around such a publisher (first_suspend(h) { ...; emitter::await_suspend(h); ... })
            return depth > 0 and any(x.k == 'call' and x.get('callee_key') and summ.published_by(x) and self_init(x, depth - 1) for x in c.events())
        trig = [e for e in trig if not self_init(e)]       # a publisher that takes the handle initialises the awaiter itself
        if not trig:
            continue
        trs = [t for t in T.traces(f) if live(t)]
        ctx.paths(rid, len(trs))
        for e in trig:
            bad = None
            for tr in trs:
                pi = index_of(tr, lambda ev: ev.get('id') == e['id'] and ev.k == 'call')
                if pi < 0:
                    continue
                si = index_of(tr, lambda ev: ev.k == 'call' and norm(ev.get('callee')) in ('cocls::awaiter::set_handle', 'cocls::awaiter::set_resume_fn'))
                if si < 0 or si > pi:
                    bad = tr
            ctx.ob(rid, f, e['loc'], bad is None, 'the awaiter\'s handle / resume function is set before %s publishes it' % norm(e['callee']).split('::', 1)[1],
                   desc='awaiter published before set_handle/set_resume_fn', trace=fmt_trace(bad) if bad else None)


def sync_waits(ctx, db, rid='C02.sync-waits'):
    rid = ctx.rule(rid, 'ORDER', 'co_awaiter::sync / force_sync: the thread blocks on the sync_awaiter\'s flag exactly on the registered edge (a refused registration '
                   'must not block, a registered one must block before the awaiter\'s lifetime ends)', floor=2)
    for name in ('cocls::co_awaiter::sync', 'cocls::co_awaiter::force_sync'):
        for f, trs in traces_of(db, name, depth=1, inline=inline_only('cocls::sync_awaiter::wait_sync'), per_instance=False):
            trs = [t for t in trs if live(t)]
            ctx.paths(rid, len(trs))
            bad = None; nreg = 0
            for tr in trs:
                # one wait = one ready test and at most one registration: for an awaitable whose ready test acquires (mutex::ready is the
                # try-lock CAS) a second poll after the wake-up requests the lock again while the caller already owns it
                # (the awaiter's own await_ready() / subscribe() are one-line forwarders to the awaited object: the question may as well be put
                # to the awaited object directly - what is counted, and whose answer must be tested, is the request that reaches _owner)
                nar = sum(1 for c in calls(tr) if _asks_owner(c, 'await_ready', 'ready'))
                nsub = sum(1 for c in calls(tr) if _asks_owner(c, 'subscribe', 'subscribe'))
                if nar > 1 or nsub > 1:
                    bad = bad or ('the wait asks await_ready() %d times and registers %d times on one path: the protocol of an awaitable is one ready test and one registration per wait '
                                  '(a woken mutex waiter that polls again requests the lock it already owns and waits for itself)' % (nar, nsub), tr)
                si = index_of(tr, lambda ev: _asks_owner(ev, 'subscribe', 'subscribe'))
                if si < 0:
                    continue
                reg = None
                for it in tr[si:]:
                    if tests(it, tr[si]):
                        reg = it.val; break
                waits = all_indices(tr, lambda ev: ev.k == 'call' and atomic.is_atomic_call(ev) and atomic.opname(ev) == 'wait' and norm(ev.get('field')) == 'cocls::sync_awaiter::flag')
                dt = index_of(tr, lambda ev: ev.k == 'dtor' and 'sync_awaiter' in (ev.get('type') or ''))
                if reg is True:
                    nreg += 1
                    if not waits or (dt >= 0 and waits[0] > dt):
                        bad = bad or ('registered waiter does not block before its awaiter dies', tr)
                elif reg is False and waits:
                    bad = bad or ('a refused registration blocks anyway (nobody will ever wake it)', tr)
                elif reg is None:
                    bad = bad or ('the registration result is not tested', tr)
            if nreg == 0 and not bad:
                bad = ('no registered path', trs[0] if trs else [])
            ctx.ob(rid, f, f['key'], bad is None, 'blocks iff registered' + ('' if not bad else ' -- ' + bad[0]), desc=(bad[0] if bad else None), trace=fmt_trace(bad[1]) if bad else None)


def _asks_owner(c, own, owners):
    """is trace item c the request `own` of the generic awaiter as it reaches the awaited object: the call <awaited>.`owners`() on the
    awaiter's _owner (made by the forwarder co_awaiter::`own` when that was expanded, or written out in the waiting function itself), or
    the forwarder co_awaiter::`own` when it was not expanded"""
    if c.k != 'call':
        return False
    n = norm(c.get('callee') or '')
    if n == 'cocls::co_awaiter::' + own:
        return not c.get('expanded')
    fld = norm(c.get('field') or c.get('lfield') or '')
    return n.endswith('::' + owners) and (fld == 'cocls::co_awaiter::_owner' or (not fld and re.search(r'^this(->|\.)_owner$', c.get('recv') or '') is not None))


def ready_means_resolved(ctx, db):
    """a waiter that skips the suspension because await_ready answered true reads the result at once: that answer may only come from ready()
    (the acquire load that sees the ready marker), never from the payload's state tag, which is written before the resolution"""
    rid = ctx.rule('C02.ready-means-resolved', 'PATHS', 'await_ready of the future awaiters (co_awaiter, future::awaitable_bool): every path returns the answer of the owner\'s ready() '
                   '(or constant false); no path answers from anything else (the state tag is stored before the future is resolved)', floor=2)
    for name in ('cocls::co_awaiter::await_ready', 'cocls::future::awaitable_bool::await_ready'):
        for f, trs in traces_of(db, name, per_instance=False):
            trs = [t for t in trs if live(t)]
            ctx.paths(rid, len(trs))
            bad = None
            for tr in trs:
                if ret_const(tr) == 0:
                    continue
                p = ret_expr(tr) or ''
                if not re.fullmatch(r'call\((cocls::[\w:]+)::ready\)', p):
                    bad = bad or ('a path answers %s' % (p or '?')[:80], tr)
                    continue
                rc = [c for c in calls(tr) if norm(c.get('callee') or '').endswith('::ready')]
                if not rc or not (rc[-1].get('recv') or '').endswith('_owner'):
                    bad = bad or ('ready() is not asked of the awaited object', tr)
            ctx.ob(rid, f, f['key'], bad is None, 'await_ready answers only from _owner.ready()' + ('' if not bad else ' -- ' + bad[0]), desc=bad[0] if bad else None, trace=fmt_trace(bad[1]) if bad else None)
