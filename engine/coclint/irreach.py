# Engine B: LLVM-IR call-graph effect analysis (REACH).  The driver TU is compiled to text IR at -O0 (nothing inlined:
# every call the source makes is an edge); reachability entry set -> sink set with an explicit boundary set.
import os, re, subprocess, collections, hashlib
from .core import Broken
from . import facts

SINKS = {'_Znwm', '_Znam', 'malloc', 'calloc', 'realloc', '_ZnwmSt11align_val_t', '_ZnamSt11align_val_t', '_ZnwmRKSt9nothrow_t', '_ZnamRKSt9nothrow_t', 'posix_memalign',
         'aligned_alloc', '_ZnwmSt11align_val_tRKSt9nothrow_t', 'strdup', 'memalign', 'valloc'}


def compile_ir(src, flags=('-UNDEBUG',)):
    os.makedirs(facts.CACHE, exist_ok=True)
    key = facts.tree_hash(extra=[open(src, 'rb').read(), flags])
    out = os.path.join(facts.CACHE, 'ir_%s_%s.ll' % (os.path.basename(src)[:-4], key))
    if not os.path.exists(out):
        # concurrent checks may compile at the same time: private temporary name, and only finished files are evicted
        olds = sorted((p for p in os.listdir(facts.CACHE) if p.startswith('ir_' + os.path.basename(src)[:-4]) and p.endswith('.ll')),
                      key=lambda p: os.path.getmtime(os.path.join(facts.CACHE, p)) if os.path.exists(os.path.join(facts.CACHE, p)) else 0)
        for old in olds[:-int(os.environ.get('COCLS_CACHE_KEEP', '3'))]:
            try:
                os.unlink(os.path.join(facts.CACHE, old))
            except OSError:
                pass
        tmp = '%s.%d.tmp' % (out, os.getpid())
        cmd = ['clang++', '-std=gnu++20', '-I' + os.path.join(facts.REPO, 'src'), '-O0', '-g0', '-S', '-emit-llvm', '-Wno-everything'] + list(flags) + [src, '-o', tmp]
        r = subprocess.run(cmd, capture_output=True, text=True)
        if r.returncode != 0:
            try:
                os.unlink(tmp)
            except OSError:
                pass
            raise Broken('IR driver %s does not compile against this tree: %s' % (os.path.basename(src), r.stderr[-600:]))
        os.replace(tmp, out)
    return out


class Module:
    def __init__(self, path):
        self.defs = {}      # mangled -> {'calls': [mangled], 'ind': n}
        cur = None
        for line in open(path):
            if line.startswith('define'):
                m = re.search(r'@"?([\w.$]+)"?\s*\(', line)
                if not m:
                    cur = None; continue
                cur = m.group(1); self.defs.setdefault(cur, {'calls': [], 'ind': 0})
            elif line.startswith('}'):
                cur = None
            elif cur:
                m = re.search(r'\b(?:call|invoke)\b.*?(@"?[\w.$]+"?|%[\w.]+)\(', line)
                tgt = None
                if m and (' call ' in line or ' invoke ' in line or line.lstrip().startswith(('call', 'invoke'))):
                    t = m.group(1)
                    if t.startswith('@'):
                        tgt = t[1:].strip('"')
                        self.defs[cur]['calls'].append(tgt)
                    else:
                        self.defs[cur]['ind'] += 1
                # a function whose address is taken (stored, passed as argument) may be called through that pointer: treat the reference as an edge
                for r_ in re.findall(r'@"?([\w.$]+)"?', line):
                    if r_ != tgt and r_.startswith('_Z'):
                        self.defs[cur].setdefault('refs', set()).add(r_)
        names = set(self.defs)
        for d in self.defs.values():
            names |= set(d['calls'])
        names = sorted(names)
        out = subprocess.run(['c++filt'], input='\n'.join(names), capture_output=True, text=True).stdout.split('\n')
        self.dem = dict(zip(names, out))

    def name(self, n):
        return self.dem.get(n, n)

    def head(self, n):
        return self.name(n).split('(')[0]


def reach(mod, entries, boundary):
    """forward closure; returns (reached set, {function: set(sinks called)}, parent map, {boundary kind: set(functions)})"""
    sites = collections.defaultdict(set)
    seen = set(); work = list(entries); parent = {}; cut = collections.defaultdict(set)
    while work:
        x = work.pop()
        if x in seen:
            continue
        seen.add(x)
        dx = mod.defs.get(x, {'calls': []})
        for c in list(dx['calls']) + [r_ for r_ in sorted(dx.get('refs', ())) if r_ in mod.defs]:
            if c in SINKS:
                sites[x].add(c); continue
            b = boundary(c)
            if b:
                cut[b].add(c); continue
            if c in mod.defs and c not in seen:
                parent.setdefault(c, x); work.append(c)
    return seen, sites, parent, cut


def chain(mod, parent, x, n=6):
    out = [x]
    while out[-1] in parent and len(out) < n:
        out.append(parent[out[-1]])
    return [mod.head(c)[-70:] for c in out]
