# TYPE rule kind (engine C): the compiler is the analyser.  Positive witnesses are static_asserts
# that must compile; negative witnesses are snippets that must NOT compile (batched in one TU).
import os, re, subprocess
from .core import Broken
from . import facts

WIT = os.path.join(facts.VERIF, 'witnesses')


def _compile(path, extra=()):
    cmd = ['clang++', '-std=gnu++20', '-fsyntax-only', '-ferror-limit=0', '-Wno-everything', '-I' + os.path.join(facts.REPO, 'src'), '-I' + os.path.join(facts.VERIF, 'drivers')] + list(extra) + [path]
    r = subprocess.run(cmd, capture_output=True, text=True)
    errs = []
    for l in r.stderr.splitlines():
        m = re.match(r'^(.*?):(\d+):(\d+): (fatal error|error): (.*)$', l)
        if m:
            errs.append((m.group(1), int(m.group(2)), m.group(5)))
            continue
        # an error inside a library header raised while instantiating something the witness file asked for: it belongs to the line of
        # the witness file that requested the instantiation (the outermost "requested here" note)
        m = re.match(r'^(.*?):(\d+):(\d+): note: in instantiation of .* requested here$', l)
        if m and errs and os.path.abspath(m.group(1)) == os.path.abspath(path) and os.path.abspath(errs[-1][0]) != os.path.abspath(path):
            errs[-1] = (m.group(1), int(m.group(2)), 'while instantiating: %s (%s:%d)' % (errs[-1][2], os.path.basename(errs[-1][0]), errs[-1][1]))
    return r.returncode, errs, r.stderr


def positive(ctx, rid, fname, text):
    """every `static_assert` / `WITNESS(...)` line of the file is one obligation; the file must compile"""
    path = os.path.join(WIT, fname)
    ctx.rule(rid, 'TYPE', text)
    if not os.path.exists(path):
        raise Broken('witness file missing: ' + fname)
    src = open(path).read().splitlines()
    obl = [(i + 1, l.strip()) for i, l in enumerate(src) if re.match(r'\s*(static_assert|WITNESS)\b', l) or re.match(r'\s*template\s+[^<].*;\s*//\s*WITNESS\b', l)]
    rc, errs, raw = _compile(path)
    mine = [(ln, msg) for (f, ln, msg) in errs if os.path.basename(f) == fname]
    other = [(f, ln, msg) for (f, ln, msg) in errs if os.path.basename(f) != fname]
    failed_lines = {ln for ln, _ in mine}
    if rc != 0 and not mine and not other:
        raise Broken('witness TU %s failed to compile without a located error: %s' % (fname, raw[-400:]))
    def owner(eln):
        c = [o[0] for o in obl if o[0] <= eln]
        return max(c) if c and eln - max(c) <= 3 else None
    hard = [(ln, msg) for ln, msg in mine if owner(ln) is None]
    if other and not mine:
        # an error inside the library headers themselves: the tree does not compile the witness at all
        raise Broken('witness TU %s does not compile against this tree: %s:%d %s' % (fname, other[0][0], other[0][1], other[0][2]))
    for ln, l in obl:
        bad = [msg for (eln, msg) in mine if owner(eln) == ln]
        ctx.ob(rid, 'type-witness ' + fname, '%s:%d' % (fname, ln), not bad, l[:200], detail={'compiler': bad[:2]} if bad else None, desc=re.sub(r'\s+', ' ', l)[:160])
    for ln, msg in hard:
        ctx.ob(rid, 'type-witness ' + fname, '%s:%d' % (fname, ln), False, 'witness code must compile: ' + msg[:160], desc='compile error: ' + re.sub(r"'[^']*'", "'..'", msg)[:80])
    return len(obl)


def negative(ctx, rid, fname, text):
    """snippets between `// NEG-BEGIN <name>` and `// NEG-END` must each produce at least one compile error; no error outside"""
    path = os.path.join(WIT, fname)
    ctx.rule(rid, 'TYPE', text)
    if not os.path.exists(path):
        raise Broken('witness file missing: ' + fname)
    src = open(path).read().splitlines()
    snippets = []; cur = None
    for i, l in enumerate(src):
        m = re.match(r'\s*// NEG-BEGIN (.*)$', l)
        if m:
            cur = [m.group(1).strip(), i + 1, None]
        elif re.match(r'\s*// NEG-END', l) and cur:
            cur[2] = i + 1; snippets.append(tuple(cur)); cur = None
    if not snippets:
        raise Broken('no negative witness in ' + fname)
    rc, errs, raw = _compile(path)
    mine = [(ln, msg) for (f, ln, msg) in errs if os.path.basename(f) == fname]
    # errors located in headers but caused by a snippet carry an "in instantiation ... requested here" note pointing into the snippet
    notes = [int(m.group(1)) for m in re.finditer(re.escape(fname) + r':(\d+):\d+: note:', raw)]
    outside = [(ln, msg) for ln, msg in mine if not any(a <= ln <= b for (_, a, b) in snippets)]
    if outside:
        raise Broken('negative witness TU %s has an error outside every snippet (line %d: %s)' % (fname, outside[0][0], outside[0][1][:120]))
    for name, a, b in snippets:
        hit = any(a <= ln <= b for ln, _ in mine) or any(a <= ln <= b for ln in notes)
        ctx.ob(rid, 'type-witness ' + fname, '%s:%d' % (fname, a), hit, 'must not compile: ' + name, desc='negative witness compiles: ' + name)
    return len(snippets)
