# coclint rule-runner core: fact database, normalisation, path enumeration with
# interprocedural expansion, small helpers shared by all rules.  Pure static analysis
# over the extractor's mini-IR (DESIGN.md section 2.1 / 3).
import json, glob, re, collections, sys, os
sys.setrecursionlimit(50000)


class Broken(Exception):
    """analysis-broken: an anchor vanished, a bound was exceeded, facts are missing (exit 2)"""


def norm(x):
    """strip template argument lists from a qualified name: cocls::future<int>::set -> cocls::future::set"""
    x = x or ''
    if '<' not in x:
        return x
    r = _NORM_CACHE.get(x)
    if r is not None:
        return r
    ops = []

    def protect(m):
        ops.append(m.group(0)); return '\x00%d\x00' % (len(ops) - 1)
    y = _OPER_RE.sub(protect, x)
    out = []; depth = 0
    for c in y:
        if c == '<':
            depth += 1
        elif c == '>' and depth > 0:
            depth -= 1
        elif depth == 0:
            out.append(c)
    y = ''.join(out)
    y = re.sub('\x00(\\d+)\x00', lambda m: ops[int(m.group(1))], y)
    _NORM_CACHE[x] = y
    return y


_NORM_CACHE = {}
_OPER_RE = re.compile(r'operator\s*(<=>|<<=|>>=|<<|>>|<=|>=|->\*|->|<|>)')


def _unused():
    return None


def short(l):
    return l.split('/')[-1] if l else '?'


def relloc(l):
    """/repo/src/cocls/x.h:12:3 -> src/cocls/x.h:12"""
    if not l:
        return '?'
    m = re.match(r'^(.*?):(\d+)(?::\d+)?$', l)
    p, ln = (m.group(1), m.group(2)) if m else (l, '?')
    i = p.find('/src/cocls/')
    if i >= 0:
        p = p[i + 1:]
    return '%s:%s' % (p, ln)


class Item(dict):
    __getattr__ = dict.get


class Fn(dict):
    """one instantiated function body"""
    __getattr__ = dict.get

    def events(self):
        for b in self['blocks']:
            for e in b['ev']:
                yield e

    def ev(self, i):
        return self['_evs'].get(i)

    def block_of(self, evid):
        return self['_evblock'].get(evid)


class DB:
    def __init__(self, files):
        self.inst = collections.defaultdict(dict)   # key -> {inst name -> Fn}
        self.classes = {}
        self.allfns = {}
        self.consts = {}
        self.tus = []
        for p in sorted(files):
            try:
                d = json.load(open(p))
            except Exception as ex:
                raise Broken('cannot load facts %s: %s' % (p, ex))
            self.tus.append(p)
            for f in d['functions']:
                if f['inst'] in self.inst.get(f['key'], {}):
                    continue
                f = Fn(f)
                f['blocks'] = [Item(b) for b in f['blocks']]
                for b in f['blocks']:
                    b['ev'] = [Item(e) for e in b['ev']]
                f['_blocks'] = {b['id']: b for b in f['blocks']}
                f['_evs'] = {e['id']: e for b in f['blocks'] for e in b['ev'] if 'id' in e}
                f['_evblock'] = {e['id']: b['id'] for b in f['blocks'] for e in b['ev'] if 'id' in e}
                f['nname'] = norm(f['name'])
                self.inst[f['key']][f['inst']] = f
            for c in d['classes']:
                self.classes.setdefault((c['inst'], c.get('loc')), c)
            for a in d['all']:
                self.allfns[a['key']] = a['name']
            for k_, v_ in (d.get('consts') or {}).items():
                # values of namespace-scope / static member integer constants referenced in paths (global:<name>)
                if k_ in self.consts and self.consts[k_] != v_:
                    self.consts[k_] = None
                else:
                    self.consts.setdefault(k_, v_)
        self.byname = collections.defaultdict(list)    # normalised name -> [key]
        for k, m in self.inst.items():
            f = next(iter(m.values()))
            self.byname[f['nname']].append(k)

    def keys(self):
        return list(self.inst)

    def rep(self, key):
        return next(iter(self.inst[key].values()))

    def instances(self, key):
        return list(self.inst[key].values())

    def find(self, name):
        """keys of function patterns with this normalised qualified name"""
        return list(self.byname.get(name, []))

    def fns(self, name, lambdas=False):
        """all instances of all patterns with this normalised name (non-lambda by default)"""
        out = []
        for k in self.find(name):
            for f in self.instances(k):
                if f.get('lambda') and not lambdas:
                    continue
                out.append(f)
        return out

    def need(self, name, minimum=1):
        r = self.fns(name)
        if len(r) < minimum:
            raise Broken('anchor vanished: no instantiated body of %s (need >= %d, have %d)' % (name, minimum, len(r)))
        return r

    def get(self, key, inst=None):
        m = self.inst.get(key)
        if not m:
            return None
        if inst and inst in m:
            return m[inst]
        return next(iter(m.values()))

    def resolve(self, caller, key, callee_inst=None):
        """the instance of function `key` that a call made from `caller` reaches: exact instantiation name when known; closures are
        matched to the caller's own enclosing instantiation"""
        m = self.inst.get(key)
        if not m:
            return None
        if callee_inst and callee_inst in m:
            return m[callee_inst]
        cands = list(m.values())
        if cands[0].get('lambda') and caller is not None:
            pi = caller.get('parent_inst') if caller.get('lambda') else caller.get('inst')
            c2 = [c for c in cands if c.get('parent_inst') == pi]
            if c2:
                cands = c2
        if callee_inst:
            c3 = [c for c in cands if c.get('plain_inst') == callee_inst]
            if c3:
                return c3[0]
        return cands[0]

    def closure_instances(self, caller, key):
        """all specialisations of the closure `key` that belong to the caller's enclosing instantiation (a generic lambda has several)"""
        m = self.inst.get(key)
        if not m:
            return []
        cands = list(m.values())
        if caller is not None:
            pi = caller.get('parent_inst') if caller.get('lambda') else caller.get('inst')
            c2 = [c for c in cands if c.get('parent_inst') == pi]
            if c2:
                cands = c2
        return cands

    def lambdas_in(self, parent_key):
        return [k for k in self.inst if self.rep(k).get('lambda') and self.rep(k).get('parent_key') == parent_key]

    def all_instances(self):
        for k, m in self.inst.items():
            for f in m.values():
                yield f

    def class_insts(self, name):
        return [c for c in self.classes.values() if norm(c['name']) == name]


ROOTS = ('this', 'param:', 'local:', 'capture:', 'global:', 'call(', 'fn:')
_ROOT_RE = re.compile(r'\bthis\b|(?:param|local|capture):\w+(?:#\d+)?')


_DEREF_DOT = re.compile(r'\*\((this|(?:param|local|capture):\w+(?:#\d+)?)\)\.')


def subst_path(p, env):
    if p is None or not env:
        return p
    r = _ROOT_RE.sub(lambda m: env.get(m.group(0), m.group(0)), p)
    if '*(' in r:
        r = _DEREF_DOT.sub(r'\1->', r)        # a reference parameter bound to *p: (*p).x is p->x
    return r


def bool_locals(f):
    """bool locals defined exactly once by their initialiser: var -> (initialiser path, event computing it, negated)"""
    c = f.get('_bool_locals')
    if c is not None:
        return c
    out = {}
    written = collections.Counter()
    for e in f.events():
        if e.k == 'write' and re.fullmatch(r'local:\w+', e.get('path') or ''):
            written[e['path'][6:]] += 1
    escaped = set()
    for e in f.events():
        for a in (e.get('args') or []):
            m = re.fullmatch(r'&?\(?local:(\w+)\)?', a.get('path') or '')
            if m and '&' in (a.get('type') or '') + (a.get('path') or ''):
                escaped.add(m.group(1))
            elif m and e.k in ('call', 'construct') and (a.get('type') or '') in ('_Bool', 'bool') and not a.get('ev'):
                escaped.add(m.group(1))       # passed as an lvalue (no load event): may bind to a reference parameter
        if e.k == 'lambda':
            for c in e.get('captures', []):
                if c.get('byref') and c.get('name'):
                    escaped.add(c['name'])
    for e in f.events():
        if e.k == 'decl' and (e.get('type') or '').replace('const ', '') in ('_Bool', 'bool') and e.get('init') and not written[e['var']] \
                and e['var'] not in escaped and e.get('const') is None and e['init'] not in ('true', 'false'):
            ini = e['init']; neg = False
            while ini.startswith('!(') and ini.endswith(')'):
                ini = ini[2:-1]; neg = not neg
            iev = e.get('init_ev')
            ie = f.ev(iev) if iev is not None else None
            if ie is not None and ie.k == 'use':
                iev = None
            out[e['var']] = (ini, iev, neg)
    f['_bool_locals'] = out
    return out


def local_env(f):
    """copy-propagation for locals that are references / pointers / call results, defined once"""
    c = f.get('_lenv')
    if c is not None:
        return c
    env = {}
    assigned = collections.Counter()
    written = set()
    for e in f.events():
        if e.k == 'write' and not e.get('init'):
            written.add(e.get('path') or '')
            if re.fullmatch(r'local:\w+', e.get('path') or ''):
                assigned[e['path']] += 1
        if e.k == 'call' and 'compare_exchange' in (e.get('callee') or '') and e.get('args'):
            written.add(e['args'][0].get('path') or '')       # the `expected` out-argument
            if re.fullmatch(r'local:\w+', e['args'][0].get('path') or ''):
                assigned[e['args'][0]['path']] += 1
    written.discard('')

    def depends_on_written(ini):
        # a pointer/value copied from a location that is reassigned later is NOT an alias of that location
        for w in written:
            if ini == w or ini.startswith(w + '->') or ini.startswith(w + '.') or ini.startswith('*(' + w + ')') or ini == '&(' + w + ')':
                return True
        return False
    for e in f.events():
        if e.k == 'decl' and e.get('init') and assigned['local:' + e['var']] == 0 and (e.get('ref') or e.get('ptr') or e['init'].startswith('call(')):
            ini = e['init']
            if (ini.startswith(ROOTS) or ini.startswith('*(') or ini.startswith('&(')) and (e.get('ref') or not depends_on_written(ini)):
                env['local:' + e['var']] = ini
    # a local that names an arithmetic expression over values that cannot change (parameters never assigned, literals, sizeof, earlier
    # such locals): const std::size_t need = sz + 1;  reads of `need` are reads of (sz + 1)
    ATOM = r'(?:param:\w+|local:\w+|\d+|sizeof\([^()]*(?:\([^()]*\))?[^()]*\)|global:[\w:<>, ]+)'
    for e in f.events():
        if e.k == 'decl' and e.get('init') and assigned['local:' + e['var']] == 0 and not (e.get('ref') or e.get('ptr')) and e['init'].startswith('('):
            ini = e['init']
            if not re.fullmatch(r'[()\s]*' + ATOM + r'(?:[()\s]*[-+*/][()\s]*' + ATOM + r')+[()\s]*', ini):
                continue
            atoms = re.findall(r'param:\w+|local:\w+', ini)
            if all((a not in written) and (a.startswith('param:') or a in env) for a in atoms):
                env['local:' + e['var']] = ini
    for _ in range(3):
        for k in list(env):
            env[k] = subst_path(env[k], {kk: vv for kk, vv in env.items() if kk != k})
    f['_lenv'] = env
    return env


PATHKEYS = ('path', 'recv', 'rhs', 'lhs', 'init', 'operand', 'callee_expr', 'cond', 'size')


def apply_env(e, env):
    e = Item(e)
    for k in ('path', 'recv'):
        if k in e:
            e['o' + k] = e[k]
    for k in PATHKEYS:
        if k in e and isinstance(e[k], str):
            e[k] = subst_path(e[k], env)
    if 'args' in e:
        e['args'] = [dict(a, path=subst_path(a.get('path'), env), opath=a.get('path')) for a in e['args']]
    if 'placement' in e:
        e['placement'] = [dict(a, path=subst_path(a.get('path'), env)) for a in e['placement']]
    return e


# std entry points that invoke a callable argument immediately (index of the callable)
STD_IMMEDIATE = {'std::visit': 0, 'std::find_if': 2, 'std::apply': 0, 'std::condition_variable::wait': 1,
                 'std::for_each': 2, 'std::condition_variable::wait_until': 2, 'std::condition_variable::wait_for': 2}


def split_select_(p):
    """'(C ? A : B)' -> (C, A, B) or None"""
    if not (p and p.startswith('(') and p.endswith(')')):
        return None
    body = p[1:-1]; depth = 0; q = c = None
    for i, ch in enumerate(body):
        if ch == '(':
            depth += 1
        elif ch == ')':
            depth -= 1
        elif depth == 0 and body[i:i + 3] == ' ? ' and q is None:
            q = i
        elif depth == 0 and body[i:i + 3] == ' : ' and q is not None and c is None:
            c = i
    if q is None or c is None:
        return None
    return body[:q], body[q + 3:c], body[c + 3:]


def switch_value(sq, cev, d):
    """(const, text) of the value a switch at depth d tests when it is the result of a helper expanded just before on this path"""
    if cev is None:
        return None
    lli = next((n_ for n_ in range(len(sq) - 1, -1, -1) if sq[n_].k == 'leave' and sq[n_].get('depth') == d and sq[n_].ev.id == cev), None)
    if lli is None:
        return None
    if sq[lli].get('ret') is not None:
        return (sq[lli]['ret'], None)
    rv = next((x for x in reversed(sq[:lli]) if x.k == 'return' and x.get('depth') == d + 1), None)
    if rv is None or not rv.get('path'):
        return None
    e_ = next((n_ for n_ in range(lli - 1, -1, -1) if sq[n_].k == 'enter' and sq[n_].get('depth') == d and sq[n_].ev.id == cev), 0)
    p = rv['path']
    for _ in range(4):
        sp = split_select_(p)
        if not sp:
            break
        br = next((x for x in reversed(sq[e_:lli]) if x.k == 'branch' and x.get('depth') == d + 1 and (x.get('opath') == sp[0] or x.get('path') == sp[0])), None)
        if br is None:
            return None
        p = sp[1] if br.val else sp[2]
    if re.fullmatch(r'decl:[\w:<>, ]+', p):
        return (None, p)
    return None


def pos(tr, it):
    """index of this very item in the trace (list.index compares by content and finds an equal item of an earlier loop iteration)"""
    for i, x in enumerate(tr):
        if x is it:
            return i
    return tr.index(it)


def split_logic(p):
    """'(X || Y)' / '(X && Y)' -> (X, op, Y) split at the last top-level operator, else None"""
    if not (p and p.startswith('(') and p.endswith(')')):
        return None
    depth = 0; last = None
    body = p[1:-1]
    for i, ch in enumerate(body):
        if ch in '([{<' and not (ch == '<' and (body[i - 1:i] == ' ' or body[i + 1:i + 2] in (' ', '='))):
            depth += 1
        elif ch in ')]}>' and not (ch == '>' and (body[i - 1:i] in (' ', '-') or body[i + 1:i + 2] in (' ', '='))):
            depth -= 1
            if depth < 0:
                return None
        elif depth == 0 and body[i:i + 4] in (' || ', ' && '):
            last = i
    if last is None or depth != 0:
        return None
    return body[:last], body[last + 1:last + 3], body[last + 4:]


def logic_leaves(p):
    """the operands of a (nested) && / || expression, negations peeled"""
    out = set()
    work = [p]
    while work:
        q = work.pop()
        while q.startswith('!(') and q.endswith(')') and q.count('(') == q.count(')'):
            q = q[2:-1]
        sp = split_logic(q)
        if sp is None:
            out.add(q)
            if q.startswith('(') and q.endswith(')'):
                out.add(q[1:-1])
        else:
            work += [sp[0], sp[2]]
    return out


def eval_logic(p, known):
    """value of a boolean expression given the outcomes of the branches taken: ('const', bool) | ('expr', path, negated) | None"""
    neg = False
    while p.startswith('!(') and p.endswith(')') and split_logic(p[1:]) is not None:
        p = p[1:]; neg = not neg
    if p in known:
        return ('const', known[p] != neg)
    if p.startswith('(') and p.endswith(')') and p[1:-1] in known:
        return ('const', known[p[1:-1]] != neg)
    sp = split_logic(p)
    if sp is None:
        q = p
        while q.startswith('!(') and q.endswith(')') and q.count('(') == q.count(')'):
            q = q[2:-1]; neg = not neg
        if q in known:
            return ('const', known[q] != neg)
        return ('expr', q, neg)
    x, o, y = sp
    rx = eval_logic(x, known)
    if rx is None or rx[0] != 'const':
        return None
    if (o == '||') == rx[1]:
        return ('const', rx[1] != neg)
    ry = eval_logic(y, known)
    if ry is None:
        return None
    if ry[0] == 'const':
        return ('const', ry[1] != neg)
    return ('expr', ry[1], ry[2] != neg)


def ev_form(x):
    if x.k == 'call':
        return 'call(%s)' % norm(x.get('callee') or '')
    if x.k == 'cmp':
        return '(%s %s %s)' % (x.get('lhs'), x.get('op'), x.get('rhs'))
    return x.get('path')


def self_consistent(tr):
    """is the trace free of self-contradiction?  One evaluation of one condition event (a bool local defined once: const bool any = !empty();
    if (any && a) {...} else if (any) {...}) cannot come out differently at two branches unless the event ran again in between (a loop iteration,
    a second expansion of the helper); a plain local / parameter tested twice without having been written keeps its value.  The enumerator
    walks every combination of edges: combinations that contradict themselves are not paths of the program"""
    known = {}
    for it in tr:
        k_ = it.get('k')
        if k_ in ('enter', 'leave'):
            continue
        if k_ == 'branch':
            if it.get('cond_ev') is not None:
                k = (it.get('fn'), it.get('depth', 0), it['cond_ev'], it.get('rcond_ev'), it.get('path'))
            elif re.fullmatch(r'(local|param):\w+(#\d+)?', it.get('path') or ''):
                k = (it.get('fn'), it.get('depth', 0), None, None, it['path'])
            else:
                continue
            v = bool(it.get('val'))
            if k in known and known[k] != v:
                return False
            known[k] = v
            continue
        if it.get('id') is not None and known:
            for k in [k for k in known if k[2] == it['id'] and k[0] == it.get('fn') and k[1] == it.get('depth', 0)]:
                del known[k]          # the event ran again: a new value
        if known and (k_ in ('write', 'decl') or (k_ == 'call' and it.get('args'))):
            ps = [it.get('path'), it.get('var')] + [a.get('path') for a in (it.get('args') or []) if '&' in (a.get('type') or '&')]
            for k in [k for k in known if k[2] is None and any(p and (p == k[4] or p == '&(%s)' % k[4]) for p in ps)]:
                del known[k]
    return True


class Tracer:
    prune_contradictions = True

    """enumerates flattened entry->exit event traces of a function instance; calls to library
    functions accepted by inline_filter are expanded in place (bounded depth, no recursion)."""

    def __init__(self, db, depth=3, maxvisit=2, limit=20000, inline_filter=None, exc_edges=None):
        self.db, self.depth, self.maxvisit, self.limit = db, depth, maxvisit, limit
        self.inline_filter = inline_filter or (lambda caller, ev, callee: True)
        self.exc_edges = exc_edges      # predicate(ev) -> True when the event may throw into its try handler
        self.truncated = False
        self.count = 0
        self.closures_on_stack = False

    def traces(self, f, d=0, env=None, stack=()):
        env = dict(env or {})
        lenv = local_env(f)
        if d > 0:
            ren = {}
            for e in f.events():
                if e.k == 'decl':
                    ren['local:' + e['var']] = 'local:%s#%d' % (e['var'], d)
            lenv = {ren.get(k, k): subst_path(v, ren) for k, v in lenv.items()}
            for k, v in ren.items():
                env.setdefault(k, v)
        full = dict(env)
        for k, v in lenv.items():
            full[k] = subst_path(v, env)
        for _ in range(3):
            for k in list(full):
                full[k] = subst_path(full[k], {kk: vv for kk, vv in full.items() if kk != k and not vv.startswith(kk)})
        out = []
        blocks = f['_blocks']
        frame = (f['key'], full)
        lim = self.limit
        bl = bool_locals(f)
        # blocks that are the failing arm of an assert(): a branch that survives an assertion is no guard (NDEBUG removes it),
        # so it yields no branch item; the failing arm itself is still walked (it ends in abort)
        ab = f.get('_assert_blocks')
        if ab is None:
            ab = {b_['id'] for b_ in f['blocks'] if any(e_.k == 'call' and e_.get('noreturn') and re.search(r'\b__assert(_perror)?_fail\b|\b__assert\b', e_.get('callee') or '') for e_ in b_['ev'][:2])}
            f['_assert_blocks'] = ab

        def walk(bid, cnt, acc):
            if len(out) >= lim:
                self.truncated = True; return
            b = blocks[bid]
            seqs = [acc]
            exc = []     # (handler dispatch block, sequence up to the throwing event)
            for e in b['ev']:
                ee = apply_env(e, full); ee['fn'] = f['key']; ee['fname'] = f['nname']; ee['depth'] = d
                if ee.k == 'decl':
                    ee['var'] = full.get('local:' + e['var'], 'local:' + e['var'])
                elif not e.get('field') and ee.k in ('call', 'read', 'write') and (e.get('recv') or e.get('path') or '').startswith('local:'):
                    fc = f.setdefault('_aliasfield', {})
                    if e['id'] not in fc:
                        fc[e['id']] = efield(f, e)
                    if fc[e['id']] and not fc[e['id']].startswith('?'):
                        ee['field'] = fc[e['id']]        # access through a local reference/pointer alias of a member
                if self.exc_edges and e.get('try') is not None and self.exc_edges(ee):
                    for s in seqs:
                        if not (s and s[-1].k == 'abort'):
                            exc.append((e['try'], s + [Item(k='exception', at=ee, depth=d)]))
                new = []
                exp = self.expand(f, ee, d, stack + (frame,))
                for s in seqs:
                    if s and s[-1].k == 'abort':
                        out.append(s); continue
                    if exp is None:
                        if ee.get('noreturn') or ee.k == 'throw':
                            tb = e.get('try')
                            if ee.k == 'throw' and tb is not None and self.exc_edges:
                                exc.append((tb, s + [ee]))
                            else:
                                new.append(s + [ee, Item(k='abort', why=ee.get('callee') or 'throw', depth=d)])
                        else:
                            new.append(s + [ee])
                    else:
                        for sub in exp:
                            if sub and sub[-1].k == 'abort':
                                new.append(s + [Item(ee, expanded=True), Item(k='enter', ev=ee, depth=d)] + sub)
                            else:
                                new.append(s + [Item(ee, expanded=True), Item(k='enter', ev=ee, depth=d)] + sub + [Item(k='leave', ev=ee, ret=self.retconst(sub), depth=d)])
                seqs = new
                if len(seqs) > lim:
                    self.truncated = True; seqs = seqs[:lim]
            for (tb, s) in exc:
                tbb = blocks.get(tb)
                if tbb is None:
                    continue
                for hs in tbb['succ']:
                    if hs >= 0 and cnt.get(hs, 0) < self.maxvisit:
                        c = dict(cnt); c[hs] = c.get(hs, 0) + 1
                        walk(hs, c, s)
            done = [s for s in seqs if s and s[-1].k == 'abort']
            out.extend(done); seqs = [s for s in seqs if not (s and s[-1].k == 'abort')]
            if not seqs:
                return
            succ = list(b['succ'])
            if bid == f['exit'] or not [s for s in succ if s >= 0]:
                out.extend(seqs); return
            cond = b.get('cond')
            if all(s < 0 or cnt.get(s, 0) >= self.maxvisit for s in succ):
                # a loop without exit edge (for(;;) left only by exception/return inside): keep what was seen as a cut, non-live trace
                out.extend(sq + [Item(k='abort', why='loop bound (no exit edge)', depth=d)] for sq in seqs)
                return
            for i, s in enumerate(succ):
                if s < 0 or cnt.get(s, 0) >= self.maxvisit:
                    continue
                c = dict(cnt); c[s] = c.get(s, 0) + 1
                for sq in seqs:
                    item = []
                    if cond is not None and len(succ) == 2 and s not in ab and succ[1 - i] in ab:
                        item = []
                    elif cond is not None and len(succ) == 2:
                        val = (i == 0)
                        if cond.get('neg'):
                            val = not val
                        cpath = cond.get('path'); cev = cond.get('ev'); oval = val
                        forms = {subst_path(cpath, full): val}       # every spelling the condition goes through while it is rewritten, with its outcome
                        # a branch on a bool local that is defined once is a branch on its initialiser (bool ok = cas(...); if (ok) ...)
                        m2_ = re.fullmatch(r'\(local:(\w+) (==|!=) (false|true|0|1)\)', cpath or '')
                        if m2_ and m2_.group(1) in bl:
                            # if (ok == false) / if (ok != true): the same test with the polarity spelled out
                            cpath = 'local:' + m2_.group(1)
                            if (m2_.group(2) == '==') == (m2_.group(3) in ('false', '0')):
                                val = not val
                        else:
                            # the same spelling on any bool expression: (x == false), (true != x)
                            m3_ = re.fullmatch(r'\((.+) (==|!=) (false|true)\)', cpath or '') or re.fullmatch(r'\((false|true) (==|!=) (.+)\)', cpath or '')
                            if m3_:
                                g_ = m3_.groups()
                                x_, lit_ = (g_[0], g_[2]) if g_[2] in ('false', 'true') and g_[0] not in ('false', 'true') else (g_[2], g_[0])
                                if x_.count('(') == x_.count(')') and not split_logic(x_):
                                    cpath = x_
                                    if (g_[1] == '==') == (lit_ == 'false'):
                                        val = not val
                        for _ in range(3):
                            m_ = re.fullmatch(r'local:(\w+)', cpath or '')
                            if not m_ or m_.group(1) not in bl:
                                break
                            ipath, iev, ineg = bl[m_.group(1)]
                            cpath = ipath; cev = iev if iev is not None else cev
                            if ineg:
                                val = not val
                            forms.setdefault(subst_path(cpath, full), val)
                        forms.setdefault(subst_path(cpath, full), val)
                        br = Item(k='branch', cond_ev=cev, val=val, oval=oval, path=subst_path(cpath, full), opath=cond.get('path'), forms=forms,
                                  fn=f['key'], fname=f['nname'], depth=d, term=cond.get('term'), loc=cond.get('loc'), block=bid)
                        if split_logic(br['path'] or ''):
                            # bool ntf = a || b; ... if (ntf): the operands but the last were branched on where the local was initialised: on this
                            # path the local is a constant or the last operand evaluated
                            # outcomes of this evaluation of the operands only: walk back until an operand shows up a second time (an earlier
                            # loop iteration) or a branch that is not an operand of this expression
                            known = {}
                            leaves = logic_leaves(br['path'])
                            for x in reversed(sq):
                                if x.k == 'branch' and x.get('depth', 0) == d and x.get('fn') in (None, f['key']):
                                    if x.path not in leaves or x.path in known:
                                        break
                                    known[x.path] = bool(x.val)
                            res = eval_logic(br['path'], known)
                            if res is not None and res[0] == 'const':
                                if res[1] != br['val']:
                                    continue      # infeasible: the local has the other value on this path
                            elif res is not None:
                                tgt = next((x for x in reversed(sq) if x.get('depth', 0) == d and x.k in ('call', 'cmp', 'read') and x.get('fn') in (None, f['key']) and ev_form(x) == res[1]), None)
                                if tgt is not None:
                                    br['path'] = res[1]; br['cond_ev'] = tgt.get('id'); cev = tgt.get('id')
                                    if res[2]:
                                        br['val'] = not br['val']
                        lli = next((n_ for n_ in range(len(sq) - 1, -1, -1) if sq[n_].k == 'leave' and sq[n_].get('depth') == d and sq[n_].ev.id == cev), None) if cev is not None else None
                        lastleave = sq[lli] if lli is not None else None
                        if lastleave is not None and lastleave.ret is not None and bool(lastleave.ret) != val and not any(x.k in ('enter',) and x.get('depth') == d and x.ev.id == cev for x in sq[lli + 1:]):
                            continue      # infeasible: the inlined callee returned a constant
                        if lastleave is not None and lastleave.ret is None:
                            # a branch on the result of an expanded helper is a branch on the expression the helper returned on this path
                            k_ = lli
                            rv = next((x for x in reversed(sq[:k_]) if x.k == 'return' and x.get('depth') == d + 1), None)
                            if rv is not None and rv.get('path') and rv.get('ret_ev') is not None:
                                br['path'] = rv['path']; br['rcond_ev'] = rv['ret_ev']; br['rcond_fn'] = rv.get('fn'); br['rcond_depth'] = d + 1
                                # return !x;  the returned event is x (the extractor peels the negation): read the branch as a branch on x
                                while br['path'].startswith('!(') and br['path'].endswith(')') and br['path'].count('(') == br['path'].count(')'):
                                    br['path'] = br['path'][2:-1]; br['val'] = not br['val']
                                # return flag;  with  const bool flag = cas(...)  defined once inside the helper: the branch tests that initialiser
                                m3_ = re.fullmatch(r'local:(\w+)(#\d+)?', br['path'] or '')
                                hf_ = self.db.get(rv.get('fn')) if rv.get('fn') else None
                                if m3_ is None and hf_ is not None:
                                    # (the returned path may already be copy-propagated: look at the returned event itself)
                                    re_ = hf_.ev(rv['ret_ev'])
                                    m3_ = re.fullmatch(r'local:(\w+)(#\d+)?', (re_.get('path') or '')) if (re_ is not None and re_.k == 'use') else None
                                if hf_ is not None and m3_ is not None and m3_.group(1) in bool_locals(hf_):
                                    ipath_, iev_, ineg_ = bool_locals(hf_)[m3_.group(1)]
                                    if iev_ is not None:
                                        br['path'] = ipath_; br['rcond_ev'] = iev_
                                        if ineg_:
                                            br['val'] = not br['val']
                            elif rv is not None and rv.get('path') and split_logic(rv['path']):
                                # return a || b;  on this path the operands but the last were branched on inside the helper: the result is a constant
                                # or the last operand evaluated
                                e_ = next((n_ for n_ in range(k_ - 1, -1, -1) if sq[n_].k == 'enter' and sq[n_].get('depth') == d and sq[n_].ev.id == cev), 0)
                                known = {x.path: bool(x.val) for x in sq[e_:k_] if x.k == 'branch' and x.get('depth') == d + 1}
                                res = eval_logic(rv['path'], known)
                                if res is not None and res[0] == 'const':
                                    if res[1] != val:
                                        continue      # infeasible: the helper returned the other constant on this path
                                elif res is not None:
                                    tgt = next((x for x in reversed(sq[e_:k_]) if x.get('depth') == d + 1 and x.k in ('call', 'cmp', 'read') and ev_form(x) == res[1]), None)
                                    br['path'] = res[1]
                                    if res[2]:
                                        br['val'] = not br['val']
                                    if tgt is not None:
                                        br['rcond_ev'] = tgt.get('id'); br['rcond_fn'] = tgt.get('fn'); br['rcond_depth'] = d + 1
                        item = [br]
                    elif cond is not None and len(succ) > 2:
                        lab = blocks[s].get('label') or {}
                        # switch (classify()): the expanded helper returned a known enumerator on this path -> only the matching label is feasible
                        rvv = switch_value(sq, cond.get('ev'), d)
                        if rvv is not None:
                            labs = [blocks[x].get('label') or {} for x in succ if x >= 0]
                            def matches(l_):
                                return l_.get('kind') == 'case' and ((rvv[0] is not None and l_.get('const') == rvv[0]) or (rvv[1] is not None and l_.get('text') == rvv[1]))
                            if any(matches(l_) for l_ in labs):
                                if not matches(lab):
                                    continue
                            elif lab.get('kind') == 'case' and ((rvv[0] is not None and all(l_.get('const') is not None for l_ in labs if l_.get('kind') == 'case')) or
                                                                (rvv[1] is not None and all((l_.get('text') or '').startswith('decl:') for l_ in labs if l_.get('kind') == 'case'))):
                                continue      # no case label carries the value (a constant / a named enumerator): only default (or the exit) is feasible
                        item = [Item(k='switch', path=subst_path(cond.get('path'), full), label=lab, fn=f['key'], depth=d, loc=cond.get('loc'), block=bid)]
                    walk(s, c, sq + item)

        walk(f['entry'], {f['entry']: 1}, [])
        self.count += len(out)
        if d == 0 and self.prune_contradictions:
            out = [t for t in out if self_consistent(t)]
        return out

    def retconst(self, sub):
        d0 = min((it.get('depth', 0) for it in sub if it.k not in ('enter', 'leave')), default=0)
        for it in reversed(sub):
            if it.k == 'return' and it.depth == d0:
                return it.get('const')
        return None

    def expand(self, caller, ee, d, stack):
        if ee.k not in ('call', 'construct') and not (ee.k == 'dtor' and ee.get('callee_key')):
            return None
        key = ee.get('callee_key')
        if d >= self.depth:
            return None
        if key is None:
            idx = STD_IMMEDIATE.get(norm(ee.callee))
            if idx is None:
                return None
            args = ee.get('args') or []
            if idx < len(args) and (args[idx].get('opath') or args[idx]['path']).startswith('lambda@'):
                lk = (args[idx].get('opath') or args[idx]['path'])[len('lambda@'):]
                out = None
                for lf in self.db.closure_instances(caller, lk):
                    if self.inline_filter(caller, ee, lf):
                        out = (out or []) + self.traces(lf, d + 1, self.lambda_env(lf, stack, []), stack)
                return out
            return None
        if any(fr[0] == key for fr in stack):
            return None
        callee = self.db.resolve(caller, key, ee.get('callee_inst'))
        if callee is None:
            return None
        if ee.k == 'construct' and callee.get('lambda'):
            return None       # copying a closure object (its implicit constructor shares the closure's location) runs no body
        if not self.inline_filter(caller, ee, callee):
            # a closure handed down to an expanded helper and called there (resolve_claimed([&](future *f) { f->set(...); })) is code of the
            # function that defined it: expand it when that function is on the expansion stack and helpers are expanded at all
            if not (self.closures_on_stack and callee.get('lambda') and callee.get('parent_key') and d > 0 and any(fr[0] in (callee['parent_key'], callee.get('encl_key') or callee['parent_key']) for fr in stack)):
                return None
        if callee.get('lambda'):
            env = self.lambda_env(callee, stack, ee.get('args') or [])
        else:
            env = {}
            if ee.get('recv'):
                m_ = re.fullmatch(r'\*\(((?:this|param:\w+|local:\w+|capture:\w+)(?:#\d+)?)\)', ee['recv'])
                env['this'] = m_.group(1) if m_ else ee['recv']      # (*p).f(): the callee's this is p
            elif ee.k == 'construct':
                env['this'] = 'obj@%s' % ee.id
            args = ee.get('args') or []
            for i, p in enumerate(callee['params']):
                if i < len(args):
                    env['param:' + p['name']] = args[i]['path']
        return self.traces(callee, d + 1, env, stack)

    def lambda_env(self, lf, stack, args):
        env = {}
        for fr in reversed(stack):
            if fr[0] == lf.get('parent_key') or (lf.get('encl_key') and fr[0] == lf.get('encl_key')):
                penv = fr[1]
                names = set()
                for e in lf.events():
                    for k in PATHKEYS:
                        v = e.get(k)
                        if isinstance(v, str):
                            names.update(re.findall(r'capture:\w+', v))
                    for a in (e.get('args') or []):
                        names.update(re.findall(r'capture:\w+', a.get('path') or ''))
                for b in lf['blocks']:
                    if b.get('cond') and b['cond'].get('path'):
                        names.update(re.findall(r'capture:\w+', b['cond']['path']))
                pf = self.db.get(fr[0])
                pparams = {p['name'] for p in pf['params']} if pf else set()
                plocals = {e.get('var') for e in pf.events() if e.k == 'decl'} if pf is not None and pf.get('lambda') else None
                for n in names:
                    v = n.split(':')[1]
                    cand = 'param:' + v if v in pparams else 'local:' + v
                    if plocals is not None and v not in pparams and v not in plocals and ('capture:' + v) in penv:
                        cand = 'capture:' + v       # the enclosing closure captured it itself
                    env[n] = penv.get(cand, cand)
                env['this'] = penv.get('this', 'this')
                break
        for i, p in enumerate(lf['params']):
            if i < len(args):
                env['param:' + p['name']] = args[i]['path']
        return env


def rooted(path, obj):
    if not path or not obj:
        return False
    return path == obj or path.startswith(obj + '->') or path.startswith(obj + '.') or path.startswith('*(' + obj + ')') or path.startswith(obj + '[]')


def live(tr):
    return not (tr and tr[-1].k == 'abort')


def evs(tr, maxdepth=99):
    """iterate the primitive events of a trace. An expanded call appears once as its own call event (flag `expanded`),
    followed by the markers enter/leave around the callee's events; the markers are skipped"""
    for it in tr:
        if it.k in ('enter', 'leave'):
            continue
        if it.get('depth', 0) <= maxdepth:
            yield it


def calls(tr, maxdepth=99):
    for it in evs(tr, maxdepth):
        if it.k in ('call', 'construct'):
            yield it


def is_call(ev, *names):
    return ev.k in ('call', 'construct') and norm(ev.get('callee')) in names


def fmt(it):
    if it.k == 'branch':
        return 'branch[%s]=%s @%s' % (it.path, it.val, relloc(it.get('loc')))
    if it.k == 'switch':
        return 'switch[%s] -> %s' % (it.path, (it.label or {}).get('text') or (it.label or {}).get('kind'))
    if it.k in ('enter', 'leave'):
        return '%s %s' % (it.k, norm(it.ev.callee))
    if it.k == 'abort':
        return 'abort(%s)' % it.why
    if it.k == 'exception':
        return 'exception-edge at %s' % relloc(it.at.get('loc'))
    d = {k: v for k, v in it.items() if k in ('k', 'callee', 'recv', 'path', 'rhs', 'const', 'var', 'type', 'op') and v is not None}
    if 'callee' in d:
        d['callee'] = norm(d['callee'])
    return '%s %s' % (relloc(it.get('loc')), json.dumps(d)[:200])


def fmt_trace(tr, keep=None, limit=60):
    out = []
    for it in tr:
        if keep is None or keep(it):
            out.append(fmt(it))
    if len(out) > limit:
        out = out[:limit // 2] + ['...'] + out[-limit // 2:]
    return out


def find_ev(tr, i, evid, fn, depth):
    """the event (by id, in the same frame) preceding position i of a trace"""
    for j in range(i - 1, -1, -1):
        it = tr[j]
        ev = it.ev if it.k in ('enter', 'leave') else it
        if ev.get('id') == evid and ev.get('fn') == fn and ev.get('depth') == depth:
            return ev
    return None


def cond_event(tr, i):
    br = tr[i]
    if br.k != 'branch' or br.cond_ev is None:
        return None
    if br.get('rcond_ev') is not None:
        r = find_ev(tr, i, br['rcond_ev'], br['rcond_fn'], br['rcond_depth'])
        if r is not None:
            return r
    return find_ev(tr, i, br.cond_ev, br.fn, br.depth)


def tests(br, ev):
    """does branch item `br` test the result of event `ev` (directly, or through an expanded helper that returned it)?"""
    if br.k != 'branch' or ev is None:
        return False
    if ev.get('fn') is None:        # an event taken from the function body, not from a trace: the analysed function's own frame
        return br.cond_ev is not None and br.cond_ev == ev.get('id') and not br.get('depth')
    if br.cond_ev is not None and br.cond_ev == ev.get('id') and br.get('fn') == ev.get('fn') and br.get('depth') == ev.get('depth'):
        return True
    return br.get('rcond_ev') is not None and br['rcond_ev'] == ev.get('id') and br['rcond_fn'] == ev.get('fn') and br['rcond_depth'] == ev.get('depth')


# ---------------------------------------------------------------- simple per-function queries

def reach_blocks(f, start=None):
    start = f['entry'] if start is None else start
    seen = set(); work = [start]
    while work:
        b = work.pop()
        if b in seen or b < 0:
            continue
        seen.add(b)
        work.extend(f['_blocks'][b]['succ'])
    return seen


def has_back_edge(f):
    """True when the CFG reachable from entry has a cycle"""
    color = {}
    blocks = f['_blocks']

    def dfs(b):
        color[b] = 1
        for s in blocks[b]['succ']:
            if s < 0:
                continue
            if color.get(s) == 1:
                return True
            if s not in color and dfs(s):
                return True
        color[b] = 2
        return False
    return dfs(f['entry'])


def _lc(loc):
    p = (loc or '').rsplit(':', 2)
    try:
        return int(p[1]), int(p[2])
    except (IndexError, ValueError):
        return None


def var_def(f, var, at=None):
    """the unique defining event of local `var` ('x' or 'local:x'): decl with initialiser and no later write.  Several locals may share a
    name (nested scopes, the compiler's __range/__begin variables of sibling range-for loops): `at` (a source location) selects the
    declaration on the same line, else the nearest one above"""
    var = var.split(':', 1)[1] if var.startswith('local:') else var
    var = var.split('#')[0]
    decls = []; writes = 0
    for e in f.events():
        if e.k == 'decl' and e.get('var') == var:
            decls.append(e)
        if e.k == 'write' and e.get('path') == 'local:' + var:
            writes += 1
    if not decls or writes:
        return None
    if len(decls) > 1 and at is not None and _lc(at):
        l0, c0 = _lc(at)
        same = [d for d in decls if _lc(d.get('loc')) and _lc(d['loc'])[0] == l0]
        if same:
            return min(same, key=lambda d: abs(_lc(d['loc'])[1] - c0))
        above = [d for d in decls if _lc(d.get('loc')) and _lc(d['loc'])[0] < l0]
        if above:
            return max(above, key=lambda d: _lc(d['loc']))
    return decls[-1]


def value_origin(f, ev_or_path, depth=6):
    """follow a value back through single-definition locals, copies/moves and std::move/forward;
    returns the producing event (call / construct / new / read of a non-local / decl) or None"""
    if depth == 0 or ev_or_path is None:
        return None
    if isinstance(ev_or_path, str):
        m = re.fullmatch(r'local:(\w+)(?:#\d+)?', ev_or_path)
        if not m:
            return None
        d = var_def(f, m.group(1))
        if d is None:
            return None
        if d.get('init_ev') is not None and f.ev(d['init_ev']) is not None:
            return value_origin(f, f.ev(d['init_ev']), depth - 1)
        if d.get('init') and re.fullmatch(r'local:\w+', d['init']):
            return value_origin(f, d['init'], depth - 1)
        return d
    e = ev_or_path
    if e.k == 'use':
        return value_origin(f, e.get('path'), depth - 1) or e
    if e.k == 'read':
        if re.fullmatch(r'local:\w+', e.get('path') or ''):
            return value_origin(f, e.get('path'), depth - 1) or e
        return e
    if e.k == 'construct' and e.get('copy_or_move') and e.get('args'):
        a = e['args'][0]
        if a.get('ev') is not None and f.ev(a['ev']) is not None:
            return value_origin(f, f.ev(a['ev']), depth - 1)
        return value_origin(f, a.get('path'), depth - 1) or e
    if e.k == 'call' and e.get('recv') and re.search(r'::operator [A-Za-z_]', norm(e.get('callee'))) and not norm(e.get('callee')).endswith(('operator bool',)):
        # a conversion operator: the value is (a view of) its object
        if e.get('recv_ev') is not None and f.ev(e['recv_ev']) is not None:
            return value_origin(f, f.ev(e['recv_ev']), depth - 1) or e
        return value_origin(f, e.get('recv'), depth - 1) or e
    if e.k == 'call' and norm(e.get('callee')) in ('std::move', 'std::forward', 'std::exchange') and e.get('args'):
        a = e['args'][0]
        if a.get('ev') is not None and f.ev(a['ev']) is not None:
            return value_origin(f, f.ev(a['ev']), depth - 1)
        return value_origin(f, a.get('path'), depth - 1) or e
    return e


def efield(f, e, which='field'):
    """declaration of the member an event touches; resolves accesses made through a local reference/pointer alias
    (auto &q = obj->_queue; q.push_back(..)) to the member the alias was bound to"""
    v = e.get(which)
    if v:
        return norm(v)
    p = e.get('orecv') or e.get('opath') or e.get('recv') or e.get('path') or ''
    m = re.match(r'local:(\w+)', p)
    if not m:
        return ''
    d = var_def(f, m.group(1), e.get('loc'))
    if d is None or not (d.get('ref') or d.get('ptr')):
        return ''
    if d.get('init_field'):
        return norm(d['init_field'])
    ie = f.ev(d.get('init_ev')) if d.get('init_ev') is not None else None
    if ie is not None and ie.get(which):
        return norm(ie.get(which))
    # reference bound directly to a member expression: look for the member read/& that feeds the initialiser
    ini = d.get('init') or ''
    for x in f.events():
        if x.get('id', 1 << 30) < d.get('id', -1) and (x.get('path') == ini or x.get('recv') == ini) and x.get(which):
            return norm(x.get(which))
    mm = re.search(r'(?:->|\.)(\w+)$', ini)
    if mm:
        return '?::' + mm.group(1)
    return ''
