# LOCKSET rule kind: forward must-analysis of held mutexes per function, with interprocedural
# summaries needs(F) (guarded state touched / callees needing the lock while F itself does not
# hold it) and acquires(F) (mutexes F or its callees lock).  DESIGN 3.2 / C03.R3, C09-C12, C16.
import re, collections
from .core import norm, relloc, Broken, STD_IMMEDIATE

LOCKT = re.compile(r'\b(lock_guard|unique_lock|scoped_lock)\b')
ANY = '*'      # a unique_lock& parameter: "the caller's lock", whichever mutex it is


def nfield(x):
    return norm(x or '')


def gfield(f, e):
    """field an event touches, including accesses made through a local reference alias of a member (range-for over a member, auto &q = _queue)"""
    v = e.get('field')
    if v:
        return norm(v)
    if e.k in ('read', 'write', 'call') and (e.get('recv') or e.get('path') or '').startswith('local:'):
        from .core import efield
        c = f.setdefault('_aliasfield', {})
        if e['id'] not in c:
            c[e['id']] = efield(f, e)
        r = c[e['id']]
        return r if r and not r.startswith('?') else ''
    return ''


class LockAnalysis:
    def __init__(self, db, guarded):
        """guarded: {normalised field decl: normalised mutex field decl}"""
        self.db = db
        self.guarded = guarded
        self.mutexes = set(guarded.values())
        self._held = {}          # (key, inst) -> {event id: frozenset(tokens)}
        self._needs = {}         # (key, inst) -> {mutex: (site loc, text, chain)}
        self._acq = {}
        self._callers = None
        self._stack = set()

    # -------------------------------------------------------- intraprocedural must-lockset
    def held_map(self, f):
        k = (f['key'], f['inst'])
        r = self._held.get(k)
        if r is not None:
            return r
        blocks = f['_blocks']
        lockvars = {}          # var name -> mutex token
        for e in f.events():
            if e.k == 'decl' and LOCKT.search(e.get('type') or '') and not e.get('ref'):
                tok = ANY
                ie = f.ev(e.get('init_ev')) if e.get('init_ev') is not None else None
                deferred = False
                if ie is not None and ie.k == 'construct':
                    a = ie.get('args') or []
                    if a:
                        tok = nfield(a[0].get('field')) or ANY
                    if len(a) > 1 and re.search(r'defer_lock|try_to_lock|adopt_lock', (a[1].get('type') or '') + (a[1].get('path') or '')):
                        deferred = 'defer_lock' in ((a[1].get('type') or '') + (a[1].get('path') or '')) or 'try_to_lock' in ((a[1].get('type') or '') + (a[1].get('path') or ''))
                lockvars[e['var']] = (tok, deferred)
        entry = set()
        for p in f['params']:
            if 'unique_lock' in p['type'] and '&' in p['type']:
                entry.add(('param:' + p['name'], ANY))
        IN = {f['entry']: frozenset(entry)}
        work = [f['entry']]
        held_at = {}
        iters = 0
        while work:
            iters += 1
            if iters > 20000:
                raise Broken('lockset dataflow did not converge in %s' % f['nname'])
            b = work.pop()
            st = set(IN[b])
            for e in blocks[b]['ev']:
                if 'id' in e:
                    held_at[e['id']] = frozenset(t for (_, t) in st)
                if e.k == 'decl' and e.get('var') in lockvars and LOCKT.search(e.get('type') or '') and not e.get('ref'):
                    tok, deferred = lockvars[e['var']]
                    if not deferred:
                        st.add(('local:' + e['var'], tok))
                elif e.k == 'dtor' and e.get('var') in lockvars:
                    st = {x for x in st if x[0] != 'local:' + e['var']}
                elif e.k == 'call':
                    c = norm(e.get('callee'))
                    r = e.get('recv') or ''
                    if c in ('std::unique_lock::unlock',):
                        st = {x for x in st if x[0] != r}
                    elif c in ('std::unique_lock::lock',):
                        v = r.split(':', 1)[1] if r.startswith('local:') else None
                        tok = lockvars.get(v, (ANY, False))[0] if v else ANY
                        st.add((r, tok))
                    elif c in ('std::mutex::lock', 'std::recursive_mutex::lock', 'cocls::primitives::no_lock::lock') and e.get('field'):
                        st.add(('direct:' + nfield(e['field']), nfield(e['field'])))
                    elif c in ('std::mutex::unlock', 'std::recursive_mutex::unlock', 'cocls::primitives::no_lock::unlock') and e.get('field'):
                        st = {x for x in st if x[0] != 'direct:' + nfield(e['field'])}
            out = frozenset(st)
            for s in blocks[b]['succ']:
                if s < 0:
                    continue
                if s not in IN:
                    IN[s] = out; work.append(s)
                else:
                    n = IN[s] & out
                    if n != IN[s]:
                        IN[s] = n; work.append(s)
        # handlers of try blocks are not reachable through normal edges: analyse them with the
        # lockset held at the try's dispatch point approximated by the intersection over the try body
        for b in f['blocks']:
            if b['id'] not in IN and (b.get('label') or {}).get('kind') == 'catch':
                body_sets = [held_at[e['id']] for e in f.events() if e.get('try') is not None and e['id'] in held_at]
                base = frozenset.intersection(*body_sets) if body_sets else frozenset()
                st0 = frozenset((('try', t) for t in base))
                IN[b['id']] = st0
                work = [b['id']]
                while work:
                    bb = work.pop()
                    st = set(IN[bb])
                    for e in blocks[bb]['ev']:
                        if 'id' in e:
                            held_at[e['id']] = frozenset(t for (_, t) in st)
                        if e.k == 'dtor' and e.get('var') in lockvars:
                            st = {x for x in st if x[0] != 'local:' + e['var']}
                    for s in blocks[bb]['succ']:
                        if s >= 0 and s not in IN:
                            IN[s] = frozenset(st); work.append(s)
        self._held[k] = held_at
        return held_at

    def is_held(self, held, mutex):
        return mutex in held or ANY in held

    # -------------------------------------------------------- call edges
    def callees(self, f, e):
        """library function instances invoked by event e (direct, or a lambda handed to an immediate std entry point)"""
        out = []
        if e.k in ('call', 'construct'):
            k = e.get('callee_key')
            if k:
                c = self.db.resolve(f, k, e.get('callee_inst'))
                if c is not None:
                    out.append(c)
            else:
                idx = STD_IMMEDIATE.get(norm(e.get('callee')))
                if idx is not None:
                    for a in (e.get('args') or []):
                        p = a.get('path') or ''
                        if p.startswith('lambda@'):
                            out.extend(self.db.closure_instances(f, p[len('lambda@'):]))
        return out

    def exempt(self, f, field):
        """constructors / destructors have exclusive access to their own object's fields"""
        if f.get('kind') in ('ctor', 'dtor') and not f.get('lambda'):
            cls = norm(f.get('class'))
            owner = field.rsplit('::', 1)[0]
            if cls == owner or self._derives(cls, owner):
                return True
        return False

    def _derives(self, cls, base):
        for c in self.db.class_insts(cls):
            for b in c.get('bases', []):
                bn = norm(b.replace('class ', '').replace('struct ', ''))
                if bn == base or base.endswith('::' + bn) or self._derives(bn if '::' in bn else 'cocls::' + bn, base):
                    return True
            break
        return False

    # -------------------------------------------------------- needs(F): mutexes that must be held on entry
    def needs(self, f):
        k = (f['key'], f['inst'])
        r = self._needs.get(k)
        if r is not None:
            return r
        if k in self._stack:
            return {}
        self._stack.add(k)
        held = self.held_map(f)
        out = {}
        # a function that receives the caller's lock (unique_lock&) and touches guarded state after it has released that lock itself:
        # no caller can discharge this need, it is recorded under '!mutex' and propagated unconditionally
        has_param_lock = any('unique_lock' in p['type'] and '&' in p['type'] for p in f['params'])
        for e in f.events():
            h = held.get(e.get('id'), frozenset())
            if e.k in ('read', 'write', 'call', 'delete'):
                fld = gfield(f, e)
                m = self.guarded.get(fld)
                if m and not e.get('init') and not self.is_held(h, m) and not self.exempt(f, fld):
                    if not (e.k == 'call' and self._is_lock_ctor_arg(e)):
                        key = ('!' + m) if has_param_lock else m
                        out.setdefault(key, (e.get('loc'), '%s of %s' % ('call ' + norm(e.get('callee')) if e.k == 'call' else e.k, fld) + (' after the caller\'s lock was released' if has_param_lock else ''), [f['nname']]))
            if e.k == 'call':
                # a guarded member handed to a function (std::swap(q, _queue), std::exchange(_flag, x), f(_queue)) is accessed by that call
                for a_ in e.get('args') or []:
                    fa_ = norm(a_.get('field') or '')
                    m = self.guarded.get(fa_)
                    if m and not self.is_held(h, m) and not self.exempt(f, fa_):
                        key = ('!' + m) if has_param_lock else m
                        out.setdefault(key, (e.get('loc'), 'call %s on %s' % (norm(e.get('callee')), fa_) + (' after the caller\'s lock was released' if has_param_lock else ''), [f['nname']]))
            for c in self.callees(f, e):
                for m, (loc, text, chain) in self.needs(c).items():
                    if m.startswith('!'):
                        out.setdefault(m, (loc, text, [f['nname']] + chain))
                    elif not self.is_held(h, m) and not self.exempt(f, m):
                        out.setdefault(('!' + m) if has_param_lock else m, (loc, text, [f['nname']] + chain))
        self._stack.discard(k)
        self._needs[k] = out
        return out

    def _is_lock_ctor_arg(self, e):
        return False

    # -------------------------------------------------------- acquires(F)
    def acquires(self, f, depth=0):
        k = (f['key'], f['inst'])
        r = self._acq.get(k)
        if r is not None:
            return r
        if k in self._stack or depth > 8:
            return {}
        self._stack.add(k)
        out = {}
        for e in f.events():
            if e.k == 'construct' and LOCKT.search(e.get('callee') or ''):
                a = e.get('args') or []
                tok = nfield(a[0].get('field')) if a else ''
                if tok and not (len(a) > 1 and 'defer_lock' in ((a[1].get('type') or '') + (a[1].get('path') or ''))):
                    out.setdefault(tok, (e.get('loc'), [f['nname']]))
            if e.k == 'call' and norm(e.get('callee')) in ('std::mutex::lock',) and e.get('field'):
                out.setdefault(nfield(e['field']), (e.get('loc'), [f['nname']]))
            for c in self.callees(f, e):
                for m, (loc, chain) in self.acquires(c, depth + 1).items():
                    out.setdefault(m, (loc, [f['nname']] + chain))
        self._stack.discard(k)
        self._acq[k] = out
        return out

    def callers(self):
        if self._callers is None:
            self._callers = collections.Counter()
            for f in self.db.all_instances():
                for e in f.events():
                    for c in self.callees(f, e):
                        self._callers[c['key']] += 1
        return self._callers

    def is_entry(self, f):
        if f.get('kind') in ('ctor', 'dtor') and not f.get('lambda'):
            return True
        if not f.get('lambda') and f.get('access') == 0:
            return True
        return self.callers()[f['key']] == 0


def check_guarded(ctx, db, rid, guarded, classes, per_instance=False, floor=1):
    """every access to a guarded field happens with its mutex held, on every path from every entry point"""
    ctx.rule(rid, 'LOCKSET', 'every read/write/member call of a field in the guarded-field table happens while the object\'s mutex is held: locally, or in '
             'every caller (summary needs(F)); constructors and destructors are exempt for their own fields [table: %s]' % ', '.join(sorted(k.split('::', 1)[-1] for k in guarded)), floor=floor)
    la = LockAnalysis(db, guarded)
    nacc = 0
    for key in db.keys():
        insts = db.instances(key)
        f0 = insts[0]
        if not _in_classes(db, f0, classes):
            continue
        for f in (insts if per_instance else insts[:1]):
            held = la.held_map(f)
            # obligations: one per guarded access site
            for e in f.events():
                fld = gfield(f, e)
                if e.k in ('read', 'write', 'call', 'delete') and fld in guarded and not e.get('init'):
                    nacc += 1
            if not la.is_entry(f):
                continue
            nd = la.needs(f)
            for m, (loc, text, chain) in nd.items():
                ctx.ob(rid, f, loc, False, '%s without holding %s (reached from entry point %s)' % (text, m.lstrip('!').split('::')[-1], f['nname']),
                       detail={'call_chain': chain}, desc='unlocked %s via %s' % (text, chain[-1]))
            if not nd:
                acc = [e for e in f.events() if gfield(f, e) in guarded and e.k in ('read', 'write', 'call')]
                ctx.ob(rid, f, (acc[0]['loc'] if acc else f['key']), True, 'entry point %s reaches guarded state only under the lock' % f['nname'])
    ctx.cover.setdefault('guarded_access_sites', 0)
    ctx.cover['guarded_access_sites'] = max(ctx.cover['guarded_access_sites'], nacc)
    return la


def _in_classes(db, f, classes):
    g = f
    while g is not None and g.get('lambda') and g.get('parent_key'):
        g = db.get(g['parent_key'])
    c = norm((g or {}).get('class') or '')
    n = norm((g or {}).get('name') or '')
    return any(c == gc or c.startswith(gc + '::') or n.startswith(gc + '::') for gc in classes)


def check_no_relock(ctx, db, rid, la, classes, floor=1):
    """no call, while mutex M is held, into a function that (transitively) locks M again"""
    ctx.rule(rid, 'LOCKSET', 'while a std::mutex is held no call is made to a library function whose summary acquires the same mutex (std::mutex is not recursive)', floor=floor)
    for key in db.keys():
        f = db.rep(key)
        if not _in_classes(db, f, classes):
            continue
        held = la.held_map(f)
        for e in f.events():
            h = held.get(e.get('id'), frozenset())
            hm = {m for m in h if m != ANY}
            if not hm:
                continue
            for c in la.callees(f, e):
                acq = la.acquires(c)
                both = hm & set(acq)
                what = 'call of %s while holding %s does not lock it again' % (c['nname'], ','.join(sorted(x.split('::')[-1] for x in hm)))
                if both:
                    m = sorted(both)[0]
                    ctx.ob(rid, f, e['loc'], False, what, detail={'relocked_at': relloc(acq[m][0]), 'chain': acq[m][1]}, desc='relock %s via %s' % (m, c['nname']))
                else:
                    ctx.ob(rid, f, e['loc'], True, what)
