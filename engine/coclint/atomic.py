# ATOMIC rule kind: every atomic operation in the library is classified by role and must meet the
# role's minimum memory order (DESIGN 4/C03.R1).  Orders form the lattice
# relaxed < {acquire, release} < acq_rel < seq_cst, so strengthening an order never fires.
import re
from .core import norm, relloc, Broken

MO = {0: 'relaxed', 1: 'consume', 2: 'acquire', 3: 'release', 4: 'acq_rel', 5: 'seq_cst'}


def rel(o):
    return o in (3, 4, 5)


def acq(o):
    return o in (2, 4, 5)


def is_atomic_call(e):
    if e.k != 'call':
        return False
    c = e.get('callee') or ''
    return c.startswith('std::atomic') or c.startswith('std::__atomic')


def opname(e):
    op = norm(e.get('callee')).split('::')[-1]
    if op.startswith('operator ') and op not in ('operator bool',):
        return 'conv'          # implicit conversion = seq_cst load
    if op == 'operator bool':
        return 'conv'
    return op


def orders(e):
    return [a.get('const') for a in e.get('args', []) if 'memory_order' in (a.get('type') or '') and a.get('const') is not None]


def success_order(e):
    o = orders(e)
    return o[0] if o else 5       # operator=, conversions, notify: sequentially consistent / no order


def failure_order(e):
    """order of a failed compare-exchange: explicit second order, else derived from the single one"""
    o = orders(e)
    if len(o) >= 2:
        return o[1]
    s = o[0] if o else 5
    return {4: 2, 3: 0}.get(s, s)      # acq_rel -> acquire, release -> relaxed


def objname(e):
    """the atomic object: declaration of the member, or the parameter / variable it is reached through"""
    # the atomic object is the innermost member of the access path (guard._owner._block.store(): the object is _block, not the guard's reference to its owner)
    f = norm(e.get('lfield') or e.get('field') or '')
    if f:
        return f
    r = e.get('recv') or ''
    if r.startswith('param:') and ('awaiter' in (e.get('recv_type') or '')):
        return 'param:chain'          # any parameter of type awaiter_collector& : the chain handed in by the caller
    return r


# role table: (function pattern, operation, object) -> (role, reason)
# roles: publish (>= release), consume (>= acquire), pubcons (acq_rel / seq_cst), any
ROLES = {
    ('cocls::awaiter::subscribe', 'compare_exchange_weak', 'param:chain'): ('publish', 'makes the awaiter (its _next, handle, resume fn) visible to whoever detaches the chain'),
    ('cocls::awaiter::subscribe', 'load', 'param:chain'): ('any', 'initial guess of the chain top; re-validated by the CAS'),
    ('cocls::awaiter::subscribe_check_ready', 'compare_exchange_weak', 'param:chain'): ('publish', 'makes the awaiter visible to the resolver'),
    ('cocls::awaiter::subscribe_check_ready', 'atomic_thread_fence', ''): ('consume', 'the refused subscriber goes on to read the result'),
    ('cocls::awaiter::resume_chain', 'exchange', 'param:chain'): ('consume', 'the walker reads the awaiters\' fields written before their publishing CAS'),
    ('cocls::awaiter::resume_chain_set_ready', 'exchange', 'param:chain'): ('pubcons', 'releases the payload written by future::set to ready()-pollers and refused subscribers AND acquires the awaiters\' fields'),
    ('cocls::future_common::initialized', 'load', 'cocls::future_common::_awaiter'): ('any', 'state query, justifies no plain read'),
    ('cocls::future_common::pending', 'load', 'cocls::future_common::_awaiter'): ('any', 'state query, justifies no plain read'),
    ('cocls::future_common::ready', 'load', 'cocls::future_common::_awaiter'): ('consume', 'a poller that sees ready goes on to read the value'),
    ('cocls::future::get_promise', 'exchange', 'cocls::future_common::_awaiter'): ('any', 'single-threaded initialisation before the promise exists'),
    ('cocls::future_with_cb::future_with_cb', 'operator=', 'cocls::future_common::_awaiter'): ('any', 'constructor, object not shared yet'),
    ('cocls::async::co_awaiter::await_ready', 'load', 'cocls::future_common::_awaiter'): ('any', 'private future of the awaiting coroutine, same thread'),
    ('cocls::async::co_awaiter::await_suspend', 'store', 'cocls::future_common::_awaiter'): ('any', 'single-threaded wiring before the callee is started'),
    ('cocls::promise::claim', 'exchange', 'cocls::promise::_owner'): ('any', 'election only: the promise object itself reaches the resolver through external synchronisation'),
    ('cocls::promise::~promise', 'load', 'cocls::promise::_owner'): ('any', 'destructor has exclusive access'),
    ('cocls::promise::operator=', 'operator=', 'cocls::promise::_owner'): ('any', 'assignment target is exclusively owned'),
    ('cocls::promise::operator bool', 'conv', 'cocls::promise::_owner'): ('any', 'state query'),
    ('cocls::promise::operator!', 'conv', 'cocls::promise::_owner'): ('any', 'state query'),
    ('cocls::promise::get_id', 'conv', 'cocls::promise::_owner'): ('any', 'identity query'),
    ('cocls::promise::promise', 'atomic', 'cocls::promise::_owner'): ('any', 'constructor'),
    ('cocls::mutex::unlock', 'load', 'cocls::mutex::_requests'): ('any', 'assertion only'),
    ('cocls::mutex::unlock', 'compare_exchange_strong', 'cocls::mutex::_requests'): ('publish', 'releases the critical section to the next thread that acquires the mutex'),
    ('cocls::mutex::ready', 'compare_exchange_strong', 'cocls::mutex::_requests'): ('consume', 'try_lock success acquires the critical section'),
    ('cocls::mutex::build_queue', 'exchange', 'cocls::mutex::_requests'): ('consume', 'reads the _next links of the detached requests; also the acquire of a lock taken through subscribe'),
    ('cocls::mutex::~mutex', 'conv', 'cocls::mutex::_requests'): ('any', 'assertion in the destructor'),
    ('cocls::sync_awaiter::wakeup', 'store', 'cocls::sync_awaiter::flag'): ('publish', 'the woken thread reads the result'),
    ('cocls::sync_awaiter::wakeup', 'notify_all', 'cocls::sync_awaiter::flag'): ('any', 'notification, no ordering role'),
    ('cocls::sync_awaiter::wait_sync', 'wait', 'cocls::sync_awaiter::flag'): ('consume', 'the waiter reads the result afterwards'),
    ('cocls::co_awaiter::sync', 'wait', 'cocls::sync_awaiter::flag'): ('consume', 'the waiter reads the result afterwards'),
    ('cocls::co_awaiter::force_sync', 'wait', 'cocls::sync_awaiter::flag'): ('consume', 'the waiter reads the result afterwards'),
    ('cocls::generator::promise_type::unblock_sync', 'store', 'cocls::generator::promise_type::_block'): ('publish', 'the blocked consumer reads the yielded value'),
    ('cocls::generator::promise_type::unblock_sync', 'notify_all', 'cocls::generator::promise_type::_block'): ('any', 'notification'),
    ('cocls::generator::promise_type::next_sync', 'store', 'cocls::generator::promise_type::_block'): ('any', 'reset before the generator is resumed by this thread'),
    ('cocls::generator::promise_type::next_sync', 'wait', 'cocls::generator::promise_type::_block'): ('consume', 'the consumer reads the yielded value afterwards'),
    ('cocls::reusable_storage_mtsafe::alloc', 'exchange', 'cocls::reusable_storage_mtsafe::_busy'): ('consume', 'the new user of the block must see the previous user done with it'),
    ('cocls::reusable_storage_mtsafe::dealloc', 'store', 'cocls::reusable_storage_mtsafe::_busy'): ('publish', 'hands the block to the next user'),
}

# objects whose every operation is an election / state query: any operation, any order, in any function
ANY_OBJECTS = {
    'cocls::promise::_owner': 'election of the single resolver only; the promise object itself reaches its user through external synchronisation, and the '
                              'payload is published by the future\'s slot, not by this pointer',
}

ROLE_NEED = {'publish': 'needs at least release', 'consume': 'needs at least acquire', 'pubcons': 'needs acq_rel or seq_cst', 'any': ''}


def role_ok(role, e):
    s = success_order(e)
    if role == 'publish':
        return rel(s)
    if role == 'consume':
        return acq(s)
    if role == 'pubcons':
        return rel(s) and acq(s)
    return True


def _callers_of_instance(db, inst):
    """callers of one instantiation of a template helper (a helper that takes the memory order as a template argument has one caller per order)"""
    import collections
    idx = db.__dict__.get('_inst_callers_idx')
    if idx is None:
        idx = collections.defaultdict(set)
        for f in db.all_instances():
            for e in f.events():
                if e.k in ('call', 'construct') and e.get('callee_key') and e.get('callee_inst'):
                    idx[e['callee_inst']].add(f['nname'])
        db.__dict__['_inst_callers_idx'] = idx
    return idx.get(inst, set())


def role_from_callers(db, key, depth=3, _seen=None, inst=None):
    """an operation found in a function the table does not know: when that function is a helper whose callers (transitively) are all
    tabled for the same operation on the same object with one and the same role, the operation inherits that role"""
    from .rules import callers_of
    fn, op, obj = key
    _seen = _seen or set()
    if fn in _seen or depth < 0:
        return None
    _seen.add(fn)
    cs = (_callers_of_instance(db, inst) if inst else None) or callers_of(db, fn)
    if not cs:
        return None
    roles = set()
    for c in cs:
        ent = ROLES.get((c, op, obj))
        if ent is None and op.startswith('compare_exchange'):
            ent = ROLES.get((c, 'compare_exchange_weak' if op.endswith('strong') else 'compare_exchange_strong', obj))
        if ent is None:
            ent = role_from_callers(db, (c, op, obj), depth - 1, _seen)
        if ent is None:
            return None
        roles.add(ent[0])
    if len(roles) == 1:
        r = roles.pop()
        return (r, 'inherited from the tabled callers of helper %s' % fn)
    return None


def sites(db, only_functions=None, only_objects=None):
    """all atomic operation sites in library bodies: yields (fn, event)"""
    from .rules import only_reached_from
    for f in db.all_instances():
        if only_functions is not None and f['nname'] not in only_functions and not only_reached_from(db, f['nname'], set(only_functions)):
            # a template helper: this instantiation may be reached only from the named functions although another instantiation is not
            ic = _callers_of_instance(db, f.get('inst')) if f.get('inst') else set()
            if not ic or not all(c in only_functions for c in ic):
                continue
        for e in f.events():
            if is_atomic_call(e):
                if opname(e) == 'atomic':
                    continue      # construction of the atomic itself
                if only_objects is not None and objname(e) not in only_objects:
                    continue
                yield f, e


def check_roles(ctx, db, rid, only_functions=None, only_objects=None, floor=1):
    ctx.rule(rid, 'ATOMIC', 'every atomic operation is classified by role (publish >= release, consume >= acquire, publish+consume = acq_rel/seq_cst, '
             'election/query/init = any) and meets the role\'s minimum order [scope: %s]' % ('every atomic operation of the library' if only_functions is None and only_objects is None else
             ', '.join(sorted(x.split('::', 1)[-1] for x in (only_functions or only_objects)))), floor=floor)
    unclassified = []
    for f, e in sites(db, only_functions, only_objects):
        key = (f['nname'], opname(e), objname(e))
        ent = ROLES.get(key)
        if ent is None:
            ent = role_from_callers(db, key, inst=f.get('inst'))
        if ent is None and key[2] in ANY_OBJECTS:
            ent = ('any', ANY_OBJECTS[key[2]])
        if ent is None and (rel(success_order(e)) and acq(success_order(e))):
            # an operation the table does not know, but with an order (acq_rel / seq_cst) that satisfies every role
            ent = ('pubcons', 'not in the role table; its order satisfies the strictest role')
        if ent is None and key[1] in ('store', 'operator=') and rel(success_order(e)):
            ent = ('publish', 'not in the role table; a store can at most publish, and it releases')
        if ent is None and key[1] in ('load', 'wait') and acq(success_order(e)):
            ent = ('consume', 'not in the role table; a load can at most consume, and it acquires')
        if ent is None:
            # an operation moved into a function the table does not know (and whose callers do not decide it): judge it by the strictest
            # role the table gives this operation on this object anywhere
            cx = lambda o_: 'compare_exchange' if o_.startswith('compare_exchange') else o_       # weak and strong forms play the same role
            rs = [v[0] for k_, v in ROLES.items() if cx(k_[1]) == cx(key[1]) and k_[2] == key[2] and key[2]]
            if rs:
                strict = max(rs, key=lambda r_: {'any': 0, 'publish': 1, 'consume': 1, 'pubcons': 2}[r_])
                if len({r_ for r_ in rs if r_ != 'any'}) <= 1:
                    ent = (strict, 'not in the role table for this function; the strictest role of this operation on this object elsewhere')
        if ent is None:
            unclassified.append('%s %s on %s at %s' % key[:3] + (relloc(e['loc']),) if False else '%s: %s on %s at %s' % (key[0], key[1], key[2], relloc(e['loc'])))
            continue
        role, why = ent
        got = '/'.join(MO.get(o, str(o)) for o in orders(e)) or 'seq_cst(default)'
        ctx.ob(rid, f, e['loc'], role_ok(role, e), '%s on %s has role %s (%s): %s' % (key[1], key[2].split('::')[-1], role, why, ROLE_NEED[role] or 'any order'),
               detail={'order': got, 'role': role}, desc='%s %s role=%s' % (key[1], key[2], role))
    if unclassified:
        raise Broken('unclassified atomic operation(s), the role table cannot decide them: ' + '; '.join(sorted(set(unclassified))[:6]))
