# obligations / violations bookkeeping, evidence and replay files, known-findings handling
import json, os, time, sys, collections
from .core import relloc, norm, Broken

VERIF = os.path.dirname(os.path.dirname(os.path.dirname(os.path.abspath(__file__))))


class DuplicateRule(Exception):
    pass


class Ctx:
    def __init__(self, pid, tier, seed=0):
        self.pid, self.tier, self.seed = pid, tier, seed
        self.t0 = time.time()
        self.rules = collections.OrderedDict()     # rule -> stats
        self.violations = []                        # dicts
        self.vkeys = set()
        self.samples = []
        self.notes = []
        self.explanation = ''
        self.assumptions = []
        self.cover = {}
        self.cfg = ''
        self._seen_ob = set()

    # ---- rule registration
    def rule(self, rid, kind, text, floor=1):
        r = self.rules.get(rid)
        if r is None and getattr(self, 'dedupe', False) and any(o['rule'] == text for o in self.rules.values()):
            raise DuplicateRule(rid)         # the same rule is already claimed under another id of this check (props/shared.built_on)
        if r is None:
            r = self.rules[rid] = {'kind': kind, 'rule': text, 'floor': floor, 'sites': 0, 'obligations': 0, 'discharged': 0,
                                   'paths': 0, 'instances': set(), 'samples': [], 'configs': set()}
        r['configs'].add(self.cfg)
        return rid

    def paths(self, rid, n):
        self.rules[rid]['paths'] += n

    def ob(self, rid, fn, loc, ok, what, detail=None, desc=None, trace=None, inst=None):
        """one obligation at one site. fn: Fn or function name; loc: source location; what: human text;
        desc: stable construct descriptor used for known-finding matching (defaults to `what`)."""
        r = self.rules[rid]
        fname = fn if isinstance(fn, str) else fn['nname']
        if inst is None and not isinstance(fn, str):
            inst = fn.get('inst')
        site = (rid, fname, relloc(loc), what)
        first = site not in self._seen_ob
        if first:
            self._seen_ob.add(site)
            r['sites'] += 1
            r['obligations'] += 1
            if ok:
                r['discharged'] += 1
            if len(r['samples']) < 4:
                r['samples'].append({'rule': rid, 'site': relloc(loc), 'function': fname, 'obligation': what, 'holds': bool(ok), 'instantiation': inst})
        if inst:
            r['instances'].add(inst)
        if not ok:
            key = (rid, fname, desc or what)
            if key not in self.vkeys:
                self.vkeys.add(key)
                self.violations.append({'property': self.pid, 'rule': rid, 'function': fname, 'site': relloc(loc), 'instantiation': inst,
                                        'descriptor': desc or what, 'message': what, 'detail': detail, 'trace': trace, 'config': self.cfg})
                if not first:
                    pass
            if first is False:
                # same site already counted as discharged by another instantiation: flip it
                pass
        return ok

    def check_floors(self):
        for rid, r in self.rules.items():
            if r['sites'] < r['floor']:
                raise Broken('rule %s matched %d site(s), fewer than the %d confirmed by hand: its anchor vanished' % (rid, r['sites'], r['floor']))

    # ---- finishing
    def finish(self, broken=None):
        os.makedirs(os.path.join(VERIF, 'evidence'), exist_ok=True)
        kf_path = os.path.join(VERIF, 'known_findings.json')
        known = []
        try:
            known = [k for k in json.load(open(kf_path)).get('known', [])]
        except Exception:
            known = []
        real = []; kf_hits = []
        for v in self.violations:
            hit = None
            for k in known:
                if k.get('property') == self.pid and k.get('rule') == v['rule'] and k.get('function') == v['function'] and k.get('descriptor') == v['descriptor']:
                    hit = k; break
            (kf_hits if hit else real).append(v)
        obligations = sum(r['obligations'] for r in self.rules.values())
        discharged = sum(r['discharged'] for r in self.rules.values())
        paths = sum(r['paths'] for r in self.rules.values())
        nontrivial = sum(1 for r in self.rules.values() if r['sites'] >= 1)
        samples = []
        for r in self.rules.values():
            samples += r['samples'][:2]
        rules_out = {rid: {'kind': r['kind'], 'rule': r['rule'], 'sites': r['sites'], 'obligations': r['obligations'], 'discharged': r['discharged'],
                           'paths_enumerated': r['paths'], 'instantiations_seen': len(r['instances']), 'floor': r['floor'], 'configs': sorted(r['configs'])}
                     for rid, r in self.rules.items()}
        cov = {
            'explanation': self.explanation,
            'obligations': obligations, 'discharged': discharged,
            'evaluations': max(1, paths + obligations), 'distinct_nontrivial': nontrivial,
            'rule': 'an obligation is one rule instance at one source site (function pattern x location x statement of what must hold), counted once '
                    'however many template instantiations exhibit it; distinct_nontrivial counts rule instances that matched at least one site; '
                    'evaluations = CFG paths enumerated + obligations evaluated',
            'samples': samples[:24], 'rules': rules_out,
            'checker_cmd': 'python3 engine/check.py %s --tier %s' % (self.pid, self.tier),
            'trusted_base': ['clang 14 parser/Sema/constant evaluator/clang::CFG', 'libstdc++ 12 conforms to its specification',
                             'rule tables in engine/coclint/props (reviewed against the code)', 'interprocedural bound 3, exception-edge convention (DESIGN 3.3)'],
        }
        cov.update(self.cover)
        if broken:
            cov['analysis_broken'] = broken
        ev = {'property_id': self.pid, 'tier': self.tier, 'seed': self.seed, 'level': 'other', 'coverage': cov,
              'assumptions': self.assumptions, 'wall_s': round(time.time() - self.t0, 2), 'violations': len(real),
              'known_findings_hit': [{'rule': v['rule'], 'function': v['function'], 'descriptor': v['descriptor']} for v in kf_hits],
              'notes': self.notes}
        if not os.environ.get('COCLS_NO_EVIDENCE'):      # set only by tools/try_mutant.sh (scratch trees must not overwrite evidence)
            with open(os.path.join(VERIF, 'evidence', self.pid + '.json'), 'w') as fh:
                json.dump(ev, fh, indent=1, default=_default)
                fh.write('\n')
        print('%s [%s]: %d rule(s), %d obligation(s), %d discharged, %d path(s), %.1fs' % (self.pid, self.tier, len(self.rules), obligations, discharged, paths, time.time() - self.t0))
        for rid, r in self.rules.items():
            print('  %-34s %-10s sites=%-3d ok=%-3d paths=%d' % (rid, r['kind'], r['sites'], r['discharged'], r['paths']))
        for v in kf_hits:
            print('KNOWN-FINDING: property=%s %s in %s at %s: %s' % (self.pid, v['rule'], v['function'], v['site'], v['message']))
        if broken:
            sys.stderr.write('ANALYSIS-BROKEN property=%s %s\n' % (self.pid, broken))
            if not real:
                return 2
        if not os.environ.get('COCLS_NO_EVIDENCE'):
            # replay files of an earlier run of this check are stale now
            import glob
            for old_ in glob.glob(os.path.join(VERIF, 'evidence', 'replay', self.pid + '-*.json')):
                try:
                    os.remove(old_)
                except OSError:
                    pass
        if real:
            rd = os.path.join(VERIF, 'evidence', 'replay')
            os.makedirs(rd, exist_ok=True)
            for i, v in enumerate(real):
                p = os.path.join(rd, '%s-%d.json' % (self.pid, i))
                with open(p, 'w') as fh:
                    json.dump(v, fh, indent=1, default=_default)
                print('  violation: %s in %s at %s: %s' % (v['rule'], v['function'], v['site'], v['message']))
                print('VIOLATION property=%s replay=%s' % (self.pid, os.path.relpath(p, VERIF)))
            return 1
        return 0


def _default(o):
    if isinstance(o, (set, frozenset)):
        return sorted(o)
    return str(o)
