#!/usr/bin/env python3
# usage: tools/dbg.py <repo> <function name> [lambda]  -- prints the helper-inlined traces of a function (debugging aid)
import sys, os
sys.path.insert(0, '/verif/engine')
os.environ['COCLS_REPO'] = sys.argv[1]; os.environ.setdefault('COCLS_CACHE_KEEP', '60')
from coclint import facts, rules
from coclint.core import fmt_trace
dbs, info = facts.build('quick')
db = list(dbs.values())[0]
fns = rules.lambdas_of(db, sys.argv[2]) if len(sys.argv) > 3 else db.fns(sys.argv[2])
T = rules.htracer(db)
for f in fns[:1]:
    print(f['key'], f.get('inst'))
    for tr in T.traces(f):
        print('----'); print(fmt_trace(tr))
