#!/usr/bin/env python3
# turns the per-tree logs of tools/own6.sh (/tmp/m6/<Cxx-n>.log, output of engine/check.py --all) into the matrix json of tools/matrix.py,
# keyed by the absolute directory of the change.   usage: logs2matrix.py <logdir> <srcdir> <out.json>
import sys, os, json, glob, re
logdir, src, out = sys.argv[1:4]
summary = {}
for lg in sorted(glob.glob(os.path.join(logdir, 'C??-*.log'))):
    w = os.path.basename(lg)[:-4]; c, n = w.split('-')
    d = os.path.abspath(os.path.join(src, c, n))
    cur = None; viol = {}; res = {}
    for l in open(lg, errors='replace'):
        l = l.rstrip('\n')
        if l.startswith('=== ') and l.endswith(' begin'):
            cur = l.split()[1]; viol[cur] = set()
        elif l.startswith('=== ') and ' rc=' in l:
            k = l.split()[1]; res[k] = (int(l.rsplit('rc=', 1)[1]), sorted(viol.get(k, set()))); cur = None
        elif l.startswith('  violation') and cur:
            viol[cur].add(l.split(':')[1].split(' in ')[0].strip())
    hits = {k: v[1] for k, v in res.items() if v[0] == 1}
    summary[d] = {'property': c, 'own': c in hits, 'hits': hits, 'broken': [k for k, v in res.items() if v[0] == 2]}
json.dump(summary, open(out, 'w'), indent=1)
print('%d trees; own-property detections %d; detected by any check %d' % (len(summary), sum(1 for s in summary.values() if s['own']), sum(1 for s in summary.values() if s['hits'])))
