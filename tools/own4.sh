#!/bin/sh
# round-4 scratch trees under /tmp/m4/<Cxx-n>: (re)creates / re-syncs the trees from /tmp/mut4/<Cxx>/<n>/patch.diff, runs the check of the change's own property (or $CHECKS)
for w in ${TREES:-$(ls -d /tmp/mut4/C*/[123] | sed 's#/tmp/mut4/\(C..\)/\(.\)#\1-\2#')}; do c=${w%%-*}; n=${w##*-}; d=/tmp/mut4/$c/$n; t=/tmp/m4/$w
  [ -f $d/patch.diff ] || continue
  [ -d $t ] || git -C /repo worktree add -q --detach $t HEAD
  git -C $t checkout -q -- . && git -C $t apply $d/patch.diff || { echo "FAIL $w"; continue; }
  for chk in ${CHECKS:-$c}; do COCLS_CACHE_KEEP=250 COCLS_REPO=$t COCLS_NO_EVIDENCE=1 python3 /verif/engine/check.py $chk --tier quick 2>&1 | grep -E "violation|BROKEN" | cut -c1-${W:-260} | sed "s#^#$w $chk: #" | head -${N:-3}; done; done
