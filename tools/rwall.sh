#!/bin/sh
# runs all 20 quick checks on every persistent refactored worktree /tmp/rw/*; prints the alarms (false alarms by construction)
mkdir -p /tmp/ref/out
ls /tmp/rw | xargs -P 8 -I{} sh -c 'W=${W:-260} /verif/tools/rw.sh {} C01 C02 C03 C04 C05 C06 C07 C08 C09 C10 C11 C12 C13 C14 C15 C16 C17 C18 C19 C20 > /tmp/ref/out/{}.txt 2>&1'
cat /tmp/ref/out/*.txt
echo "alarming (patch,check) pairs: $(cat /tmp/ref/out/*.txt | cut -d: -f1 | sort -u | wc -l)"
