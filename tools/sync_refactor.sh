#!/bin/sh
# copies finished behaviour-preserving refactoring patches (/tmp/ref5/<G>/<n>/{patch.diff,notes.md}) into /verif/refactor/<G><n>/ so that they survive a sandbox restore
cd "$(dirname "$0")/.."
for g in /tmp/ref5/V?/; do G=$(basename $g); for n in 1 2 3; do
  [ -f $g/$n/patch.diff ] && [ -f $g/$n/notes.md ] && mkdir -p refactor/$G$n && cp $g/$n/patch.diff $g/$n/notes.md refactor/$G$n/
done; done
ls refactor | wc -l
