#!/bin/sh
# round-3 scratch trees under /tmp/m3/<Cxx-n>: runs the check of the change's own property (or the checks given) on each
for w in ${TREES:-$(ls /tmp/m3)}; do c=${w%%-*}; for chk in ${CHECKS:-$c}; do COCLS_CACHE_KEEP=150 COCLS_REPO=/tmp/m3/$w COCLS_NO_EVIDENCE=1 python3 /verif/engine/check.py $chk --tier quick 2>&1 | grep -E "violation|BROKEN" | cut -c1-${W:-260} | sed "s#^#$w $chk: #" | head -${N:-3}; done; done
