#!/bin/sh
# third refactoring experiment: all 20 quick checks on every worktree under /tmp/rw3
mkdir -p /tmp/ref3/out
ls /tmp/rw3 | xargs -P 8 -I{} sh -c 'for c in C01 C02 C03 C04 C05 C06 C07 C08 C09 C10 C11 C12 C13 C14 C15 C16 C17 C18 C19 C20; do COCLS_CACHE_KEEP=80 COCLS_REPO=/tmp/rw3/{} COCLS_NO_EVIDENCE=1 python3 /verif/engine/check.py $c --tier quick 2>&1 | grep -E "violation|BROKEN" | cut -c1-${W:-300} | sed "s#^#{} $c: #"; done > /tmp/ref3/out/{}.txt 2>&1'
cat /tmp/ref3/out/*.txt
echo "alarming (patch,check) pairs: $(cat /tmp/ref3/out/*.txt | cut -d: -f1 | sort -u | wc -l)"
