#!/usr/bin/env python3
# re-runs (patch dir, check) pairs listed in a file on scratch worktrees; prints those that still alarm
import sys, os, subprocess, collections
from concurrent.futures import ThreadPoolExecutor
HERE = os.path.dirname(os.path.dirname(os.path.abspath(__file__)))
pairs = [l.split() for l in open(sys.argv[1]) if l.strip()]
by = collections.defaultdict(list)
for d, c in pairs:
    by[d].append(c)
def run(d):
    w = '/tmp/rp2.%d.%s' % (os.getpid(), d.strip('/').replace('/', '_'))
    subprocess.run(['git', '-C', '/repo', 'worktree', 'add', '-q', '--detach', w, 'HEAD'], check=True)
    res = []
    try:
        subprocess.run(['git', '-C', w, 'apply', os.path.join(d, 'patch.diff')], check=True)
        env = dict(os.environ, COCLS_REPO=w, COCLS_NO_EVIDENCE='1')
        for c in by[d]:
            r = subprocess.run(['python3', os.path.join(HERE, 'engine', 'check.py'), c, '--tier', 'quick'], capture_output=True, text=True, env=env, cwd=HERE)
            if r.returncode != 0:
                lines = [l.strip()[:int(os.environ.get('W', '300'))] for l in (r.stdout + r.stderr).splitlines() if l.startswith('  violation') or 'BROKEN' in l]
                res.append((c, r.returncode, lines))
    finally:
        subprocess.run(['git', '-C', '/repo', 'worktree', 'remove', '--force', w], capture_output=True)
    return d, res
with ThreadPoolExecutor(max_workers=6) as ex:
    out = list(ex.map(run, sorted(by)))
n = 0
for d, res in out:
    for c, rc, lines in res:
        n += 1
        print('%s %s rc=%d' % (d, c, rc))
        for l in lines[:int(os.environ.get('N', '3'))]:
            print('      ' + l)
print('still alarming: %d of %d pairs' % (n, len(pairs)))
