#!/bin/sh
# copies finished sub-agent deliverables (/tmp/mut6/Cxx/n/{patch.diff,demo.cpp,meta.json}) into /verif/seeded-incoming so that a sandbox restore cannot lose them
cd "$(dirname "$0")/.."
for c in /tmp/mut6/C*/; do id=$(basename $c); for n in 1 2 3 4; do
  [ -f $c/$n/patch.diff ] && [ -f $c/$n/demo.cpp ] && [ -f $c/$n/meta.json ] && mkdir -p seeded-incoming/$id/$n && cp -n $c/$n/patch.diff $c/$n/demo.cpp $c/$n/meta.json seeded-incoming/$id/$n/
done; done
find seeded-incoming -name patch.diff | wc -l
