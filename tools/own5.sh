#!/bin/sh
# round-5 scratch trees under /tmp/m5/<Cxx-n>: (re)creates / re-syncs the trees from /tmp/mut5/<Cxx>/<n>/patch.diff, runs all checks on one fact base
# and prints "<tree> own=<yes|no> fired=<checks> broken=<checks>"
for w in ${TREES:-$(ls -d /tmp/mut5/C*/[1234] | sed 's#/tmp/mut5/\(C..\)/\(.\)#\1-\2#')}; do c=${w%%-*}; n=${w##*-}; d=/tmp/mut5/$c/$n; t=/tmp/m5/$w
  [ -f $d/patch.diff ] || continue
  [ -d $t ] || git -C /repo worktree add -q --detach $t HEAD
  git -C $t checkout -q -- . && git -C $t apply $d/patch.diff || { echo "FAIL $w"; continue; }
  COCLS_CACHE_KEEP=250 COCLS_REPO=$t COCLS_NO_EVIDENCE=1 COCLS_NO_SELFTEST=1 python3 ${ENG:-/verif}/engine/check.py --all --tier quick > /tmp/m5/$w.log 2>&1
  fired=$(grep -E "^=== C.. rc=1" /tmp/m5/$w.log | cut -c5-7 | tr '\n' ' '); broken=$(grep -E "^=== C.. rc=2" /tmp/m5/$w.log | cut -c5-7 | tr '\n' ' ')
  case " $fired" in *" $c "*) own=yes;; *) own=no;; esac
  echo "$w own=$own fired=$fired broken=$broken"
done
