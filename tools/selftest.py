#!/usr/bin/env python3
# runs the hand-written mutants of selftest/mutants.py (all, or those of the given property ids / mutant ids)
import sys, os
HERE = os.path.dirname(os.path.dirname(os.path.abspath(__file__)))
sys.path.insert(0, os.path.join(HERE, 'engine'))
from coclint import mutate
res = mutate.run(sys.argv[1:])
bad = 0
for mid, prop, v, note in res:
    print('%-6s %-4s %-40s %s' % (mid, prop, note[:40], v))
    bad += not v.startswith('caught')
print('%d mutants, %d not caught' % (len(res), bad))
sys.exit(1 if bad else 0)
